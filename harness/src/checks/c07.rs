//! C07 — epoch length, difficulty and per-block issuance arithmetic stay within spec.
//!
//! Pure check (no node).  The oracle is exact arithmetic (`crate::bignat`, `crate::c07_model`)
//! evaluating the RFC 0020 formulas; the code under test is driven through a mock `EpochProvider`
//! (using the trait's own default `get_block_epoch`).
//!
//! Sub-properties: `oracle-selftest`, `epoch-difficulty`, `epoch-bookkeeping`, `issuance`,
//! `compact`, `compact-enum`, `pow`, `successor`, `rational`.
use crate::bignat::BigNat;
use crate::c07_model as model;
use crate::common::*;
use crate::{vensure, vfail};
use ckb_chain_spec::consensus::{Consensus, ConsensusBuilder, NextBlockEpoch};
use ckb_pow::Pow;
use ckb_rational::RationalU256;
use ckb_traits::EpochProvider;
use ckb_types::core::{BlockExt, BlockNumber, Capacity, EpochExt, EpochNumberWithFraction, HeaderView};
use ckb_types::packed::{self, Byte32};
use ckb_types::prelude::*;
use ckb_types::{U256, utilities};
use proptest::prelude::*;
use serde::{Deserialize, Serialize};
use serde_json::{Value, json};
use std::cell::{Cell, RefCell};

pub fn spec() -> CheckSpec {
    CheckSpec {
        id: "C07",
        level: "exploration",
        rule: "proptest cases over (previous EpochExt, uncle count, duration, previous hash rate, compact target, consensus parameters) driven through Consensus::next_epoch_ext with a mock EpochProvider and compared with an exact big-integer evaluation of the RFC 0020 formulas; plus issuance sums, compact/target/difficulty conversions, PoW verify and epoch-field succession. Non-trivial = the case hits a length clamp or a hash-rate clamp, or a non-zero reward remainder, or an extreme/boundary compact encoding, or (pow) lands on either side of the target, or (successor) crosses an epoch boundary / is a mutated non-successor; distinct = hash of the whole case A node-level family (tree-epochs) builds block trees with long rival branches, uncles and varied timestamps under dynamic-difficulty specs with 3/4/7-block genesis epochs, delivers them to a real node and compares the epoch record the node stores for EVERY block (main chain and side branches) with the exact evaluation of the formulas on the statistics of the block's own branch (uncle count and duration measured from the previous epoch's last block on that branch); the same comparison for the epochs the harness's tree obtains from Consensus::next_epoch_ext over a tree-backed provider; non-trivial there = a side-branch block lies in an epoch that began after its branch left the main chain.",
        assumptions: &[
            "exact agreement of next_epoch_ext with the RFC formula is demanded only where a conservative bit count shows that every intermediate product fits 256 bits (numext U256 arithmetic is checked and panics on overflow); outside (`extreme-domain`, difficulty > ~2^160, unreachable with real proof of work) only bounds / difficulty >= 1 are checked and U256 overflow panics are counted under a label",
            "length bounds are demanded only when [max(300, len/2), min(1800, 2 len)] is non-empty (previous length in 150..=3600)",
            "a previous hash rate of zero means 'no previous estimate' (no dampening), as in bounding_hash_rate; the lower dampening bound is floor(prev/2) and the lower length bound floor(len/2)",
            "compact encodings with exponent > 32 whose value would still fit 256 bits are flagged overflow by compact_to_target (stricter than needed); they are never produced by target_to_compact and are only labelled",
            "header hash = blake2b-256(208 header bytes), pow hash = blake2b-256(192 raw header bytes), personalisation ckb-default-hash; pow message = pow_hash || nonce LE",
        ],
        workers: |_| 16,
        watchdog_s: |t| t.pick(600, 3600),
        run,
        replay,
    }
}

// ---------------------------------------------------------------------------------------------
// plumbing
// ---------------------------------------------------------------------------------------------

thread_local! {
    static QUIET: Cell<bool> = const { Cell::new(false) };
    static LAST_PANIC: RefCell<String> = const { RefCell::new(String::new()) };
    static BASE: RefCell<Option<Result<Consensus, String>>> = const { RefCell::new(None) };
}

fn install_hook() {
    static ONCE: std::sync::Once = std::sync::Once::new();
    ONCE.call_once(|| {
        let prev = std::panic::take_hook();
        std::panic::set_hook(Box::new(move |info| {
            if QUIET.with(|q| q.get()) {
                LAST_PANIC.with(|l| *l.borrow_mut() = info.to_string());
            } else {
                prev(info);
            }
        }));
    });
}

/// run code under test, turning a panic into Err(message)
fn guarded<T>(f: impl FnOnce() -> T) -> Result<T, String> {
    install_hook();
    QUIET.with(|q| q.set(true));
    let r = std::panic::catch_unwind(std::panic::AssertUnwindSafe(f));
    QUIET.with(|q| q.set(false));
    r.map_err(|_| LAST_PANIC.with(|l| l.borrow().replace('\n', " ")))
}

fn to_u256(b: &BigNat) -> Option<U256> {
    b.to_be_bytes(32).map(|v| U256::from_big_endian(&v).expect("32 bytes"))
}

fn from_u256(u: &U256) -> BigNat {
    let mut buf = [0u8; 32];
    u.into_big_endian(&mut buf).expect("32 bytes");
    BigNat::from_be_bytes(&buf)
}

fn blake2b_256(data: &[u8]) -> [u8; 32] {
    let mut out = [0u8; 32];
    let mut h = blake2b_rs::Blake2bBuilder::new(32)
        .personal(b"ckb-default-hash")
        .build();
    h.update(data);
    h.finalize(&mut out);
    out
}

#[derive(Clone, Debug, Serialize, Deserialize)]
pub struct RawHdr {
    pub version: u32,
    pub compact: u32,
    pub timestamp: u64,
    pub number: u64,
    pub epoch: u64,
    pub parent: [u8; 32],
    pub tx_root: [u8; 32],
    pub proposals: [u8; 32],
    pub extra: [u8; 32],
    pub dao: [u8; 32],
    /// (low, high) 64-bit halves of the u128 nonce
    pub nonce: (u64, u64),
}

impl RawHdr {
    fn bytes(&self) -> [u8; 208] {
        let mut b = [0u8; 208];
        b[0..4].copy_from_slice(&self.version.to_le_bytes());
        b[4..8].copy_from_slice(&self.compact.to_le_bytes());
        b[8..16].copy_from_slice(&self.timestamp.to_le_bytes());
        b[16..24].copy_from_slice(&self.number.to_le_bytes());
        b[24..32].copy_from_slice(&self.epoch.to_le_bytes());
        b[32..64].copy_from_slice(&self.parent);
        b[64..96].copy_from_slice(&self.tx_root);
        b[96..128].copy_from_slice(&self.proposals);
        b[128..160].copy_from_slice(&self.extra);
        b[160..192].copy_from_slice(&self.dao);
        b[192..200].copy_from_slice(&self.nonce.0.to_le_bytes());
        b[200..208].copy_from_slice(&self.nonce.1.to_le_bytes());
        b
    }
    fn packed(&self) -> packed::Header {
        packed::Header::from_slice(&self.bytes()).expect("208-byte header")
    }
    fn view(&self) -> HeaderView {
        self.packed().into_view()
    }
    fn filler(seed: u64, k: u8) -> [u8; 32] {
        let mut out = [0u8; 32];
        let mut x = seed ^ ((k as u64) << 56) ^ 0x9e37_79b9_7f4a_7c15;
        for chunk in out.chunks_mut(8) {
            x ^= x << 13;
            x ^= x >> 7;
            x ^= x << 17;
            chunk.copy_from_slice(&x.to_le_bytes());
        }
        out
    }
    fn simple(compact: u32, timestamp: u64, number: u64, epoch: u64, seed: u64) -> RawHdr {
        RawHdr {
            version: 0,
            compact,
            timestamp,
            number,
            epoch,
            parent: Self::filler(seed, 1),
            tx_root: Self::filler(seed, 2),
            proposals: Self::filler(seed, 3),
            extra: Self::filler(seed, 4),
            dao: Self::filler(seed, 5),
            nonce: (seed, 0),
        }
    }
}

fn epoch_field(number: u64, index: u64, length: u64) -> u64 {
    (length << 40) | (index << 24) | number
}

struct MockProvider {
    epoch: EpochExt,
    genesis_hash: Byte32,
    blocks: Vec<(Byte32, HeaderView, BlockExt)>,
}

impl EpochProvider for MockProvider {
    fn get_epoch_ext(&self, _h: &HeaderView) -> Option<EpochExt> {
        Some(self.epoch.clone())
    }
    fn get_block_hash(&self, number: BlockNumber) -> Option<Byte32> {
        if number == 0 { Some(self.genesis_hash.clone()) } else { None }
    }
    fn get_block_ext(&self, hash: &Byte32) -> Option<BlockExt> {
        self.blocks.iter().find(|b| &b.0 == hash).map(|b| b.2.clone())
    }
    fn get_block_header(&self, hash: &Byte32) -> Option<HeaderView> {
        self.blocks.iter().find(|b| &b.0 == hash).map(|b| b.1.clone())
    }
}

// ---------------------------------------------------------------------------------------------
// epoch cases
// ---------------------------------------------------------------------------------------------

#[derive(Clone, Debug, Serialize, Deserialize)]
pub enum PrevHr {
    Zero,
    One,
    Max,
    /// (mantissa << shift) truncated to 256 bits
    Abs(u64, u16),
    /// relative to the raw hash rate estimate r: kind 0: 2r+d, 1: r/2+d, 2: r+d, 3: 4r+d,
    /// 4: r/4+d, 5: 3r/2+d, 6: 2r/3+d  (saturating at 0 and 2^256-1)
    Rel(u8, i8),
}

#[derive(Clone, Debug, Serialize, Deserialize)]
pub enum NumberSel {
    Genesis,
    Small(u16),
    /// k * interval - 1 + off  (the epoch before a halving boundary when off == 0)
    NearHalving(u16, i8),
    Any(u32),
}

#[derive(Clone, Debug, Serialize, Deserialize)]
pub struct EpochCase {
    pub duration_target: u64,
    pub orphan_target: (u32, u32),
    pub halving_interval: u64,
    pub initial_reward: u64,
    pub permanent: bool,
    pub number: NumberSel,
    pub start: u64,
    pub length: u64,
    pub compact: u32,
    pub prev_hr: PrevHr,
    pub uncles: u64,
    pub duration_ms: u64,
    pub base_uncles: u32,
    pub base_ts: u64,
    /// None: the header is the tail block of the epoch; Some(sel): a non-tail block
    pub non_tail: Option<u16>,
    pub seed: u64,
}

const MAX_EPOCH_NUMBER: u64 = (1 << 24) - 2;

impl EpochCase {
    fn number(&self) -> u64 {
        let n = match self.number {
            NumberSel::Genesis => 0,
            NumberSel::Small(x) => x as u64,
            NumberSel::NearHalving(k, off) => ((k as u64).max(1))
                .saturating_mul(self.halving_interval)
                .saturating_sub(1)
                .saturating_add_signed(off as i64),
            NumberSel::Any(x) => x as u64,
        };
        let n = n.min(MAX_EPOCH_NUMBER);
        // a genesis epoch of length 1 would make the tail block the genesis block itself
        if n == 0 && self.length < 2 { 1 } else { n }
    }
    fn start(&self) -> u64 {
        if self.number() == 0 { 0 } else { self.start.max(1) }
    }
    fn prev_hr(&self, raw: &BigNat) -> BigNat {
        let max = model::max256();
        let v = match &self.prev_hr {
            PrevHr::Zero => BigNat::zero(),
            PrevHr::One => BigNat::one(),
            PrevHr::Max => max.clone(),
            PrevHr::Abs(m, s) => BigNat::from_u64(*m).shl((*s % 256) as usize),
            PrevHr::Rel(kind, d) => {
                let base = match kind % 7 {
                    0 => raw.mul_u32(2),
                    1 => raw.shr(1),
                    2 => raw.clone(),
                    3 => raw.mul_u32(4),
                    4 => raw.shr(2),
                    5 => raw.mul_u32(3).shr(1),
                    _ => raw.mul_u32(2).div(&BigNat::from_u64(3)),
                };
                if *d >= 0 {
                    base.add(&BigNat::from_u64(*d as u64))
                } else {
                    base.checked_sub(&BigNat::from_u64(d.unsigned_abs() as u64))
                        .unwrap_or_else(BigNat::zero)
                }
            }
        };
        // keep 256 bits
        if v.bits() > 256 { BigNat::from_be_bytes(&v.to_be_bytes(64).unwrap()[32..]) } else { v }
    }
}

struct EpochRun {
    input: model::EpochInput,
    m: model::EpochModel,
    number: u64,
    p_in: u64,
    epoch: EpochExt,
    tail: RawHdr,
    tail_hash: [u8; 32],
    is_tail: bool,
    result: Result<Option<NextBlockEpoch>, String>,
}

/// the default consensus (built once per thread; a panic while building it is kept as Err)
fn base_consensus() -> Result<Consensus, String> {
    BASE.with(|b| {
        let mut b = b.borrow_mut();
        if b.is_none() {
            *b = Some(guarded(|| ConsensusBuilder::default().build()));
        }
        b.as_ref().unwrap().clone()
    })
}

fn with_consensus<T>(c: &EpochCase, f: impl FnOnce(&Consensus) -> T) -> Result<T, String> {
    let mut cons = base_consensus().map_err(|e| format!("ConsensusBuilder::default().build() panicked: {e}"))?;
    cons.epoch_duration_target = c.duration_target;
    cons.orphan_rate_target = RationalU256::new_raw(
        U256::from(c.orphan_target.0),
        U256::from(c.orphan_target.1),
    );
    cons.primary_epoch_reward_halving_interval = c.halving_interval;
    cons.initial_primary_epoch_reward = Capacity::shannons(c.initial_reward);
    cons.permanent_difficulty_in_dummy = c.permanent;
    cons.pow = if c.permanent || c.seed & 1 == 0 { Pow::Dummy } else { Pow::Eaglesong };
    Ok(f(&cons))
}

fn run_epoch(c: &EpochCase) -> EpochRun {
    let number = c.number();
    let start = c.start();
    let length = c.length;
    let difficulty = model::compact_to_difficulty(c.compact);
    let mut input = model::EpochInput {
        difficulty,
        length,
        uncles: c.uncles,
        duration_ms: c.duration_ms,
        prev_hash_rate: BigNat::zero(),
        duration_target: c.duration_target,
        orphan_target: c.orphan_target,
    };
    let (raw, _) = model::raw_hash_rate(&input);
    input.prev_hash_rate = c.prev_hr(&raw);
    let m = model::next_epoch(&input);
    let p_in = model::scheduled_primary(c.initial_reward, c.halving_interval, number);
    let last_seed = c.seed ^ 0x5555;
    // last block of the previous epoch (the genesis block for the genesis epoch)
    let base_ts = c.base_ts.min(u64::MAX - c.duration_ms);
    let prev_last = if number == 0 {
        RawHdr::simple(c.compact, base_ts, 0, 0, last_seed)
    } else {
        RawHdr::simple(c.compact, base_ts, start - 1, epoch_field(number - 1, 0, 1), last_seed)
    };
    let prev_last_view = prev_last.view();
    let prev_last_hash = prev_last_view.hash();
    let epoch = EpochExt::new_builder()
        .number(number)
        .base_block_reward(Capacity::shannons(p_in / length))
        .remainder_reward(Capacity::shannons(p_in % length))
        .previous_epoch_hash_rate(to_u256(&input.prev_hash_rate).expect("256 bits"))
        .last_block_hash_in_previous_epoch(if number == 0 {
            Byte32::zero()
        } else {
            prev_last_hash.clone()
        })
        .start_number(start)
        .length(length)
        .compact_target(c.compact)
        .build();
    let index = match c.non_tail {
        Some(sel) if length >= 2 => pick_idx(sel as u32, (length - 1) as usize) as u64,
        _ => length - 1,
    };
    let is_tail = index == length - 1;
    let tail = RawHdr::simple(
        c.compact,
        base_ts + c.duration_ms,
        start + index,
        epoch_field(number, index, length),
        c.seed,
    );
    let tail_view = tail.view();
    let tail_hash = blake2b_256(&tail.bytes());
    let mk_ext = |uncles: u64| BlockExt {
        received_at: 0,
        total_difficulty: U256::zero(),
        total_uncles_count: uncles,
        verified: Some(true),
        txs_fees: vec![],
        cycles: None,
        txs_sizes: None,
    };
    let mut blocks = vec![(
        prev_last_hash.clone(),
        prev_last_view,
        mk_ext(c.base_uncles as u64),
    )];
    if !(number == 0 && start + index == 0) {
        blocks.push((
            tail_view.hash(),
            tail_view.clone(),
            mk_ext(c.base_uncles as u64 + if is_tail { c.uncles } else { c.uncles / 2 }),
        ));
    }
    let provider = MockProvider {
        epoch: epoch.clone(),
        genesis_hash: prev_last_hash,
        blocks,
    };
    let result = match with_consensus(c, |cons| guarded(|| cons.next_epoch_ext(&tail_view, &provider))) {
        Ok(r) => r,
        Err(e) => Err(e),
    };
    EpochRun {
        input,
        m,
        number,
        p_in,
        epoch,
        tail,
        tail_hash,
        is_tail,
        result,
    }
}

// ---- strategies --------------------------------------------------------------------------------

fn length_strategy() -> impl Strategy<Value = u64> {
    prop_oneof![
        8 => 300u64..=1800,
        4 => 150u64..=3600,
        3 => prop::sample::select(vec![
            1u64, 2, 3, 149, 150, 151, 299, 300, 301, 599, 600, 601, 899, 900, 901, 1000, 1799, 1800,
            1801, 3599, 3600, 3601, 65534, 65535
        ]),
        1 => 1u64..=65535,
    ]
}

/// compact targets for the epoch sub-properties; `wide` adds extremes and degenerate encodings
fn epoch_compact_strategy(wide: bool) -> BoxedStrategy<u32> {
    let canonical = |lo: u32, hi: u32| {
        (lo..=hi, 0x01_0000u32..=0xff_ffff).prop_map(|(e, m)| (e << 24) | m)
    };
    if wide {
        prop_oneof![
            6 => canonical(0x17, 0x20),
            6 => canonical(0x0c, 0x20),
            4 => canonical(0x01, 0x20),
            2 => (1u32..=0x20, prop::sample::select(vec![1u32, 0xff, 0x100, 0xffff, 0x1_0000, 0x7f_ffff, 0x80_0000, 0xff_ffff]))
                .prop_map(|(e, m)| (e << 24) | m),
            1 => prop::sample::select(vec![
                0x2080_0000u32, 0x20ff_ffff, 0x2101_0000, 0x1d00_ffff, 0x1a08_f6e2, 0x0101_0000, 0x0201_0000,
                0x0300_0001, 0x0400_0001, 0, 0x2000_0000, 0x2301_0000, 0xff7f_ffff, 0x2401_0000
            ]),
        ]
        .boxed()
    } else {
        prop_oneof![
            6 => canonical(0x17, 0x20),
            3 => canonical(0x10, 0x20),
            1 => prop::sample::select(vec![0x2080_0000u32, 0x20ff_ffff, 0x1d00_ffff, 0x1a08_f6e2, 0x2001_0000]),
        ]
        .boxed()
    }
}

fn prev_hr_strategy() -> impl Strategy<Value = PrevHr> {
    prop_oneof![
        1 => Just(PrevHr::Zero),
        1 => Just(PrevHr::One),
        1 => Just(PrevHr::Max),
        3 => (any::<u64>(), 0u16..256).prop_map(|(m, s)| PrevHr::Abs(m, s)),
        12 => (0u8..7, -3i8..=3).prop_map(|(k, d)| PrevHr::Rel(k, d)),
    ]
}

fn number_strategy() -> impl Strategy<Value = NumberSel> {
    prop_oneof![
        2 => Just(NumberSel::Genesis),
        4 => (0u16..600).prop_map(NumberSel::Small),
        5 => (1u16..70, -2i8..=2).prop_map(|(k, o)| NumberSel::NearHalving(k, o)),
        3 => (0u32..(1 << 24)).prop_map(NumberSel::Any),
    ]
}

fn uncles_strategy(length: u64) -> impl Strategy<Value = u64> {
    let around = length / 40;
    prop_oneof![
        3 => Just(0u64),
        2 => Just(1u64),
        8 => (around.saturating_sub(around / 2 + 3))..=(around + around / 2 + 3),
        3 => 0..=(length / 8 + 1),
        2 => 0..=(2 * length),
        1 => Just(2 * length),
    ]
    .prop_map(move |u| u.min(2 * length))
}

fn duration_strategy(target: u64) -> impl Strategy<Value = u64> {
    let t_ms = target.saturating_mul(1000);
    prop_oneof![
        2 => prop::sample::select(vec![0u64, 1, 999, 1000, 1001, 1999, 2000]),
        // log-uniform factor in [1/16, 16] around the target
        10 => (0u32..=0xffff).prop_map(move |sel| {
            let f = 2f64.powf((sel as f64 / 65535.0) * 8.0 - 4.0);
            (t_ms as f64 * f) as u64
        }),
        4 => (0u32..=0xffff).prop_map(move |sel| {
            // within +-12% of the target
            let f = 0.88 + 0.24 * (sel as f64 / 65535.0);
            (t_ms as f64 * f) as u64
        }),
        1 => Just(t_ms),
        1 => prop::sample::select(vec![1u64 << 40, (1u64 << 40) + 999, 1 << 53, 1 << 63, u64::MAX, u64::MAX - 1]),
        1 => any::<u64>(),
    ]
}

fn epoch_case_strategy(wide: bool, book: bool) -> impl Strategy<Value = EpochCase> {
    let params = (
        prop_oneof![
            10 => Just(14400u64),
            2 => prop::sample::select(vec![1u64, 8, 96, 1000, 3600, 28800, 1 << 20, u32::MAX as u64]),
            1 => 1u64..100_000,
        ],
        prop_oneof![
            10 => Just((1u32, 40u32)),
            2 => prop::sample::select(vec![(1u32, 20u32), (1, 2), (1, 1), (3, 100), (1, 1000), (7, 3)]),
            1 => (1u32..50, 1u32..2000),
        ],
        prop_oneof![
            3 => Just(8760u64),
            2 => 1u64..12,
            2 => 12u64..2000,
            2 => 1u64..100_000,
        ],
        prop_oneof![
            5 => Just(1_917_808_21917808u64),
            2 => 1u64..5000,
            2 => any::<u64>().prop_map(|x| x.max(1)),
            1 => Just(u64::MAX),
        ],
        if book { prop::bool::weighted(0.15) } else { prop::bool::weighted(0.0) },
    );
    (params, length_strategy()).prop_flat_map(move |((target, orphan, interval, initial, permanent), length)| {
        (
            number_strategy(),
            1u64..(1 << 60),
            epoch_compact_strategy(wide),
            prev_hr_strategy(),
            uncles_strategy(length),
            duration_strategy(target),
            any::<u32>(),
            prop_oneof![3 => 1_500_000_000_000u64..1_900_000_000_000, 1 => any::<u64>()],
            if book {
                prop::option::weighted(0.25, any::<u16>()).boxed()
            } else {
                Just(None).boxed()
            },
            any::<u64>(),
        )
            .prop_map(
                move |(number, start, compact, prev_hr, uncles, duration_ms, base_uncles, base_ts, non_tail, seed)| {
                    EpochCase {
                        duration_target: target,
                        orphan_target: orphan,
                        halving_interval: interval,
                        initial_reward: initial,
                        permanent,
                        number,
                        start,
                        length,
                        compact,
                        prev_hr,
                        uncles,
                        duration_ms,
                        base_uncles,
                        base_ts,
                        non_tail,
                        seed,
                    }
                },
            )
    })
}

// ---- epoch properties --------------------------------------------------------------------------

fn epoch_labels(c: &EpochCase, r: &EpochRun, st: &mut Stats, pfx: &str) {
    let m = &r.m;
    st.label(&format!("{pfx}:hr-clamp={}", m.hr_clamp));
    if m.hr_floor_one {
        st.label(&format!("{pfx}:hr-floored-to-one"));
    }
    st.label(&format!("{pfx}:len-clamp={}", m.len_clamp));
    if m.orphan_recip_nonpositive {
        st.label(&format!("{pfx}:orphan-estimate-recip<=0"));
    }
    if m.diff_below_one {
        st.label(&format!("{pfx}:difficulty-floored-to-one"));
    }
    if !m.bounds_satisfiable {
        st.label(&format!("{pfx}:length-bounds-unsatisfiable"));
    }
    if !m.fits {
        st.label(&format!("{pfx}:extreme-domain"));
    }
    if let PrevHr::Rel(k, d) = &c.prev_hr {
        if (*k % 7 == 0 || *k % 7 == 1) && d.abs() <= 1 {
            st.label(&format!("{pfx}:hr-at-clamp-boundary+-1"));
        }
    }
    if c.duration_ms < 1000 {
        st.label(&format!("{pfx}:duration<1s"));
    }
    if c.uncles == 2 * c.length {
        st.label(&format!("{pfx}:max-uncle-rate"));
    }
    if r.number == 0 {
        st.label(&format!("{pfx}:genesis-epoch"));
    }
    if model::compact_to_difficulty(c.compact).is_zero() {
        st.label(&format!("{pfx}:degenerate-target"));
    }
}

fn epoch_nontrivial(c: &EpochCase, r: &EpochRun, rem_nonzero: bool) -> bool {
    let m = &r.m;
    matches!(m.hr_clamp, "lower" | "upper")
        || matches!(m.len_clamp, "lower" | "upper")
        || rem_nonzero
        || (c.compact >> 24) <= 3
        || (c.compact >> 24) >= 0x20
}

fn render_epoch(c: &EpochCase, r: &EpochRun) -> Value {
    json!({
        "case": c,
        "epoch_number": r.number,
        "difficulty": r.input.difficulty.to_hex(),
        "prev_hash_rate": r.input.prev_hash_rate.to_hex(),
        "model": {
            "raw_hash_rate": r.m.raw_hash_rate.to_hex(), "hash_rate": r.m.hash_rate.to_hex(),
            "hr_clamp": r.m.hr_clamp, "raw_length": r.m.raw_length.as_ref().map(|x| x.to_hex()),
            "length": r.m.length, "len_clamp": r.m.len_clamp, "difficulty": r.m.difficulty.to_hex(),
            "compact": format!("{:#x}", r.m.compact), "fits": r.m.fits,
        }
    })
}

fn panic_signature(c: &EpochCase, r: &EpochRun, msg: &str) -> String {
    if msg.starts_with("ConsensusBuilder::default()") {
        return "consensus:default-build-panics".to_string();
    }
    let halvings = (r.number + 1) / c.halving_interval;
    if (r.number + 1) % c.halving_interval == 0 && halvings >= 64 && msg.contains("shift right with overflow") {
        // Consensus::primary_epoch_reward: `initial >> halvings` with halvings >= 64
        return "next-epoch:panic:halvings>=64".to_string();
    }
    format!("next-epoch:panic:{}", if r.m.fits { "exact-domain" } else { "extreme-domain" })
}

/// length bounds, difficulty formula incl. hash-rate clamp, difficulty never zero
fn prop_epoch_difficulty(c: &EpochCase, st: &mut Stats) -> Verdict {
    let r = run_epoch(c);
    let m = &r.m;
    epoch_labels(c, &r, st, "diff");
    let next = match &r.result {
        Err(msg) => {
            if !m.fits && msg.contains("U256: attempt to") {
                // numext U256 arithmetic is checked: a product that does not fit 256 bits panics
                st.label("diff:extreme-domain:u256-overflow-panic");
                return Ok(());
            }
            vfail!(panic_signature(c, &r, msg), "next_epoch_ext panicked: {msg}; {}", render_epoch(c, &r));
        }
        Ok(None) => vfail!("next-epoch:none", "next_epoch_ext returned None with a complete provider"),
        Ok(Some(NextBlockEpoch::NonHeadBlock(_))) => {
            vfail!("next-epoch:tail-not-recognised", "tail block of the epoch gave NonHeadBlock; {}", render_epoch(c, &r))
        }
        Ok(Some(NextBlockEpoch::HeadBlock(e))) => e,
    };
    let len = next.length();
    let rem_nonzero = next.remainder_reward().as_u64() != 0;
    if rem_nonzero {
        st.label("diff:reward-remainder!=0");
    }
    if epoch_nontrivial(c, &r, rem_nonzero) {
        st.nontrivial(&serde_json::to_string(c).unwrap());
    }
    if st.want_sample() && m.fits && m.len_clamp == "none" && m.hr_clamp != "none" {
        st.sample(|| render_epoch(c, &r));
    }
    // --- bounds
    if m.bounds_satisfiable {
        vensure!(
            (model::MIN_EPOCH_LENGTH..=model::MAX_EPOCH_LENGTH).contains(&len),
            "next-epoch:length-outside-consensus-min-max",
            "length {len} not in [300, 1800]; {}",
            render_epoch(c, &r)
        );
        vensure!(
            len <= c.length * model::TAU && len >= c.length / model::TAU,
            "next-epoch:length-outside-factor-two",
            "length {len} vs previous {}; {}",
            c.length,
            render_epoch(c, &r)
        );
    } else {
        vensure!(len > 0, "next-epoch:length-zero", "{}", render_epoch(c, &r));
    }
    // --- difficulty never zero
    let got_compact = next.compact_target();
    let got_diff = model::compact_to_difficulty(got_compact);
    vensure!(
        !got_diff.is_zero(),
        "next-epoch:difficulty-zero",
        "compact {got_compact:#x} decodes to difficulty 0; {}",
        render_epoch(c, &r)
    );
    let got_hr = from_u256(next.previous_epoch_hash_rate());
    vensure!(!got_hr.is_zero(), "next-epoch:hash-rate-zero", "{}", render_epoch(c, &r));
    if !m.fits {
        let agrees = len == m.length && got_compact == m.compact && got_hr == m.hash_rate;
        st.label(if agrees {
            "diff:extreme-domain:agrees-with-exact"
        } else {
            "diff:extreme-domain:diverges-from-exact"
        });
        return Ok(());
    }
    // --- exact agreement
    vensure!(
        got_hr == m.hash_rate,
        format!("next-epoch:hash-rate-mismatch:clamp={}{}", m.hr_clamp, if m.hr_floor_one { ":floor-one" } else { "" }),
        "previous_epoch_hash_rate {} want {}; {}",
        got_hr,
        m.hash_rate,
        render_epoch(c, &r)
    );
    vensure!(
        len == m.length,
        format!("next-epoch:length-mismatch:clamp={}", m.len_clamp),
        "length {len} want {}; {}",
        m.length,
        render_epoch(c, &r)
    );
    vensure!(
        got_compact == m.compact,
        format!(
            "next-epoch:difficulty-mismatch:len-clamp={}{}{}",
            m.len_clamp,
            if m.orphan_recip_nonpositive { ":recip<=0" } else { "" },
            if m.diff_below_one { ":floor-one" } else { "" }
        ),
        "compact {got_compact:#x} (difficulty {}) want {:#x} (difficulty {}); {}",
        got_diff,
        m.compact,
        m.difficulty,
        render_epoch(c, &r)
    );
    Ok(())
}

/// number / start / last hash / previous hash rate / reward schedule / epoch-field succession
fn prop_epoch_bookkeeping(c: &EpochCase, st: &mut Stats) -> Verdict {
    let r = run_epoch(c);
    let m = &r.m;
    epoch_labels(c, &r, st, "book");
    let is_tail = r.is_tail;
    if c.permanent {
        st.label("book:permanent-difficulty");
    }
    let halving_boundary = (r.number + 1) % c.halving_interval == 0;
    let next = match &r.result {
        Err(msg) => {
            if !m.fits && msg.contains("U256: attempt to") && !c.permanent && is_tail {
                st.label("book:extreme-domain:u256-overflow-panic");
                return Ok(());
            }
            vfail!(panic_signature(c, &r, msg), "next_epoch_ext panicked: {msg}; {}", render_epoch(c, &r));
        }
        Ok(None) => vfail!("next-epoch:none", "next_epoch_ext returned None with a complete provider"),
        Ok(Some(n)) => n,
    };
    let next = match (next, is_tail) {
        (NextBlockEpoch::NonHeadBlock(e), false) => {
            st.label("book:non-tail-block");
            vensure!(
                *e == r.epoch,
                "bookkeeping:non-tail-epoch-changed",
                "non-tail block: epoch ext changed: {e:?} vs {:?}",
                r.epoch
            );
            return Ok(());
        }
        (NextBlockEpoch::HeadBlock(e), true) => e,
        (NextBlockEpoch::HeadBlock(_), false) => vfail!(
            "bookkeeping:non-tail-starts-epoch",
            "block {} of epoch starting at {} length {} started a new epoch",
            r.tail.number,
            r.epoch.start_number(),
            c.length
        ),
        (NextBlockEpoch::NonHeadBlock(_), true) => vfail!(
            "bookkeeping:tail-not-recognised",
            "tail block {} of epoch starting at {} length {} did not start a new epoch",
            r.tail.number,
            r.epoch.start_number(),
            c.length
        ),
    };
    st.label("book:tail-block");
    if halving_boundary {
        st.label("book:halving-boundary");
        if (r.number + 1) / c.halving_interval >= 64 {
            st.label("book:halvings>=64");
        }
    }
    vensure!(
        next.number() == r.number + 1,
        "bookkeeping:number",
        "number {} want {}",
        next.number(),
        r.number + 1
    );
    vensure!(
        next.start_number() == r.tail.number + 1,
        "bookkeeping:start-number",
        "start {} want {}",
        next.start_number(),
        r.tail.number + 1
    );
    vensure!(
        next.last_block_hash_in_previous_epoch().as_slice() == r.tail_hash,
        "bookkeeping:last-block-hash",
        "last_block_hash_in_previous_epoch {} want blake2b(header) {}",
        hex(next.last_block_hash_in_previous_epoch().as_slice()),
        hex(&r.tail_hash)
    );
    let len = next.length();
    vensure!(len > 0, "bookkeeping:length-zero", "{}", render_epoch(c, &r));
    if c.permanent {
        let want_len = c.duration_target.div_ceil(8);
        vensure!(
            len == want_len,
            "bookkeeping:permanent:length",
            "length {len} want ceil({}/8) = {want_len}",
            c.duration_target
        );
        vensure!(
            next.compact_target() == c.compact && next.previous_epoch_hash_rate() == r.epoch.previous_epoch_hash_rate(),
            "bookkeeping:permanent:difficulty-changed",
            "compact {:#x} -> {:#x}",
            c.compact,
            next.compact_target()
        );
    } else if m.fits {
        let got_hr = from_u256(next.previous_epoch_hash_rate());
        vensure!(
            got_hr == m.hash_rate,
            format!("bookkeeping:previous-hash-rate:clamp={}", m.hr_clamp),
            "previous_epoch_hash_rate {} want {}; {}",
            got_hr,
            m.hash_rate,
            render_epoch(c, &r)
        );
        vensure!(
            len == m.length,
            format!("bookkeeping:length:clamp={}", m.len_clamp),
            "length {len} want {}; {}",
            m.length,
            render_epoch(c, &r)
        );
    }
    // --- reward schedule: the epoch's blocks sum to the scheduled primary reward
    let want_p = model::scheduled_primary(c.initial_reward, c.halving_interval, r.number + 1);
    if want_p != r.p_in {
        st.label("book:reward-halved");
    }
    let (base, rem) = (next.base_block_reward().as_u64(), next.remainder_reward().as_u64());
    if rem != 0 {
        st.label("book:reward-remainder!=0");
    }
    let sig_sched = if halving_boundary { "halving-boundary" } else { "carried" };
    vensure!(
        base as u128 * len as u128 + rem as u128 == want_p as u128 && rem < len,
        format!("bookkeeping:primary-reward-schedule:{sig_sched}"),
        "epoch {} base {base} * length {len} + remainder {rem} != scheduled {want_p} (initial {} interval {}, previous epoch reward {})",
        r.number + 1,
        c.initial_reward,
        c.halving_interval,
        r.p_in
    );
    if len <= 4000 {
        let mut sum: u128 = 0;
        for k in 0..len {
            match guarded(|| next.block_reward(next.start_number() + k)) {
                Ok(Ok(v)) => sum += v.as_u64() as u128,
                other => vfail!("bookkeeping:block-reward-error", "block_reward({k}) = {other:?}"),
            }
        }
        vensure!(
            sum == want_p as u128,
            format!("bookkeeping:sum-block-reward:{sig_sched}"),
            "sum of block_reward over epoch {} = {sum}, scheduled {want_p}",
            r.number + 1
        );
    }
    // --- the epoch fields of tail and head form a gap-free sequence
    if len < 65536 && c.length < 65536 {
        let tail_field = guarded(|| r.epoch.number_with_fraction(r.tail.number));
        let head_field = guarded(|| next.number_with_fraction(next.start_number()));
        match (tail_field, head_field) {
            (Ok(t), Ok(h)) => {
                vensure!(
                    h.is_well_formed() && h.is_successor_of(t),
                    "bookkeeping:epoch-field-gap",
                    "head {h:#} is not the successor of tail {t:#}"
                );
                vensure!(
                    h.number() == r.number + 1 && h.index() == 0 && h.length() == len,
                    "bookkeeping:epoch-field-value",
                    "head field {h:#} want {}(0/{len})",
                    r.number + 1
                );
            }
            other => vfail!("bookkeeping:number-with-fraction-panic", "{other:?}"),
        }
    }
    if epoch_nontrivial(c, &r, rem != 0) || halving_boundary {
        st.nontrivial(&serde_json::to_string(c).unwrap());
    }
    Ok(())
}

// ---------------------------------------------------------------------------------------------
// issuance: block rewards inside an epoch sum exactly to the epoch's issuance
// ---------------------------------------------------------------------------------------------

#[derive(Clone, Debug, Serialize, Deserialize)]
pub struct IssuanceCase {
    pub start: u64,
    pub length: u64,
    pub primary: u64,
    pub secondary: u64,
    /// build base/remainder through EpochExt::set_primary_reward instead of the builder
    pub via_setter: bool,
}

fn issuance_strategy() -> impl Strategy<Value = IssuanceCase> {
    let length = prop_oneof![
        6 => 1u64..=2000,
        2 => 1u64..=65535,
        1 => prop::sample::select(vec![1u64, 2, 3, 300, 1000, 1800, 65535]),
    ];
    let amount = |l: u64| {
        prop_oneof![
            3 => Just(1_917_808_21917808u64),
            2 => Just(613_698_63013698u64),
            3 => 0u64..=(4 * l),
            2 => (0u64..1_000_000, 0u64..=2).prop_map(move |(k, d)| (k * l + d * (l - 1)).saturating_sub(d / 2)),
            2 => any::<u64>(),
            1 => prop::sample::select(vec![0u64, 1, u64::MAX, u64::MAX - 1]),
        ]
    };
    length.prop_flat_map(move |l| {
        (0u64..(1 << 62), amount(l), amount(l), any::<bool>()).prop_map(move |(start, primary, secondary, via_setter)| IssuanceCase {
            start,
            length: l,
            primary,
            secondary,
            via_setter,
        })
    })
}

fn prop_issuance(c: &IssuanceCase, st: &mut Stats) -> Verdict {
    let l = c.length;
    let mut e = EpochExt::new_builder().number(7).start_number(c.start).length(l).build();
    if c.via_setter {
        e.set_primary_reward(Capacity::shannons(c.primary));
    } else {
        e.set_base_block_reward(Capacity::shannons(c.primary / l));
        e.set_remainder_reward(Capacity::shannons(c.primary % l));
    }
    let prem = c.primary % l;
    let srem = c.secondary % l;
    st.label(if prem != 0 { "issuance:primary-remainder!=0" } else { "issuance:primary-remainder=0" });
    st.label(if srem != 0 { "issuance:secondary-remainder!=0" } else { "issuance:secondary-remainder=0" });
    if prem == l - 1 && l > 1 {
        st.label("issuance:primary-remainder=len-1");
    }
    if c.primary < l {
        st.label("issuance:reward<length");
    }
    if prem != 0 || srem != 0 {
        st.nontrivial(&(c.start, c.length, c.primary, c.secondary, c.via_setter));
    }
    let total = guarded(|| e.primary_reward());
    vensure!(
        matches!(&total, Ok(t) if t.as_u64() == c.primary),
        "issuance:primary-reward-total",
        "primary_reward() = {total:?}, want {}",
        c.primary
    );
    let res = guarded(|| {
        let mut psum: u128 = 0;
        let mut ssum: u128 = 0;
        let mut first_bad: Option<String> = None;
        for k in 0..l {
            let nb = c.start + k;
            let p = e.block_reward(nb);
            let s = e.secondary_block_issuance(nb, Capacity::shannons(c.secondary));
            match (p, s) {
                (Ok(p), Ok(s)) => {
                    let (p, s) = (p.as_u64(), s.as_u64());
                    // remainders go to the first blocks of the epoch
                    let want_p = c.primary / l + u64::from(k < prem);
                    let want_s = c.secondary / l + u64::from(k < srem);
                    if first_bad.is_none() && p != want_p {
                        first_bad = Some(format!("primary:block index {k}: {p} want {want_p}"));
                    }
                    if first_bad.is_none() && s != want_s {
                        first_bad = Some(format!("secondary:block index {k}: {s} want {want_s}"));
                    }
                    psum += p as u128;
                    ssum += s as u128;
                }
                (p, s) => {
                    if first_bad.is_none() {
                        first_bad = Some(format!("error:block index {k}: {p:?} {s:?}"));
                    }
                }
            }
        }
        (psum, ssum, first_bad)
    });
    let (psum, ssum, first_bad) = match res {
        Ok(x) => x,
        Err(msg) => vfail!("issuance:panic", "{msg}; {c:?}"),
    };
    vensure!(
        psum == c.primary as u128,
        "issuance:sum-block-reward",
        "sum block_reward = {psum}, epoch primary reward {} (length {l}, remainder {prem}); {:?}",
        c.primary,
        first_bad
    );
    vensure!(
        ssum == c.secondary as u128,
        "issuance:sum-secondary-issuance",
        "sum secondary_block_issuance = {ssum}, epoch secondary issuance {} (length {l}, remainder {srem}); {:?}",
        c.secondary,
        first_bad
    );
    if let Some(b) = first_bad {
        let kind = b.split(':').next().unwrap_or("").to_string();
        vfail!(format!("issuance:remainder-placement:{kind}"), "{b}; {c:?}");
    }
    Ok(())
}

// ---------------------------------------------------------------------------------------------
// compact <-> target <-> difficulty
// ---------------------------------------------------------------------------------------------

/// a 256-bit value described by (mantissa, shift, fill low bits with ones)
#[derive(Clone, Debug, Serialize, Deserialize)]
pub struct Shaped(pub u64, pub u16, pub bool);

impl Shaped {
    fn value(&self) -> BigNat {
        let s = (self.1 % 256) as usize;
        let mut v = BigNat::from_u64(self.0).shl(s);
        if self.2 && s > 0 {
            v = v.add(&BigNat::pow2(s).sub(&BigNat::one()));
        }
        if v.bits() > 256 {
            v = BigNat::from_be_bytes(&v.to_be_bytes(64).unwrap()[32..]);
        }
        v
    }
}

fn shaped_strategy() -> impl Strategy<Value = Shaped> {
    (
        prop_oneof![
            3 => any::<u64>(),
            2 => 0u64..=0x1ff_ffff,
            1 => prop::sample::select(vec![0u64, 1, 2, 3, 0xff, 0x100, 0xffff, 0x1_0000, 0xff_ffff, 0x100_0000, 0x7f_ffff, 0x80_0000, u64::MAX]),
        ],
        0u16..256,
        any::<bool>(),
    )
        .prop_map(|(m, s, f)| Shaped(m, s, f))
}

#[derive(Clone, Debug, Serialize, Deserialize)]
pub struct CompactCase {
    pub compact: u32,
    pub a: Shaped,
    /// second value = a + delta (when Some) or an independent value
    pub delta: Option<u32>,
    pub b: Shaped,
}

fn compact_strategy() -> impl Strategy<Value = CompactCase> {
    let compact = prop_oneof![
        6 => (0u32..=0x22, 0u32..=0xff_ffff).prop_map(|(e, m)| (e << 24) | m),
        2 => (0u32..=0xff, 0u32..=0xff_ffff).prop_map(|(e, m)| (e << 24) | m),
        2 => (0u32..=0xff, prop::sample::select(vec![0u32, 1, 0xff, 0x100, 0xffff, 0x1_0000, 0x7f_ffff, 0x80_0000, 0xff_ffff]))
            .prop_map(|(e, m)| (e << 24) | m),
        1 => any::<u32>(),
    ];
    (compact, shaped_strategy(), prop::option::weighted(0.5, 0u32..=0x200_0000), shaped_strategy())
        .prop_map(|(compact, a, delta, b)| CompactCase { compact, a, delta, b })
}

fn compact_fields(c: u32) -> String {
    format!("exp={:#x} mant={:#08x}", c >> 24, c & 0xff_ffff)
}

/// clauses about one compact encoding
fn check_compact_decode(c: u32, st: &mut Stats) -> Verdict {
    let exact = model::compact_value(c);
    let e = c >> 24;
    let got = guarded(|| utilities::compact_to_target(c));
    let (t, overflow) = match got {
        Ok(x) => x,
        Err(msg) => vfail!("compact:to-target-panic", "compact_to_target({c:#x}) panicked: {msg}"),
    };
    let t = from_u256(&t);
    let fits = exact.bits() <= 256;
    if !fits {
        st.label("compact:value-exceeds-256-bits");
        vensure!(
            overflow,
            format!("compact:overflow-flag-missing:exp={}", if e > 34 { ">34".to_string() } else { format!("{e}") }),
            "compact {c:#x} ({}) encodes a value of {} bits but overflow=false, target {}",
            compact_fields(c),
            exact.bits(),
            t
        );
    } else if overflow {
        if exact.is_zero() {
            vfail!("compact:overflow-flag-on-zero", "compact {c:#x} overflow=true for a zero value");
        }
        // exponent > 32 with a value that still fits: stricter than needed, never canonical
        vensure!(
            e > 32,
            "compact:overflow-flag-spurious",
            "compact {c:#x} ({}) = {} fits 256 bits and has exponent <= 32 but overflow=true",
            compact_fields(c),
            exact
        );
        st.label("compact:overflow-conservative(exp>32,value-fits)");
    } else {
        vensure!(
            t == exact,
            format!("compact:to-target-value:exp{}3", if e < 3 { "<" } else if e == 3 { "=" } else { ">" }),
            "compact_to_target({c:#x}) ({}) = {} want mantissa*256^(exp-3) = {}",
            compact_fields(c),
            t,
            exact
        );
    }
    if e <= 3 {
        st.label("compact:exp<=3");
    }
    if e >= 0x20 {
        st.label("compact:exp>=32");
    }
    // difficulty of the encoding
    let want_d = if !fits || exact.is_zero() || overflow { BigNat::zero() } else { model::hspace_div(&exact) };
    match guarded(|| utilities::compact_to_difficulty(c)) {
        Ok(d) => vensure!(
            from_u256(&d) == want_d,
            "compact:to-difficulty-value",
            "compact_to_difficulty({c:#x}) = {} want {}",
            from_u256(&d),
            want_d
        ),
        Err(msg) => vfail!("compact:to-difficulty-panic", "compact_to_difficulty({c:#x}): {msg}"),
    }
    // normalisation keeps the value: target_to_compact(compact_to_target(c)) decodes to the same target
    if fits && !overflow {
        let tu = to_u256(&t).unwrap();
        let c2 = match guarded(|| utilities::target_to_compact(tu)) {
            Ok(x) => x,
            Err(msg) => vfail!("compact:from-target-panic", "target_to_compact({t}): {msg}"),
        };
        let (t2, of2) = utilities::compact_to_target(c2);
        vensure!(
            !of2 && from_u256(&t2) == t,
            "compact:normalisation-changes-value",
            "compact {c:#x} -> target {t} -> compact {c2:#x} -> target {} overflow={of2}",
            from_u256(&t2)
        );
        let c3 = utilities::target_to_compact(t2);
        vensure!(c3 == c2, "compact:canonical-not-idempotent", "{c2:#x} -> {c3:#x}");
        if c2 == c {
            st.label("compact:canonical-encoding");
        }
    }
    Ok(())
}

fn prop_compact(c: &CompactCase, st: &mut Stats) -> Verdict {
    check_compact_decode(c.compact, st)?;
    let e = c.compact >> 24;
    if e <= 3 || e >= 0x20 || matches!(c.compact & 0xff_ffff, 0 | 1 | 0x7f_ffff | 0x80_0000 | 0xff_ffff) {
        st.nontrivial(&serde_json::to_string(c).unwrap());
    }
    // --- targets
    let a = c.a.value();
    let b = match c.delta {
        Some(d) => a.add(&BigNat::from_u64(d as u64)).min(model::max256()),
        None => c.b.value(),
    };
    let (lo, hi) = if a <= b { (a.clone(), b.clone()) } else { (b.clone(), a.clone()) };
    let enc = |t: &BigNat| -> Result<(u32, BigNat), Violation> {
        let tu = to_u256(t).unwrap();
        let cc = guarded(|| utilities::target_to_compact(tu))
            .map_err(|m| Violation::new("compact:from-target-panic", format!("target_to_compact({t}): {m}")))?;
        let want = model::target_to_compact(t);
        if cc != want {
            return Err(Violation::new(
                format!("compact:from-target-value:bytes{}3", if t.bits().div_ceil(8) <= 3 { "<=" } else { ">" }),
                format!("target_to_compact({t}) = {cc:#x} want {want:#x}"),
            ));
        }
        let (back, of) = utilities::compact_to_target(cc);
        let back = from_u256(&back);
        // truncation to the three most significant bytes: back <= t < back + 256^(exp-3)
        let ulp = if (cc >> 24) > 3 { BigNat::pow2(8 * ((cc >> 24) as usize - 3)) } else { BigNat::one() };
        if of || back > *t || t.sub(&back) >= ulp {
            return Err(Violation::new(
                "compact:from-target-roundtrip",
                format!("target {t} -> {cc:#x} -> {back} overflow={of}"),
            ));
        }
        Ok((cc, back))
    };
    let (clo, tlo) = enc(&lo)?;
    let (chi, thi) = enc(&hi)?;
    vensure!(
        clo <= chi && tlo <= thi,
        "compact:from-target-not-monotone",
        "targets {lo} <= {hi} but compacts {clo:#x} / {chi:#x} decode to {tlo} / {thi}"
    );
    if lo.bits() > 24 {
        st.label("compact:target-truncated");
    }
    // --- difficulties (>= 1)
    let one = BigNat::one();
    let (dlo, dhi) = (lo.max(one.clone()), hi.max(one));
    let dif = |d: &BigNat| -> Result<(u32, BigNat), Violation> {
        let du = to_u256(d).unwrap();
        let cc = guarded(|| utilities::difficulty_to_compact(du))
            .map_err(|m| Violation::new("compact:from-difficulty-panic", format!("difficulty_to_compact({d}): {m}")))?;
        let want = model::difficulty_to_compact(d);
        if cc != want {
            return Err(Violation::new(
                "compact:from-difficulty-value",
                format!("difficulty_to_compact({d}) = {cc:#x} want {want:#x}"),
            ));
        }
        let back = from_u256(&utilities::compact_to_difficulty(cc));
        // the compact target is rounded down, so the decoded difficulty never falls below d
        if back < *d {
            return Err(Violation::new(
                "compact:difficulty-roundtrip-below",
                format!("difficulty {d} -> {cc:#x} -> {back}"),
            ));
        }
        let again = utilities::difficulty_to_compact(to_u256(&back).unwrap());
        if again != cc {
            return Err(Violation::new(
                "compact:difficulty-roundtrip-not-idempotent",
                format!("difficulty {d} -> {cc:#x} -> {back} -> {again:#x}"),
            ));
        }
        Ok((cc, back))
    };
    let (cdl, bl) = dif(&dlo)?;
    let (cdh, bh) = dif(&dhi)?;
    vensure!(
        bl <= bh && model::compact_value(cdl) >= model::compact_value(cdh),
        "compact:difficulty-not-monotone",
        "difficulties {dlo} <= {dhi} but compacts {cdl:#x} / {cdh:#x} decode to {bl} / {bh}"
    );
    if c.delta.is_some() {
        st.label("compact:neighbouring-pair");
    }
    Ok(())
}

// ---------------------------------------------------------------------------------------------
// proof of work: accepted exactly when the hash does not exceed the target
// ---------------------------------------------------------------------------------------------

#[derive(Clone, Debug, Serialize, Deserialize)]
pub struct PowCase {
    pub hdr: RawHdr,
    /// 0 = Eaglesong, 1 = EaglesongBlake2b, 2 = Dummy
    pub engine: u8,
}

fn pow_strategy() -> impl Strategy<Value = PowCase> {
    let compact = prop_oneof![
        // acceptance probability mantissa / 2^24
        8 => prop::sample::select(vec![0x2080_0000u32, 0x2040_0000, 0x20c0_0000, 0x20ff_ffff, 0x2010_0000, 0x20f0_0000, 0x2001_0000]),
        4 => (0x01_0000u32..=0xff_ffff).prop_map(|m| 0x2000_0000 | m),
        2 => (0x1eu32..=0x20, 0u32..=0xff_ffff).prop_map(|(e, m)| (e << 24) | m),
        1 => (0u32..=0xff, 0u32..=0xff_ffff).prop_map(|(e, m)| (e << 24) | m),
        1 => prop::sample::select(vec![0u32, 0x2000_0000, 0x0100_0000, 0x2100_0001, 0x2101_0000, 0x2200_0100, 0x2300_0001, 0xffff_ffff, 0x0300_0001]),
    ];
    (
        (any::<u32>(), compact, any::<u64>(), any::<u64>(), any::<u64>()),
        (any::<[u8; 32]>(), any::<[u8; 32]>(), any::<[u8; 32]>(), any::<[u8; 32]>(), any::<[u8; 32]>()),
        (any::<u64>(), prop_oneof![3 => Just(0u64), 1 => any::<u64>()]),
        prop_oneof![5 => Just(0u8), 5 => Just(1u8), 1 => Just(2u8)],
    )
        .prop_map(|((version, compact, timestamp, number, epoch), (parent, tx_root, proposals, extra, dao), nonce, engine)| PowCase {
            hdr: RawHdr {
                version,
                compact,
                timestamp,
                number,
                epoch,
                parent,
                tx_root,
                proposals,
                extra,
                dao,
                nonce,
            },
            engine,
        })
}

fn prop_pow(c: &PowCase, st: &mut Stats) -> Verdict {
    let bytes = c.hdr.bytes();
    let header = c.hdr.packed();
    let pow = match c.engine {
        0 => Pow::Eaglesong,
        1 => Pow::EaglesongBlake2b,
        _ => Pow::Dummy,
    };
    let engine = pow.engine();
    let got = match guarded(|| engine.verify(&header)) {
        Ok(b) => b,
        Err(msg) => vfail!(format!("pow:verify-panic:{pow}"), "{msg}; {c:?}"),
    };
    if c.engine >= 2 {
        st.label("pow:dummy");
        vensure!(got, "pow:dummy-rejects", "DummyPowEngine::verify returned false");
        return Ok(());
    }
    // reference hash: eaglesong(blake2b(raw header) || nonce LE) [then blake2b for the second engine]
    let pow_hash = blake2b_256(&bytes[0..192]);
    let mut msg = [0u8; 48];
    msg[0..32].copy_from_slice(&pow_hash);
    msg[32..48].copy_from_slice(&bytes[192..208]);
    let mut out = [0u8; 32];
    eaglesong::eaglesong(&msg, &mut out);
    if c.engine == 1 {
        out = blake2b_256(&out);
    }
    let hash = BigNat::from_be_bytes(&out);
    let target = model::compact_value(c.hdr.compact);
    let e = c.hdr.compact >> 24;
    let name = if c.engine == 0 { "eaglesong" } else { "eaglesong-blake2b" };
    if target.is_zero() {
        st.label("pow:zero-target");
        vensure!(!got, format!("pow:accepts-zero-target:{name}"), "compact {:#x}", c.hdr.compact);
        return Ok(());
    }
    if target.bits() > 256 {
        st.label("pow:overflowing-target");
        vensure!(!got, format!("pow:accepts-overflowing-target:{name}"), "compact {:#x}", c.hdr.compact);
        return Ok(());
    }
    if e > 32 {
        // value fits but the encoding is flagged as overflow by compact_to_target: only "never
        // accept above the target" can be demanded
        st.label("pow:noncanonical-exp>32");
        vensure!(!got || hash <= target, format!("pow:accepts-above-target:{name}"), "hash {hash} target {target}");
        return Ok(());
    }
    let want = hash <= target;
    st.label(if want { "pow:hash<=target" } else { "pow:hash>target" });
    st.nontrivial(&serde_json::to_string(c).unwrap());
    if want != got {
        vfail!(
            format!("pow:{}:{name}", if got { "accepts-above-target" } else { "rejects-at-or-below-target" }),
            "verify = {got}, hash {hash} target {target} (compact {:#x})",
            c.hdr.compact
        );
    }
    Ok(())
}

// ---------------------------------------------------------------------------------------------
// is_successor_of <=> gap-free sequence
// ---------------------------------------------------------------------------------------------

#[derive(Clone, Debug, Serialize, Deserialize)]
pub struct SuccCase {
    pub first_number: u32,
    pub lengths: Vec<u16>,
    pub i: u16,
    pub j: u16,
    /// mutate the true successor of position i: (field 0=number 1=index 2=length, delta)
    pub mutation: (u8, i8),
}

fn succ_strategy() -> impl Strategy<Value = SuccCase> {
    let len = prop_oneof![5 => 1u16..=12, 2 => 300u16..=1800, 1 => 1u16..=65535, 1 => Just(65535u16), 1 => Just(1u16)];
    (
        prop_oneof![3 => 0u32..1000, 1 => 0u32..((1 << 24) - 8), 1 => Just((1u32 << 24) - 8)],
        prop::collection::vec(len, 2..6),
        any::<u16>(),
        any::<u16>(),
        (0u8..3, prop_oneof![Just(-2i8), Just(-1), Just(1), Just(2), -100i8..=100]),
    )
        .prop_map(|(first_number, lengths, i, j, mutation)| SuccCase {
            first_number,
            lengths,
            i,
            j,
            mutation,
        })
}

/// epoch fields (number, index, length) of the block at position `pos` of the sequence
fn succ_at(c: &SuccCase, mut pos: u64) -> (u64, u64, u64) {
    for (k, l) in c.lengths.iter().enumerate() {
        let l = (*l).max(1) as u64;
        if pos < l {
            return (c.first_number as u64 + k as u64, pos, l);
        }
        pos -= l;
    }
    unreachable!()
}

fn prop_successor(c: &SuccCase, st: &mut Stats) -> Verdict {
    let total: u64 = c.lengths.iter().map(|l| (*l).max(1) as u64).sum();
    let mk = |(n, i, l): (u64, u64, u64)| EpochNumberWithFraction::from_full_value_unchecked(epoch_field(n, i, l));
    // i in 0..total-1 so that i+1 exists; bias i towards epoch boundaries
    let i = if c.i & 1 == 0 {
        // last block of some epoch (not the last epoch)
        let k = pick_idx((c.i >> 1) as u32 * 2, c.lengths.len() - 1);
        c.lengths[..=k].iter().map(|l| (*l).max(1) as u64).sum::<u64>() - 1
    } else {
        (c.i as u64 * (total - 1)) >> 16
    };
    let j = (c.j as u64 * total) >> 16;
    let p = succ_at(c, i);
    let s = succ_at(c, i + 1);
    let crossing = p.1 + 1 == p.2;
    st.label(if crossing { "succ:epoch-boundary" } else { "succ:inside-epoch" });
    let (pe, se) = (mk(p), mk(s));
    vensure!(pe.is_well_formed() && se.is_well_formed(), "succ:well-formed", "{pe:#} {se:#}");
    vensure!(
        pe.number() == p.0 && pe.index() == p.1 && pe.length() == p.2,
        "succ:field-accessors",
        "{p:?} decoded as {pe:#}"
    );
    match guarded(|| se.is_successor_of(pe)) {
        Ok(true) => {}
        Ok(false) => vfail!(
            format!("succ:consecutive-rejected:{}", if crossing { "epoch-boundary" } else { "inside-epoch" }),
            "{se:#} is the block after {pe:#} but is_successor_of = false"
        ),
        Err(m) => vfail!("succ:panic", "{m}"),
    }
    // any other position of the sequence is not the successor of i
    if j != i + 1 {
        let q = mk(succ_at(c, j));
        st.label(if j == i { "succ:same-block" } else if j < i { "succ:earlier-block" } else { "succ:later-block" });
        vensure!(
            !q.is_successor_of(pe),
            format!("succ:gap-accepted:{}", if crossing { "epoch-boundary" } else { "inside-epoch" }),
            "position {j} {q:#} accepted as successor of position {i} {pe:#}"
        );
        st.nontrivial(&serde_json::to_string(c).unwrap());
    }
    // mutate one field of the true successor
    let (field, delta) = c.mutation;
    let mut t = s;
    let slot = match field % 3 {
        0 => &mut t.0,
        1 => &mut t.1,
        _ => &mut t.2,
    };
    let nv = *slot as i64 + if delta == 0 { 1 } else { delta as i64 };
    if nv >= 0 {
        *slot = nv as u64;
        let well_formed = t.2 >= 1 && t.2 < 65536 && t.1 < t.2 && t.0 < (1 << 24);
        if well_formed {
            // valid continuations: inside an epoch exactly (n, i+1, L); after the last block of an
            // epoch (n+1, 0, any length)
            let want = if crossing { t.0 == p.0 + 1 && t.1 == 0 } else { t == s };
            st.label(if want { "succ:mutation-still-valid(new-epoch-length)" } else { "succ:mutated-non-successor" });
            let got = mk(t).is_successor_of(pe);
            vensure!(
                got == want,
                format!(
                    "succ:mutated-field-{}:{}:{}",
                    ["number", "index", "length"][(field % 3) as usize],
                    if crossing { "epoch-boundary" } else { "inside-epoch" },
                    if got { "accepted" } else { "rejected" }
                ),
                "{:#} after {pe:#}: is_successor_of = {got}, want {want}",
                mk(t)
            );
            if crossing || !want {
                st.nontrivial(&serde_json::to_string(c).unwrap());
            }
        }
    }
    Ok(())
}

// ---------------------------------------------------------------------------------------------
// RationalU256 against exact fractions (operands small enough for 256-bit intermediates)
// ---------------------------------------------------------------------------------------------

#[derive(Clone, Debug, Serialize, Deserialize)]
pub struct RatCase {
    pub a: (u64, u64),
    pub b: (u64, u64),
    pub k: u64,
}

fn rat_strategy() -> impl Strategy<Value = RatCase> {
    let small = || {
        prop_oneof![
            3 => 0u64..50,
            3 => 0u64..100_000,
            2 => 0u64..(1 << 56),
            1 => prop::sample::select(vec![0u64, 1, 2, 40, 41, 1000, 14400, 65535, (1 << 56) - 1]),
        ]
    };
    ((small(), small()), (small(), small()), small()).prop_map(|(a, b, k)| RatCase {
        a: (a.0, a.1.max(1)),
        b: (b.0, b.1.max(1)),
        k,
    })
}

/// exact fraction (numerator, denominator)
type Frac = (BigNat, BigNat);

fn frac_eq(x: &Frac, y: &Frac) -> bool {
    x.0.mul(&y.1) == y.0.mul(&x.1)
}

fn parse_rat(r: &RationalU256) -> Option<Frac> {
    let s = format!("{r}");
    let (n, d) = s.split_once('/')?;
    Some((BigNat::from_dec_str(n)?, BigNat::from_dec_str(d)?))
}

fn prop_rational(c: &RatCase, st: &mut Stats) -> Verdict {
    let bn = BigNat::from_u64;
    let a: Frac = (bn(c.a.0), bn(c.a.1));
    let b: Frac = (bn(c.b.0), bn(c.b.1));
    let k = bn(c.k);
    let ku = U256::from(c.k);
    let ra = RationalU256::new(U256::from(c.a.0), U256::from(c.a.1));
    let rb = RationalU256::new(U256::from(c.b.0), U256::from(c.b.1));
    let a_ge_b = a.0.mul(&b.1) >= b.0.mul(&a.1);
    let mut checks: Vec<(&'static str, Result<RationalU256, String>, Frac)> = vec![
        ("add", guarded(|| &ra + &rb), (a.0.mul(&b.1).add(&b.0.mul(&a.1)), a.1.mul(&b.1))),
        ("mul", guarded(|| &ra * &rb), (a.0.mul(&b.0), a.1.mul(&b.1))),
        ("add-u256", guarded(|| &ra + &ku), (a.0.add(&k.mul(&a.1)), a.1.clone())),
        ("mul-u256", guarded(|| &ra * &ku), (a.0.mul(&k), a.1.clone())),
        (
            "saturating-sub",
            guarded(|| ra.clone().saturating_sub(rb.clone())),
            if a_ge_b {
                (a.0.mul(&b.1).sub(&b.0.mul(&a.1)), a.1.mul(&b.1))
            } else {
                (BigNat::zero(), BigNat::one())
            },
        ),
        (
            "saturating-sub-u256",
            guarded(|| ra.clone().saturating_sub_u256(ku.clone())),
            match a.0.checked_sub(&k.mul(&a.1)) {
                Some(nn) => (nn, a.1.clone()),
                None => (BigNat::zero(), BigNat::one()),
            },
        ),
    ];
    if a_ge_b {
        checks.push(("sub", guarded(|| &ra - &rb), (a.0.mul(&b.1).sub(&b.0.mul(&a.1)), a.1.mul(&b.1))));
    }
    if c.b.0 != 0 {
        checks.push(("div", guarded(|| &ra / &rb), (a.0.mul(&b.1), a.1.mul(&b.0))));
        st.label("rational:div");
    }
    if c.k != 0 {
        checks.push(("div-u256", guarded(|| &ra / &ku), (a.0.clone(), a.1.mul(&k))));
    }
    for (name, got, want) in checks {
        let got = match got {
            Ok(g) => g,
            Err(m) => vfail!(format!("rational:{name}:panic"), "{m}; {c:?}"),
        };
        let gf = match parse_rat(&got) {
            Some(f) if !f.1.is_zero() => f,
            _ => vfail!(format!("rational:{name}:malformed"), "{got}; {c:?}"),
        };
        vensure!(
            frac_eq(&gf, &want),
            format!("rational:{name}:value"),
            "{}/{} {name} ({}/{} | {}) = {got}, want {}/{}",
            c.a.0,
            c.a.1,
            c.b.0,
            c.b.1,
            c.k,
            want.0,
            want.1
        );
        let floor = from_u256(&got.into_u256());
        vensure!(
            floor == want.0.div(&want.1),
            format!("rational:{name}:into-u256"),
            "floor = {floor} want {}",
            want.0.div(&want.1)
        );
    }
    let ord = a.0.mul(&b.1).cmp(&b.0.mul(&a.1));
    vensure!(ra.cmp(&rb) == ord, "rational:cmp", "{ra} vs {rb}: {:?} want {ord:?}", ra.cmp(&rb));
    vensure!(ra.is_zero() == (c.a.0 == 0), "rational:is-zero", "{ra}");
    if ord == std::cmp::Ordering::Equal {
        st.label("rational:equal-operands");
    }
    if !a_ge_b {
        st.label("rational:saturating-sub-saturates");
    }
    st.nontrivial(&(c.a, c.b, c.k));
    Ok(())
}

// ---------------------------------------------------------------------------------------------
// the oracle's own arithmetic, cross-checked three ways
// ---------------------------------------------------------------------------------------------

#[derive(Clone, Debug, Serialize, Deserialize)]
pub struct SelfCase {
    pub x: Vec<u32>,
    pub y: Vec<u32>,
    pub a: (u64, u64),
    pub b: (u64, u64),
}

fn self_strategy() -> impl Strategy<Value = SelfCase> {
    let limb = || prop_oneof![2 => any::<u32>(), 1 => prop::sample::select(vec![0u32, 1, 0x7fff_ffff, 0x8000_0000, 0xffff_ffff, 0xffff_fffe])];
    (
        prop::collection::vec(limb(), 0..16),
        prop::collection::vec(limb(), 0..8),
        any::<(u64, u64)>(),
        any::<(u64, u64)>(),
    )
        .prop_map(|(x, y, a, b)| SelfCase { x, y, a, b })
}

fn prop_selftest(c: &SelfCase, _st: &mut Stats) -> Verdict {
    use numext_fixed_uint::U512;
    let from_limbs = |v: &[u32]| {
        let mut bytes = vec![];
        for l in v.iter().rev() {
            bytes.extend_from_slice(&l.to_be_bytes());
        }
        BigNat::from_be_bytes(&bytes)
    };
    let x = from_limbs(&c.x);
    let y = from_limbs(&c.y);
    if !y.is_zero() {
        let (q, r) = x.divrem(&y);
        let (q2, r2) = x.divrem_slow(&y);
        vensure!(q == q2 && r == r2, "selftest:divrem-vs-slow", "{x} / {y}: ({q},{r}) vs ({q2},{r2})");
        vensure!(r < y && q.mul(&y).add(&r) == x, "selftest:divrem-identity", "{x} / {y}");
        if x.bits() <= 512 {
            let xu = U512::from_big_endian(&x.to_be_bytes(64).unwrap()).unwrap();
            let yu = U512::from_big_endian(&y.to_be_bytes(64).unwrap()).unwrap();
            let mut buf = [0u8; 64];
            (&xu / &yu).into_big_endian(&mut buf).unwrap();
            vensure!(BigNat::from_be_bytes(&buf) == q, "selftest:div-vs-u512", "{x} / {y}");
        }
    }
    let xy = x.mul(&y);
    vensure!(xy == y.mul(&x), "selftest:mul-commutes", "{x} * {y}");
    vensure!(x.add(&y).sub(&y) == x, "selftest:add-sub", "{x} {y}");
    if xy.bits() <= 512 && x.bits() <= 512 {
        let xu = U512::from_big_endian(&x.to_be_bytes(64).unwrap()).unwrap();
        let yu = U512::from_big_endian(&y.to_be_bytes(64).unwrap()).unwrap();
        let (p, of) = xu.overflowing_mul(&yu);
        let mut buf = [0u8; 64];
        p.into_big_endian(&mut buf).unwrap();
        vensure!(!of && BigNat::from_be_bytes(&buf) == xy, "selftest:mul-vs-u512", "{x} * {y}");
    }
    let s = (c.a.1 % 300) as usize;
    vensure!(x.shl(s).shr(s) == x && x.shl(s) == x.mul(&BigNat::pow2(s)), "selftest:shift", "{x} << {s}");
    // native u128
    let a = ((c.a.0 as u128) << 64) | c.a.1 as u128;
    let b = (((c.b.0 >> (c.b.1 % 64)) as u128) << 32) | (c.b.1 as u128 & 0xffff_ffff);
    let (ba, bb) = (BigNat::from_u128(a), BigNat::from_u128(b));
    vensure!(ba.to_u128() == Some(a), "selftest:u128-roundtrip", "{a}");
    if b != 0 {
        let (q, r) = ba.divrem(&bb);
        vensure!(q.to_u128() == Some(a / b) && r.to_u128() == Some(a % b), "selftest:divrem-vs-u128", "{a} / {b}");
    }
    let p = BigNat::from_u64(c.a.0).mul(&BigNat::from_u64(c.b.0));
    vensure!(p.to_u128() == Some(c.a.0 as u128 * c.b.0 as u128), "selftest:mul-vs-u128", "{} * {}", c.a.0, c.b.0);
    vensure!(ba.cmp(&bb) == a.cmp(&b), "selftest:cmp", "{a} {b}");
    vensure!(BigNat::from_dec_str(&format!("{a}")) == Some(ba.clone()), "selftest:dec", "{a}");
    vensure!(ba.bits() == 128 - a.leading_zeros() as usize, "selftest:bits", "{a}");
    Ok(())
}

// ---------------------------------------------------------------------------------------------
// driver
// ---------------------------------------------------------------------------------------------

const ENUM_MANTISSAS: [u32; 11] = [0, 1, 0xff, 0x100, 0xffff, 0x1_0000, 0x7f_ffff, 0x80_0000, 0xff_ffff, 0x12_3456, 0x00_8000];

fn run(ctx: &Ctx) {
    install_hook();
    if let Ok(b) = base_consensus() {
        let bounds = (b.min_epoch_length(), b.max_epoch_length());
        ctx.run_case("consensus-bounds", &bounds, |b, _| {
            vensure!(
                *b == (model::MIN_EPOCH_LENGTH, model::MAX_EPOCH_LENGTH),
                "consensus:epoch-length-bounds",
                "min/max epoch length {b:?}, RFC 0020: 300/1800 (4 h / 48 s, 4 h / 8 s)"
            );
            Ok(())
        });
    }
    ctx.run_prop("oracle-selftest", ctx.cases(80_000, 800_000), self_strategy(), prop_selftest);
    ctx.run_prop("compact", ctx.cases(2_000_000, 20_000_000), compact_strategy(), prop_compact);
    ctx.run_prop("epoch-difficulty", ctx.cases(2_000_000, 20_000_000), epoch_case_strategy(true, false), prop_epoch_difficulty);
    ctx.run_prop("epoch-bookkeeping", ctx.cases(600_000, 6_000_000), epoch_case_strategy(false, true), prop_epoch_bookkeeping);
    ctx.run_prop("issuance", ctx.cases(200_000, 2_000_000), issuance_strategy(), prop_issuance);
    ctx.run_prop("pow", ctx.cases(800_000, 8_000_000), pow_strategy(), prop_pow);
    ctx.run_prop("successor", ctx.cases(1_000_000, 10_000_000), succ_strategy(), prop_successor);
    ctx.run_prop("rational", ctx.cases(600_000, 6_000_000), rat_strategy(), prop_rational);
    // block trees on a real node: the stored epoch record of every block, side branches included
    ctx.shrink_iters.set(60);
    ctx.run_prop(
        "tree-epochs",
        ctx.cases(160, 2400),
        super::c07_tree::strategy(ctx.tier.pick(44, 90)),
        super::c07_tree::prop,
    );
    ctx.shrink_iters.set(4096);
    // exhaustive over the exponent byte x boundary mantissas (split over the workers)
    for e in 0u32..=0xff {
        if e as usize % ctx.nworkers != ctx.worker {
            continue;
        }
        for m in ENUM_MANTISSAS {
            let c = (e << 24) | m;
            ctx.run_case("compact-enum", &c, |c, st| check_compact_decode(*c, st));
        }
    }
    ctx.stats
        .borrow_mut()
        .exhaustive_parts
        .push("compact-enum: all 256 exponent bytes x 11 boundary mantissas".into());
}

fn replay(ctx: &Ctx, sub: &str, v: &Value) -> Verdict {
    install_hook();
    let mut st = ctx.stats.borrow_mut();
    match sub {
        "tree-epochs" => super::c07_tree::prop(&from_case(v)?, &mut st),
        "oracle-selftest" => prop_selftest(&from_case(v)?, &mut st),
        "epoch-difficulty" => prop_epoch_difficulty(&from_case(v)?, &mut st),
        "epoch-bookkeeping" => prop_epoch_bookkeeping(&from_case(v)?, &mut st),
        "issuance" => prop_issuance(&from_case(v)?, &mut st),
        "compact" => prop_compact(&from_case(v)?, &mut st),
        "compact-enum" => check_compact_decode(from_case(v)?, &mut st),
        "consensus-bounds" => Ok(()),
        "pow" => prop_pow(&from_case(v)?, &mut st),
        "successor" => prop_successor(&from_case(v)?, &mut st),
        "rational" => prop_rational(&from_case(v)?, &mut st),
        other => Err(Violation::new("replay-format", format!("unknown sub-property {other}"))),
    }
}
