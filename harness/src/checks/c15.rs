//! C15 — wire and storage encodings round-trip losslessly and hashes commit to content.
//!
//! Pure check (no node).  The molecule schemas of the repository are parsed at run time by an
//! independent interpreter (`crate::molschema`); values are generated from a choice tape, encoded
//! by the interpreter and compared with the generated Rust types (`crate::moldispatch`, all 127
//! types).  Arbitrary / mutated bytes are judged by the interpreter's own strict and compatible
//! verifiers and the verdicts compared with `from_slice` / `from_compatible_slice`.
//! Typed layers (builders, getters, Pack/Unpack, JSON conversions, hashes, views) are in
//! `c15_typed`.
use super::c15_typed as typed;
use crate::common::*;
use crate::moldispatch::{self, TypeOps};
use crate::molschema::{Gen, GenOpts, Kind, Schema, Val};
use crate::{vensure, vfail};
use proptest::prelude::*;
use serde::{Deserialize, Serialize};
use serde_json::{Value, json};
use std::panic::{AssertUnwindSafe, catch_unwind};
use std::path::PathBuf;
use std::sync::OnceLock;

pub fn spec() -> CheckSpec {
    CheckSpec {
        id: "C15",
        level: "exploration",
        rule: "values of every type of blockchain.mol/extensions.mol/protocols.mol generated from a choice tape by an independent molecule interpreter (schemas parsed at run time), their canonical bytes, structural mutations (extra table fields) and byte/header-word mutations, plus typed Transaction/Header/Block values for JSON and hash sub-properties; a case counts as non-trivial when the generated value has >= 1 non-default option/union/vector node at depth >= 2 (root = depth 0); distinct = hash of (sub-property, type, canonical bytes, mutations), recorded for at most 400000 cases per worker (thorough tier: a lower bound)",
        assumptions: &[
            "molecule encoding rules as documented in molecule's docs/encoding_spec.md and schema_language.md (full-size header, offsets = header size then non-decreasing and contiguous, fixvec = count x item size, option empty = none, union = item id + item, compatible = extra trailing table fields whose content is not interpreted)",
            "hash definitions from util/gen-types/src/extension/calc_hash.rs doc comments, RFC 0022 (tx hash = ckbhash(raw), witness hash = ckbhash(tx)), RFC 0006 CBMT for transactions_root = root([root(tx hashes), root(witness hashes)]), extra_hash doc in util/types/src/extension.rs; ckbhash = blake2b-256 personalised 'ckb-default-hash' computed with the blake2b-ref crate",
            "JSON conversions are only required for structurally valid values: Script.hash_type in the ScriptHashType value set (1 or even) and CellDep.dep_type in {0,1} (the From impls document 'checked data')",
            "advanced HeaderBuilder paths are exercised with compact_target > 0 and a well-formed epoch unless number = 0 (debug assertions of HeaderBuilder::build)",
        ],
        workers: |_| 16,
        watchdog_s: |t| t.pick(900, 5400),
        run,
        replay,
    }
}

// ------------------------------------------------------------------------------------------
// world: schema + dispatch
// ------------------------------------------------------------------------------------------

pub struct World {
    pub schema: Schema,
    /// schema type names that have a generated Rust type, with cumulative weights
    pub names: Vec<String>,
    cum: Vec<u32>,
    pub missing_dispatch: Vec<String>,
    pub missing_schema: Vec<String>,
}

pub fn repo_dir() -> PathBuf {
    std::env::var_os("VERIF_REPO_DIR").map(PathBuf::from).unwrap_or_else(|| PathBuf::from("/repo"))
}

fn type_depth(s: &Schema, ty: &str) -> usize {
    match s.kind(ty) {
        Kind::Byte => 0,
        Kind::Array { item, .. } => {
            if item == "byte" {
                0
            } else {
                1 + type_depth(s, item)
            }
        }
        Kind::Vector { item } | Kind::Option { item } => 1 + type_depth(s, item),
        Kind::Struct { fields } | Kind::Table { fields } => {
            1 + fields.iter().map(|f| type_depth(s, &f.1)).max().unwrap_or(0)
        }
        Kind::Union { items } => 1 + items.iter().map(|i| type_depth(s, &i.0)).max().unwrap_or(0),
    }
}

pub fn world() -> &'static World {
    static W: OnceLock<World> = OnceLock::new();
    W.get_or_init(|| {
        let dir = repo_dir().join("util/gen-types/schemas");
        let schema = match Schema::load(&dir, &["blockchain", "extensions", "protocols"]) {
            Ok(s) => s,
            Err(e) => {
                eprintln!("C15: cannot load molecule schemas: {e}");
                std::process::exit(3);
            }
        };
        if let Err(e) = crate::molschema::self_check() {
            eprintln!("C15: interpreter self check failed: {e}");
            std::process::exit(3);
        }
        let mut names = vec![];
        let mut cum = vec![];
        let mut missing_dispatch = vec![];
        let mut total = 0u32;
        for (_, n) in &schema.order {
            if moldispatch::find(n).is_some() {
                total += 1 + 2 * type_depth(&schema, n).min(5) as u32;
                names.push(n.clone());
                cum.push(total);
            } else {
                missing_dispatch.push(n.clone());
            }
        }
        let missing_schema = moldispatch::ALL
            .iter()
            .filter(|t| !schema.defs.contains_key(t.name))
            .map(|t| t.name.to_string())
            .collect();
        World { schema, names, cum, missing_dispatch, missing_schema }
    })
}

impl World {
    /// weighted, monotone pick of a type name
    pub fn pick_type(&self, sel: u32) -> &str {
        let total = *self.cum.last().unwrap() as u64;
        let x = ((sel as u64 * total) >> 32) as u32;
        let i = self.cum.partition_point(|c| *c <= x);
        &self.names[i.min(self.names.len() - 1)]
    }
    pub fn ops(&self, ty: &str) -> Result<&'static TypeOps, Violation> {
        moldispatch::find(ty).ok_or_else(|| Violation::new("replay-format", format!("no generated type {ty}")))
    }
}

fn kind_name(k: &Kind) -> &'static str {
    match k {
        Kind::Byte => "byte",
        Kind::Array { .. } => "array",
        Kind::Struct { .. } => "struct",
        Kind::Vector { .. } => "vector",
        Kind::Table { .. } => "table",
        Kind::Option { .. } => "option",
        Kind::Union { .. } => "union",
    }
}

/// `Stats::nontrivial` with a per-worker cap (the set is shipped to the parent as JSON; the
/// thorough tier would otherwise carry tens of millions of hashes): beyond the cap the count is
/// a lower bound.
pub fn note_nontrivial<T: std::hash::Hash + ?Sized>(st: &mut Stats, d: &T) {
    if st.nontrivial.len() < 400_000 {
        st.nontrivial(d);
    }
}

pub fn hx(b: &[u8]) -> String {
    if b.len() <= 160 {
        hex(b)
    } else {
        format!("{}..({} bytes)..{}", hex(&b[..96]), b.len(), hex(&b[b.len() - 32..]))
    }
}

/// run code under test; a panic becomes a violation of its own
pub fn guarded<T>(what: &str, ty: &str, f: impl FnOnce() -> T) -> Result<T, Violation> {
    catch_unwind(AssertUnwindSafe(f)).map_err(|p| {
        let msg = p
            .downcast_ref::<String>()
            .cloned()
            .or_else(|| p.downcast_ref::<&str>().map(|s| s.to_string()))
            .unwrap_or_default();
        Violation::new(format!("panic:{what}:{ty}"), format!("{what} panicked on {ty}: {msg}"))
    })
}

// ------------------------------------------------------------------------------------------
// cases
// ------------------------------------------------------------------------------------------

#[derive(Clone, Debug, Serialize, Deserialize)]
pub struct CanonCase {
    pub ty: String,
    pub tape: Vec<u8>,
    /// large generation budget (vectors of tens of kilobytes, hundreds of items)
    #[serde(default)]
    pub big: bool,
}

#[derive(Clone, Debug, Serialize, Deserialize)]
pub enum Mut {
    /// overwrite one byte
    SetByte { pos: u16, val: u8 },
    FlipBit { pos: u16, bit: u8 },
    /// rewrite one header word (full size / offset / count / union id), chosen among the
    /// positions recorded by the encoder
    Word { hdr: u16, how: u8, arg: u8 },
    Truncate { keep: u16 },
    Append { bytes: Vec<u8> },
    Insert { pos: u16, bytes: Vec<u8> },
    Remove { pos: u16, len: u8 },
}

#[derive(Clone, Debug, Serialize, Deserialize)]
pub struct MutCase {
    pub ty: String,
    pub tape: Vec<u8>,
    /// structural mutation: (table selector, extra fields) — the selected table node of the value
    /// gets extra trailing fields
    pub extras: Vec<(u16, Vec<Vec<u8>>)>,
    /// structural mutation: (node selector, bytes before, bytes after) — stray bytes around the
    /// encoding of one node, every enclosing size/offset header kept consistent
    #[serde(default)]
    pub pads: Vec<(u16, Vec<u8>, Vec<u8>)>,
    pub muts: Vec<Mut>,
}

#[derive(Clone, Debug, Serialize, Deserialize)]
pub struct RawCase {
    pub ty: String,
    pub bytes: Vec<u8>,
    /// overwrite the first word with the length (so that the outer header is plausible)
    pub fix_size: bool,
}

fn type_strategy() -> impl Strategy<Value = String> {
    any::<u32>().prop_map(|sel| world().pick_type(sel).to_string())
}

fn tape_strategy() -> impl Strategy<Value = Vec<u8>> {
    prop_oneof![
        3 => proptest::collection::vec(any::<u8>(), 0..48),
        4 => proptest::collection::vec(any::<u8>(), 16..400),
        1 => proptest::collection::vec(any::<u8>(), 200..1500),
        // biased tapes: mostly large selectors -> long vectors, present options, late union arms
        2 => proptest::collection::vec(prop_oneof![2 => 140u8..=255, 1 => any::<u8>()], 8..300),
    ]
}

fn canon_strategy() -> impl Strategy<Value = CanonCase> {
    (type_strategy(), tape_strategy()).prop_map(|(ty, tape)| CanonCase { ty, tape, big: false })
}

/// long tapes biased to large selectors, large budget: huge vectors
fn canon_big_strategy() -> impl Strategy<Value = CanonCase> {
    (
        type_strategy(),
        proptest::collection::vec(prop_oneof![3 => 200u8..=255, 1 => any::<u8>()], 64..2500),
    )
        .prop_map(|(ty, tape)| CanonCase { ty, tape, big: true })
}

fn small_bytes() -> impl Strategy<Value = Vec<u8>> {
    proptest::collection::vec(any::<u8>(), 0..12)
}

fn small_pad() -> impl Strategy<Value = Vec<u8>> {
    prop_oneof![
        2 => Just(vec![]),
        2 => proptest::collection::vec(prop_oneof![1 => Just(0u8), 1 => any::<u8>()], 1..5),
        1 => proptest::collection::vec(any::<u8>(), 4..10),
    ]
}

fn mut_strategy() -> impl Strategy<Value = Mut> {
    prop_oneof![
        2 => (any::<u16>(), any::<u8>()).prop_map(|(pos, val)| Mut::SetByte { pos, val }),
        2 => (any::<u16>(), 0u8..8).prop_map(|(pos, bit)| Mut::FlipBit { pos, bit }),
        6 => (any::<u16>(), 0u8..14, any::<u8>()).prop_map(|(hdr, how, arg)| Mut::Word { hdr, how, arg }),
        1 => any::<u16>().prop_map(|keep| Mut::Truncate { keep }),
        1 => small_bytes().prop_map(|bytes| Mut::Append { bytes }),
        1 => (any::<u16>(), small_bytes()).prop_map(|(pos, bytes)| Mut::Insert { pos, bytes }),
        1 => (any::<u16>(), 1u8..9).prop_map(|(pos, len)| Mut::Remove { pos, len }),
    ]
}

fn mutcase_strategy() -> impl Strategy<Value = MutCase> {
    (
        type_strategy(),
        tape_strategy(),
        prop_oneof![
            3 => Just(vec![]),
            2 => proptest::collection::vec((any::<u16>(), proptest::collection::vec(small_bytes(), 1..3)), 1..3),
        ],
        prop_oneof![
            3 => Just(vec![]),
            2 => proptest::collection::vec((any::<u16>(), small_pad(), small_pad()), 1..2),
        ],
        prop_oneof![
            3 => Just(vec![]),
            5 => proptest::collection::vec(mut_strategy(), 1..2),
            2 => proptest::collection::vec(mut_strategy(), 2..4),
        ],
    )
        .prop_map(|(ty, tape, extras, pads, muts)| MutCase { ty, tape, extras, pads, muts })
}

fn raw_strategy() -> impl Strategy<Value = RawCase> {
    (type_strategy(), proptest::collection::vec(prop_oneof![3 => 0u8..16, 1 => any::<u8>()], 0..72), any::<bool>())
        .prop_map(|(ty, bytes, fix_size)| RawCase { ty, bytes, fix_size })
}

pub fn gen_opts(tier_big: bool) -> GenOpts {
    if tier_big {
        GenOpts { budget: 96 * 1024, big_bytes: 70_000 }
    } else {
        GenOpts::default()
    }
}

pub fn generate(ty: &str, tape: &[u8]) -> Val {
    generate_with(ty, tape, false)
}

pub fn generate_with(ty: &str, tape: &[u8], big: bool) -> Val {
    let w = world();
    let mut g = Gen::new(&w.schema, tape, gen_opts(big));
    g.gen_val(ty)
}

fn apply_mut(b: &mut Vec<u8>, hdrs: &[usize], m: &Mut) {
    match m {
        Mut::SetByte { pos, val } => {
            if !b.is_empty() {
                let i = pick_idx(*pos as u32, b.len());
                b[i] = *val;
            }
        }
        Mut::FlipBit { pos, bit } => {
            if !b.is_empty() {
                let i = pick_idx(*pos as u32, b.len());
                b[i] ^= 1 << (bit % 8);
            }
        }
        Mut::Word { hdr, how, arg } => {
            let cands: Vec<usize> = hdrs.iter().copied().filter(|p| p + 4 <= b.len()).collect();
            let p = if cands.is_empty() {
                if b.len() < 4 {
                    return;
                }
                pick_idx(*hdr as u32, b.len() / 4) * 4
            } else {
                cands[pick_idx(*hdr as u32, cands.len())]
            };
            let old = u32::from_le_bytes(b[p..p + 4].try_into().unwrap());
            let new = match how % 14 {
                0 => old.wrapping_add(1),
                1 => old.wrapping_sub(1),
                2 => old.wrapping_add(4),
                3 => old.wrapping_sub(4),
                4 => 0,
                5 => 4,
                6 => b.len() as u32,
                7 => u32::MAX,
                8 => *arg as u32,
                9 => old.wrapping_add(*arg as u32),
                10 => old.wrapping_sub(*arg as u32),
                11 => old | 0x8000_0000,
                // small values: neighbouring union item ids, small counts
                12 => (*arg % 12) as u32,
                _ => old.wrapping_add((*arg % 8) as u32 * 4),
            };
            b[p..p + 4].copy_from_slice(&new.to_le_bytes());
        }
        Mut::Truncate { keep } => {
            let k = pick_idx(*keep as u32, b.len() + 1);
            b.truncate(k);
        }
        Mut::Append { bytes } => b.extend_from_slice(bytes),
        Mut::Insert { pos, bytes } => {
            let i = pick_idx(*pos as u32, b.len() + 1);
            let tail = b.split_off(i);
            b.extend_from_slice(bytes);
            b.extend_from_slice(&tail);
        }
        Mut::Remove { pos, len } => {
            if !b.is_empty() {
                let i = pick_idx(*pos as u32, b.len());
                let e = (i + *len as usize).min(b.len());
                b.drain(i..e);
            }
        }
    }
}

// ------------------------------------------------------------------------------------------
// properties on bytes
// ------------------------------------------------------------------------------------------

fn label_shape(st: &mut Stats, w: &World, ty: &str, v: &Val) -> bool {
    let sh = w.schema.shape(ty, v);
    st.label(&format!("root:{}", kind_name(w.schema.kind(ty))));
    if sh.empty_vecs > 0 {
        st.label("shape:has-empty-vector");
    }
    if sh.large_vecs > 0 {
        st.label("shape:has-large-vector");
    }
    if sh.opt_some > 0 {
        st.label("shape:has-option-some");
    }
    if sh.opt_none > 0 {
        st.label("shape:has-option-none");
    }
    if sh.unions > 0 {
        st.label("shape:has-union");
    }
    if sh.num_zero > 0 {
        st.label("shape:has-all-zero-number");
    }
    if sh.num_max > 0 {
        st.label("shape:has-all-ones-number");
    }
    if sh.max_depth >= 4 {
        st.label("shape:depth>=4");
    }
    if sh.nondefault_deep > 0 {
        st.label("shape:nontrivial(nondefault opt/union/vec at depth>=2)");
    }
    sh.nondefault_deep > 0
}

/// Oracle (1): canonical bytes are accepted, returned unchanged, rebuilt unchanged.
fn prop_canon(c: &CanonCase, st: &mut Stats) -> Verdict {
    let w = world();
    let ops = w.ops(&c.ty)?;
    let ty = c.ty.as_str();
    let val = generate_with(ty, &c.tape, c.big);
    let bytes = w.schema.encode(ty, &val);
    if label_shape(st, w, ty, &val) {
        note_nontrivial(st, &("canon", ty, &bytes));
    }
    st.label(match bytes.len() {
        0..=63 => "size:<64",
        64..=1023 => "size:64-1K",
        1024..=16383 => "size:1K-16K",
        _ => "size:>=16K",
    });
    if let Val::Union(id, _) = &val {
        st.label(&format!("union-arm:{ty}:{id}"));
    }
    if st.want_sample() && bytes.len() > 60 && bytes.len() < 400 {
        st.sample(|| json!({"sub": "canon", "type": ty, "bytes": hex(&bytes)}));
    }
    check_canonical(w, ops, ty, &val, &bytes)
}

pub fn check_canonical(w: &World, ops: &TypeOps, ty: &str, val: &Val, bytes: &[u8]) -> Verdict {
    // interpreter self-consistency first (a failure here is a harness defect, named as such)
    match w.schema.decode(ty, bytes, false) {
        Ok(d) if d == *val => {}
        other => vfail!(
            format!("harness:interpreter-roundtrip:{ty}"),
            "interpreter decode(encode(v)) != v for {ty}: {other:?} bytes {}",
            hx(bytes)
        ),
    }
    let r = guarded("from_slice", ty, || (ops.from_slice)(bytes))?;
    match r {
        Ok(back) => vensure!(
            back == bytes,
            format!("canonical:as_slice-differs:{ty}"),
            "{ty}::from_slice(canonical).as_slice() = {} != canonical {}",
            hx(&back),
            hx(bytes)
        ),
        Err(e) => vfail!(
            format!("canonical:rejected-by-from_slice:{ty}"),
            "{ty}::from_slice rejects the canonical encoding {}: {e}",
            hx(bytes)
        ),
    }
    let r = guarded("from_compatible_slice", ty, || (ops.from_compatible_slice)(bytes))?;
    match r {
        Ok(back) => vensure!(
            back == bytes,
            format!("canonical:compatible-as_slice-differs:{ty}"),
            "{ty}::from_compatible_slice(canonical).as_slice() differs: {}",
            hx(&back)
        ),
        Err(e) => vfail!(
            format!("canonical:rejected-by-from_compatible_slice:{ty}"),
            "{ty}::from_compatible_slice rejects the canonical encoding {}: {e}",
            hx(bytes)
        ),
    }
    for compat in [false, true] {
        let r = guarded("Reader::verify", ty, || (ops.reader_verify)(bytes, compat))?;
        if let Err(e) = r {
            vfail!(
                format!("canonical:rejected-by-reader-verify:{ty}"),
                "{ty}Reader::verify(canonical, {compat}) fails: {e}; bytes {}",
                hx(bytes)
            );
        }
    }
    let rb = guarded("as_builder().build()", ty, || (ops.rebuild)(bytes))?;
    match rb {
        Ok(back) => vensure!(
            back == bytes,
            format!("canonical:rebuild-differs:{ty}"),
            "{ty}: from_slice -> as_builder -> build gives {} instead of {}",
            hx(&back),
            hx(bytes)
        ),
        Err(e) => vfail!(format!("canonical:rebuild-failed:{ty}"), "{e}"),
    }
    let _ = guarded("Display", ty, || (ops.display)(bytes))?;
    Ok(())
}

/// Oracles (2): for arbitrary bytes the verdicts of the generated verifiers equal the
/// interpreter's; whatever is accepted strictly is the canonical encoding of what it decodes to.
pub fn check_bytes(w: &World, ops: &TypeOps, ty: &str, b: &[u8], st: &mut Stats) -> Verdict {
    let mine_strict = w.schema.decode(ty, b, false);
    let mine_compat = w.schema.decode(ty, b, true);
    let real_strict = guarded("from_slice", ty, || (ops.from_slice)(b))?;
    let real_compat = guarded("from_compatible_slice", ty, || (ops.from_compatible_slice)(b))?;
    let rv_strict = guarded("Reader::verify", ty, || (ops.reader_verify)(b, false))?;
    let rv_compat = guarded("Reader::verify", ty, || (ops.reader_verify)(b, true))?;
    vensure!(
        rv_strict.is_ok() == real_strict.is_ok() && rv_compat.is_ok() == real_compat.is_ok(),
        format!("verdict:entity-vs-reader-disagree:{ty}"),
        "{ty}: Entity::from_slice/from_compatible_slice = {}/{} but Reader::verify = {}/{} on {}",
        real_strict.is_ok(),
        real_compat.is_ok(),
        rv_strict.is_ok(),
        rv_compat.is_ok(),
        hx(b)
    );
    match (&real_strict, &mine_strict) {
        (Ok(_), Err(e)) => vfail!(
            format!("verdict:strict:generated-accepts-noncanonical:{}:{}", e.ty, e.class),
            "{ty}::from_slice accepts bytes that are not a canonical encoding ({e}): {}",
            hx(b)
        ),
        (Err(e), Ok(v)) => vfail!(
            format!("verdict:strict:generated-rejects-canonical:{ty}"),
            "{ty}::from_slice rejects ({e}) the canonical encoding of {v:?}: {}",
            hx(b)
        ),
        _ => {}
    }
    match (&real_compat, &mine_compat) {
        (Ok(_), Err(e)) => {
            // name the structural trigger: a zero-field table is special in the generated code
            let zero_field = matches!(w.schema.kind(&e.ty), Kind::Table { fields } if fields.is_empty());
            let sig = if zero_field {
                "verdict:compatible:generated-accepts-malformed:zero-field-table".to_string()
            } else {
                format!("verdict:compatible:generated-accepts-malformed:{}:{}", e.ty, e.class)
            };
            vfail!(
                sig,
                "{ty}::from_compatible_slice accepts bytes that are not an encoding with extra trailing table fields ({e}): {}",
                hx(b)
            )
        }
        (Err(e), Ok(v)) => vfail!(
            format!("verdict:compatible:generated-rejects-wellformed:{ty}"),
            "{ty}::from_compatible_slice rejects ({e}) a well-formed compatible encoding {v:?}: {}",
            hx(b)
        ),
        _ => {}
    }
    vensure!(
        !(real_strict.is_ok() && real_compat.is_err()),
        format!("verdict:strict-accepted-but-compatible-rejected:{ty}"),
        "{ty}: strict accepts, compatible rejects {}",
        hx(b)
    );
    match (&real_strict, &real_compat) {
        (Ok(_), _) => st.label("bytes:strict-accepted"),
        (Err(_), Ok(_)) => st.label("bytes:compatible-only-accepted"),
        _ => {
            st.label("bytes:rejected");
            if let Err(e) = &mine_strict {
                st.label(&format!("reject:{}", e.class));
            }
        }
    }
    if let (Ok(back), Ok(v)) = (&real_strict, &mine_strict) {
        vensure!(
            back == b,
            format!("accepted:as_slice-differs:{ty}"),
            "{ty}::from_slice(b).as_slice() != b for {}",
            hx(b)
        );
        let re = w.schema.encode(ty, v);
        vensure!(
            re == b,
            format!("harness:interpreter-reencode:{ty}"),
            "interpreter accepted {} but re-encodes it as {}",
            hx(b),
            hx(&re)
        );
        let rb = guarded("as_builder().build()", ty, || (ops.rebuild)(b))?;
        match rb {
            Ok(x) => vensure!(
                x == b,
                format!("accepted:rebuild-differs:{ty}"),
                "{ty}: strictly accepted {} rebuilds field by field to {}",
                hx(b),
                hx(&x)
            ),
            Err(e) => vfail!(format!("accepted:rebuild-failed:{ty}"), "{e}"),
        }
        let _ = guarded("Display", ty, || (ops.display)(b))?;
    }
    if let (Ok(back), Ok(v)) = (&real_compat, &mine_compat) {
        vensure!(
            back == b,
            format!("accepted:compatible-as_slice-differs:{ty}"),
            "{ty}::from_compatible_slice(b).as_slice() != b for {}",
            hx(b)
        );
        let re = w.schema.encode(ty, v);
        vensure!(
            re == b,
            format!("harness:interpreter-reencode-compatible:{ty}"),
            "interpreter accepted (compatible) {} but re-encodes it as {}",
            hx(b),
            hx(&re)
        );
    }
    Ok(())
}

pub fn mutated_bytes(w: &World, c: &MutCase) -> (Val, Vec<u8>, Vec<u8>) {
    let ty = c.ty.as_str();
    let val = generate(ty, &c.tape);
    let orig = w.schema.encode(ty, &val);
    let mut v2 = val.clone();
    for (sel, ex) in &c.extras {
        let paths = w.schema.table_paths(ty, &v2);
        if paths.is_empty() {
            break;
        }
        let p = paths[pick_idx(*sel as u32, paths.len())].clone();
        w.schema.add_extras(&mut v2, &p, ex.clone());
    }
    // pads are applied after the extras; a path computed on the unpadded tree stays valid
    // because Padded is transparent for path walking
    for (sel, front, back) in &c.pads {
        if front.is_empty() && back.is_empty() {
            continue;
        }
        let paths = w.schema.all_paths(ty, &val);
        let p = paths[pick_idx(*sel as u32, paths.len())].clone();
        w.schema.pad_node(&mut v2, &p, front.clone(), back.clone());
    }
    let (mut b, hdrs) = w.schema.encode_with_headers(ty, &v2);
    for m in &c.muts {
        apply_mut(&mut b, &hdrs, m);
    }
    (val, orig, b)
}

fn prop_mutated(c: &MutCase, st: &mut Stats) -> Verdict {
    let w = world();
    let ops = w.ops(&c.ty)?;
    let ty = c.ty.as_str();
    let (val, orig, b) = mutated_bytes(w, c);
    let nt = label_shape(st, w, ty, &val);
    if !c.extras.is_empty() {
        st.label("mut:extra-table-fields");
    }
    if !c.muts.is_empty() {
        st.label("mut:byte-level");
    }
    if c.pads.iter().any(|p| !p.1.is_empty() || !p.2.is_empty()) {
        st.label("mut:stray-bytes-around-a-node");
    }
    if nt {
        note_nontrivial(st, &("mutated", ty, &b));
    }
    let before = st.labels.get("bytes:strict-accepted").copied().unwrap_or(0);
    let r = check_bytes(w, ops, ty, &b, st);
    let after = st.labels.get("bytes:strict-accepted").copied().unwrap_or(0);
    if after > before && b != orig {
        st.label("mut:strict-accepted-and-differs-from-original");
    }
    if st.want_sample() && !c.muts.is_empty() && b.len() < 200 && b.len() > 20 {
        st.sample(|| json!({"sub": "mutated", "type": ty, "original": hex(&orig), "mutated": hex(&b)}));
    }
    r
}

fn raw_bytes(c: &RawCase) -> Vec<u8> {
    let mut b = c.bytes.clone();
    if c.fix_size && b.len() >= 4 {
        let l = b.len() as u32;
        b[..4].copy_from_slice(&l.to_le_bytes());
    }
    b
}

fn prop_raw(c: &RawCase, st: &mut Stats) -> Verdict {
    let w = world();
    let ops = w.ops(&c.ty)?;
    let b = raw_bytes(c);
    st.label("raw-bytes");
    check_bytes(w, ops, &c.ty, &b, st)
}

/// one-off facts: dispatch covers the schema, Default = all-default value
fn prop_static(_: &(), st: &mut Stats) -> Verdict {
    let w = world();
    vensure!(
        w.missing_dispatch.is_empty() && w.missing_schema.is_empty(),
        "harness:dispatch-table-out-of-date",
        "schema types without a Rust type in the dispatch table: {:?}; dispatch entries without schema type: {:?}",
        w.missing_dispatch,
        w.missing_schema
    );
    for ty in &w.names {
        let ops = w.ops(ty)?;
        let want = w.schema.encode(ty, &w.schema.default_val(ty));
        let got = guarded("Default", ty, || (ops.default_bytes)())?;
        st.label("static:default-value");
        vensure!(
            got == want,
            format!("default:differs-from-all-default-encoding:{ty}"),
            "{ty}::default().as_slice() = {} but the all-default value encodes as {}",
            hx(&got),
            hx(&want)
        );
        check_canonical(w, ops, ty, &w.schema.default_val(ty), &want)?;
    }
    Ok(())
}

// ------------------------------------------------------------------------------------------
// run / replay
// ------------------------------------------------------------------------------------------

/// `VERIF_C15_ONLY=sub1,sub2` restricts a run to some sub-properties (development aid)
pub fn run_sub<S, F>(ctx: &Ctx, sub: &str, cases: u32, strat: S, prop: F)
where
    S: Strategy,
    S::Value: Serialize + std::fmt::Debug + Clone,
    F: Fn(&S::Value, &mut Stats) -> Verdict,
{
    if let Ok(only) = std::env::var("VERIF_C15_ONLY") {
        if !only.split(',').any(|x| x == sub) {
            return;
        }
    }
    ctx.run_prop(sub, cases, strat, prop);
}

fn run(ctx: &Ctx) {
    // panics of the code under test are caught and reported; keep the logs quiet
    std::panic::set_hook(Box::new(|_| {}));
    let _ = world();
    if ctx.worker == 0 {
        ctx.run_case("static", &(), prop_static);
    }
    run_sub(ctx, "canon", ctx.cases(1_600_000, 24_000_000), canon_strategy(), prop_canon);
    run_sub(ctx, "canon-big", ctx.cases(12_000, 180_000), canon_big_strategy(), prop_canon);
    run_sub(ctx, "mutated", ctx.cases(2_000_000, 30_000_000), mutcase_strategy(), prop_mutated);
    run_sub(ctx, "raw", ctx.cases(400_000, 6_000_000), raw_strategy(), prop_raw);
    typed::run(ctx);
}

fn replay(ctx: &Ctx, sub: &str, v: &Value) -> Verdict {
    std::panic::set_hook(Box::new(|_| {}));
    let mut st = ctx.stats.borrow_mut();
    match sub {
        "static" => prop_static(&(), &mut st),
        "canon" | "canon-big" => prop_canon(&from_case(v)?, &mut st),
        "mutated" => prop_mutated(&from_case(v)?, &mut st),
        "raw" => prop_raw(&from_case(v)?, &mut st),
        other => typed::replay(other, v, &mut st),
    }
}
