//! smoke test of the node driver + model builder (not a registered property)
use crate::common::*;
use crate::model::*;
use crate::node::*;
use serde_json::Value;

pub fn spec() -> CheckSpec {
    CheckSpec {
        id: "SMOKE",
        level: "exploration",
        rule: "smoke",
        assumptions: &[],
        workers: |_| 1,
        watchdog_s: |_| 600,
        run,
        replay: |_, _, _: &Value| Ok(()),
    }
}

fn run(ctx: &Ctx) {
    for perm in [false, true] {
        let cfg = SpecCfg { permanent_difficulty: perm, ..Default::default() };
        let env = build_env(&cfg);
        let t0 = std::time::Instant::now();
        let node = Node::start(&env, NodeCfg::default()).expect("node");
        eprintln!("node start {:?}", t0.elapsed());
        let mut tree = Tree::new(env.consensus.clone());
        let mut tip = tree.genesis.clone();
        for i in 0..40u64 {
            let spec = BlockSpec { timestamp: 1000 + i * 8000, ..Default::default() };
            let b = tree.build(&tip, &spec, &BuildOpts::default()).expect("build");
            let r = node.submit(&b.block);
            eprintln!("block {} epoch {} -> {:?}", b.number, b.block.epoch(), r);
            if r != Ok(true) { break; }
            tip = tree.insert(b);
        }
        ctx.stats.borrow_mut().eval("smoke");
        let t1 = std::time::Instant::now();
        node.stop();
        eprintln!("node stop {:?}", t1.elapsed());
    }
}
