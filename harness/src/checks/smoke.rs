//! development smoke / stress tests of the node driver (not a registered property)
use crate::common::*;
use crate::model::*;
use crate::node::*;
use serde_json::Value;
use std::sync::mpsc;
use std::time::Duration;

pub fn spec() -> CheckSpec {
    CheckSpec {
        id: "SMOKE",
        level: "exploration",
        rule: "smoke",
        assumptions: &[],
        workers: |_| 8,
        watchdog_s: |_| 900,
        run,
        replay: |_, _, _: &Value| Ok(()),
    }
}

/// stress: duplicate delivery of a block whose branch fails verification
fn run(ctx: &Ctx) {
    let cfg = SpecCfg { permanent_difficulty: true, ..Default::default() };
    let env = build_env(&cfg);
    for round in 0..150 {
        let node = Node::start(&env, NodeCfg::default()).expect("node");
        let mut tree = Tree::new(env.consensus.clone());
        let g = tree.genesis.clone();
        let mk = |tree: &Tree, p: &H, ts: u64, opts: &BuildOpts| tree.build(p, &BlockSpec { timestamp: ts, ..Default::default() }, opts).unwrap();
        let anchor = tree.insert(mk(&tree, &g, 1000, &BuildOpts::default()));
        let a1 = tree.insert(mk(&tree, &anchor, 2000, &BuildOpts::default()));
        let mut bad = BuildOpts::default();
        bad.dao_delta[0] = 1;
        let x = tree.insert(mk(&tree, &anchor, 2500, &bad));
        let f = tree.insert(mk(&tree, &x, 3500, &BuildOpts::default()));
        assert_eq!(node.submit(&tree.get(&anchor).block), Ok(true));
        assert_eq!(node.submit(&tree.get(&a1).block), Ok(true));
        assert_eq!(node.submit(&tree.get(&x).block), Ok(true)); // stored, not best
        let (tx, rx) = mpsc::channel();
        for _ in 0..4 {
            node.deliver_async(&tree.get(&f).block, 0, tx.clone());
        }
        let (btx, brx) = mpsc::channel();
        node.deliver_async(&tree.get(&anchor).block, 1, btx.clone());
        if brx.recv_timeout(Duration::from_secs(10)).is_err() {
            eprintln!("round {round}: BARRIER TIMEOUT (a chain thread died?)");
            ctx.stats.borrow_mut().label("wedged");
            std::process::exit(0);
        }
        drop(rx);
        ctx.stats.borrow_mut().eval("smoke");
        node.stop();
    }
}
