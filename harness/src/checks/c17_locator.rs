//! C17 part 5: ActiveChain::get_ancestor / get_locator on a real SyncShared (temp DB node with
//! verification switched off) against the naive parent walk over the harness's own tree.
use crate::common::*;
use crate::{vensure, vfail};
use ckb_chain::ChainServiceScope;
use ckb_dao::DaoCalculator;
use ckb_reward_calculator::RewardCalculator;
use ckb_shared::{Shared, SharedBuilder};
use ckb_store::ChainStore;
use ckb_sync::SyncShared;
use ckb_test_chain_utils::{always_success_cellbase, always_success_consensus};
use ckb_types::core::cell::resolve_transaction;
use ckb_types::core::{BlockBuilder, BlockView, EpochNumberWithFraction, HeaderBuilder};
use ckb_types::packed::Byte32;
use ckb_types::prelude::*;
use ckb_verification_traits::Switch;
use proptest::prelude::*;
use serde::{Deserialize, Serialize};
use serde_json::{Value, json};
use std::collections::{HashMap, HashSet};
use std::panic::{AssertUnwindSafe, catch_unwind};
use std::sync::Arc;

#[derive(Clone, Debug, Serialize, Deserialize, Hash)]
pub struct LocCase {
    /// stored main chain: blocks 1..=main_len
    pub main_len: u16,
    /// stored side branches (fork height, length); kept strictly lighter than the main chain
    pub side: Vec<(u16, u8)>,
    /// header-only branches (index of the node they attach to, length), fed via insert_valid_header
    pub header_only: Vec<(u16, u16)>,
    /// query bases (node indices); the tip of every branch is always queried too
    pub bases: Vec<u16>,
}

struct Node {
    hash: Byte32,
    parent: usize,
    number: u64,
}

fn next_block(shared: &Shared, parent_hash: &Byte32, ts_bump: u64) -> BlockView {
    // same construction as sync/src/tests/util.rs::inherit_block
    let snapshot = shared.snapshot();
    let parent = snapshot.get_block(parent_hash).expect("parent stored");
    let parent_number = parent.header().number();
    let epoch = snapshot
        .consensus()
        .next_epoch_ext(&parent.header(), &snapshot.borrow_as_data_loader())
        .expect("epoch")
        .epoch();
    let cellbase = {
        let main_parent_hash = snapshot.get_block_hash(parent_number).expect("main parent");
        let main_parent = snapshot.get_block_header(&main_parent_hash).expect("main parent header");
        let (_, reward) = RewardCalculator::new(snapshot.consensus(), snapshot.as_ref())
            .block_reward_to_finalize(&main_parent)
            .expect("reward");
        always_success_cellbase(parent_number + 1, reward.total, snapshot.consensus())
    };
    let dao = {
        let resolved = resolve_transaction(cellbase.clone(), &mut HashSet::new(), snapshot.as_ref(), snapshot.as_ref())
            .expect("resolve cellbase");
        let data_loader = snapshot.borrow_as_data_loader();
        DaoCalculator::new(shared.consensus(), &data_loader)
            .dao_field([resolved].iter(), &parent.header())
            .expect("dao")
    };
    let chain_root = snapshot.chain_root_mmr(parent_number).get_root().expect("mmr root");
    let bytes = chain_root.calc_mmr_hash().as_bytes().into();
    BlockBuilder::default()
        .parent_hash(parent_hash.to_owned())
        .number(parent_number + 1)
        .timestamp(parent.header().timestamp() + 1 + ts_bump)
        .epoch(epoch.number_with_fraction(parent_number + 1))
        .compact_target(epoch.compact_target())
        .dao(dao)
        .transaction(cellbase)
        .extension(Some(bytes))
        .build()
}

/// heights a locator starting at `start` must have up to its last-but-one entry: ten consecutive
/// heights, then gaps doubling (2, 4, 8, ..); the final entry is the genesis.
fn check_gaps(heights: &[u64]) -> Result<(), String> {
    if heights.is_empty() {
        return Err("empty locator".into());
    }
    if *heights.last().unwrap() != 0 {
        return Err(format!("last entry at height {}, not the genesis", heights.last().unwrap()));
    }
    let mut gap = 1u64;
    // the last gap (jump to genesis) is free
    for i in 0..heights.len().saturating_sub(2) {
        if i + 1 >= 10 {
            gap *= 2;
        }
        if heights[i] < heights[i + 1] || heights[i] - heights[i + 1] != gap {
            return Err(format!("entry {} at height {} follows height {} (expected gap {gap})", i + 1, heights[i + 1], heights[i]));
        }
    }
    for i in 0..heights.len() - 1 {
        if heights[i] <= heights[i + 1] {
            return Err(format!("heights not strictly decreasing at entry {}", i + 1));
        }
    }
    Ok(())
}

struct TempDbGuard(std::path::PathBuf);

impl Drop for TempDbGuard {
    fn drop(&mut self) {
        let _ = std::fs::remove_dir_all(&self.0);
    }
}

fn exec(case: &LocCase, st: &mut Stats) -> Verdict {
    vensure!(case.main_len >= 1 && case.main_len <= 400, "replay-format", "main_len out of range");
    let (shared, mut pack) = SharedBuilder::with_temp_db()
        .consensus(always_success_consensus())
        .build()
        .map_err(|e| Violation::new("locator:setup", format!("SharedBuilder: {e:?}")))?;
    // `with_temp_db` keeps every database of the process under one static TempDir that is never
    // dropped: unlink this case's database when the case ends (the open handles keep working)
    let _db_guard = TempDbGuard(shared.store().db().inner().path().to_path_buf());
    let chain_scope = ChainServiceScope::new(pack.take_chain_services_builder());
    let chain = chain_scope.chain_controller();
    let genesis = shared.consensus().genesis_block().clone();
    let mut nodes: Vec<Node> = vec![Node { hash: genesis.hash(), parent: 0, number: 0 }];
    let mut tips: Vec<usize> = vec![];
    // main chain
    let mut parent = 0usize;
    for _ in 0..case.main_len {
        let b = next_block(&shared, &nodes[parent].hash, 0);
        chain
            .blocking_process_block_with_switch(Arc::new(b.clone()), Switch::DISABLE_ALL)
            .map_err(|e| Violation::new("locator:setup", format!("main block: {e}")))?;
        nodes.push(Node { hash: b.hash(), parent, number: nodes[parent].number + 1 });
        parent = nodes.len() - 1;
    }
    tips.push(parent);
    let main_len = case.main_len as usize;
    // stored side branches (main chain nodes are indices 0..=main_len)
    let mut stored_side = 0;
    for (j, (f, l)) in case.side.iter().enumerate() {
        let f = (*f as usize).min(main_len.saturating_sub(2));
        let l = (*l as usize).min(main_len.saturating_sub(f + 1));
        let mut parent = f;
        for _ in 0..l {
            let b = next_block(&shared, &nodes[parent].hash, 3 + j as u64);
            chain
                .blocking_process_block_with_switch(Arc::new(b.clone()), Switch::DISABLE_ALL)
                .map_err(|e| Violation::new("locator:setup", format!("side block: {e}")))?;
            nodes.push(Node { hash: b.hash(), parent, number: nodes[parent].number + 1 });
            parent = nodes.len() - 1;
            stored_side += 1;
        }
        if l > 0 {
            tips.push(parent);
        }
    }
    let sync_shared = SyncShared::new(shared.clone(), Default::default(), pack.take_relay_tx_receiver());
    // header-only branches
    let compact = genesis.header().compact_target();
    let mut uniq = 0u64;
    let mut header_only = 0;
    for (a, l) in &case.header_only {
        let mut parent = (*a as usize) % nodes.len();
        for _ in 0..*l {
            uniq += 1;
            let number = nodes[parent].number + 1;
            let h = HeaderBuilder::default()
                .parent_hash(nodes[parent].hash.clone())
                .number(number)
                .timestamp(1_900_000_000_000 + uniq)
                .epoch(EpochNumberWithFraction::new(number / 1000, number % 1000, 1000))
                .compact_target(compact)
                .build();
            sync_shared.insert_valid_header(0.into(), &h);
            nodes.push(Node { hash: h.hash(), parent, number });
            parent = nodes.len() - 1;
            header_only += 1;
        }
        if *l > 0 {
            tips.push(parent);
        }
    }
    let index_of: HashMap<Byte32, usize> = nodes.iter().enumerate().map(|(i, n)| (n.hash.clone(), i)).collect();
    vensure!(index_of.len() == nodes.len(), "locator:setup", "duplicate block hash generated");
    let active = sync_shared.active_chain();
    let tip_hash = active.tip_hash();
    let main_tip = *index_of.get(&tip_hash).ok_or_else(|| Violation::new("locator:setup", "unknown tip"))?;
    let naive = |base: usize, h: u64| -> usize {
        let mut c = base;
        while nodes[c].number > h {
            c = nodes[c].parent;
        }
        c
    };
    let on_main = |i: usize| naive(main_tip, nodes[i].number) == i;

    let mut bases: Vec<usize> = case.bases.iter().map(|b| *b as usize % nodes.len()).collect();
    bases.extend(tips.iter().copied());
    bases.sort();
    bases.dedup();
    let mut maxh = 0;
    let mut fork_base = false;
    for base in bases {
        let bn = nodes[base].number;
        maxh = maxh.max(bn);
        let place = if on_main(base) {
            "main"
        } else if base <= main_len + stored_side {
            fork_base = true;
            "stored-side"
        } else {
            fork_base = true;
            "header-only"
        };
        for h in 0..=bn + 1 {
            let got = catch_unwind(AssertUnwindSafe(|| active.get_ancestor(&nodes[base].hash, h)))
                .map_err(|_| Violation::new(format!("locator:get_ancestor:panic:{place}"), format!("base node {base} at {bn}, height {h}")))?;
            if h > bn {
                if got.is_some() {
                    vfail!(format!("locator:get_ancestor:some-above-base:{place}"), "base node {base} at {bn}, height {h}");
                }
                continue;
            }
            let want = naive(base, h);
            match got {
                None => vfail!(
                    format!("locator:get_ancestor:none:{place}"),
                    "get_ancestor(base node {base} at {bn}, {h}) = None; parent walk reaches node {want}"
                ),
                Some(v) => {
                    if v.hash() != nodes[want].hash {
                        let kind = if v.number() != h { "wrong-height" } else { "wrong-branch" };
                        vfail!(
                            format!("locator:get_ancestor:{kind}:{place}"),
                            "get_ancestor(base node {base} at {bn}, {h}) = node {:?} at {}; parent walk reaches node {want} (main tip node {main_tip} at {})",
                            index_of.get(&v.hash()),
                            v.number(),
                            nodes[main_tip].number
                        );
                    }
                }
            }
        }
        // locator
        let start = (bn, nodes[base].hash.clone()).into();
        let loc = catch_unwind(AssertUnwindSafe(|| active.get_locator(start)))
            .map_err(|_| Violation::new(format!("locator:get_locator:panic:{place}"), format!("start node {base} at {bn}")))?;
        let mut heights = vec![];
        for (i, h) in loc.iter().enumerate() {
            let Some(&ni) = index_of.get(h) else {
                vfail!(format!("locator:get_locator:unknown-hash:{place}"), "start node {base} at {bn}: entry {i} is no known header");
            };
            if naive(base, nodes[ni].number) != ni {
                vfail!(
                    format!("locator:get_locator:not-an-ancestor:{place}"),
                    "start node {base} at {bn}: entry {i} is node {ni} at {}, but the parent walk passes node {} at that height",
                    nodes[ni].number,
                    naive(base, nodes[ni].number)
                );
            }
            heights.push(nodes[ni].number);
        }
        if heights.first() != Some(&bn) {
            vfail!(format!("locator:get_locator:first-not-start:{place}"), "start node {base} at {bn}: heights {heights:?}");
        }
        if let Err(e) = check_gaps(&heights) {
            vfail!(format!("locator:get_locator:heights:{place}"), "start node {base} at {bn}: {e}; heights {heights:?}");
        }
    }
    st.label(match maxh {
        0..=15 => "locator/height<16",
        16..=63 => "locator/height16-63",
        64..=255 => "locator/height64-255",
        _ => "locator/height>=256",
    });
    if fork_base {
        st.label("locator/base-on-fork");
    }
    if stored_side > 0 {
        st.label("locator/stored-side-branch");
    }
    if header_only > 0 {
        st.label("locator/header-only-branch");
    }
    if maxh >= 64 {
        st.nontrivial(&("locator", case));
        st.sample(|| json!({"sub": "locator", "case": case}));
    }
    drop(chain_scope);
    Ok(())
}

fn prop(case: &LocCase, st: &mut Stats) -> Verdict {
    match catch_unwind(AssertUnwindSafe(|| exec(case, st))) {
        Ok(v) => v,
        Err(_) => Err(Violation::new("locator:panic", "panic while building or querying the node (see worker log)")),
    }
}

fn strategy() -> impl Strategy<Value = LocCase> {
    (
        prop_oneof![1 => 2u16..20, 3 => 20u16..90],
        proptest::collection::vec((any::<u16>(), 1u8..12), 0..3),
        proptest::collection::vec((any::<u16>(), prop_oneof![2 => 1u16..30, 2 => 30u16..200, 1 => 200u16..500]), 0..4),
        proptest::collection::vec(any::<u16>(), 0..4),
    )
        .prop_map(|(main_len, side, header_only, bases)| {
            let side = side.into_iter().map(|(f, l)| (pick_idx(f as u32, main_len as usize) as u16, l)).collect();
            LocCase { main_len, side, header_only, bases }
        })
}

pub fn run(ctx: &Ctx) {
    ctx.run_prop("locator", ctx.cases(192, 3_200), strategy(), prop);
}

pub fn replay(v: &Value, st: &mut Stats) -> Verdict {
    prop(&from_case::<LocCase>(v)?, st)
}
