//! C10 — freezing old blocks is invisible to every chain query and survives crashes.
//!
//! Two sub-properties:
//! * `freeze-x-queries` (exploration): model-built chains of >= 3 short epochs with forks, uncles,
//!   proposals, multi-tx bodies and extension extra bytes are imported into a real node with the
//!   freezer enabled; freeze passes (hook `Shared::verif_freeze_once`) and restarts are interleaved
//!   with the imports; after every step the QUERY BATTERY compares every main-chain answer with the
//!   reference model, the WHAT-MOVED clauses bound what a pass may freeze and delete.
//! * `crash-in-freeze` (fault enumeration): the same kind of chain is imported into a template
//!   directory; a dry run of one freeze pass in a child process (`VERIF_COMMIT_LOG`) enumerates the
//!   commits of the pass and the number of freezer appends; for every enumerated point a fresh copy
//!   of the directory is frozen by a child process that aborts there (`VERIF_CRASH_AT`, or the
//!   freezer crate's `write-head` / `write-index` fail-points turned into aborts); the directory is
//!   reopened, the battery must pass, the next pass must reach the frozen height of the run that
//!   never crashed, and so must the pass after further imports.
use crate::common::*;
use crate::model::*;
use crate::node::*;
use crate::plan::*;
use crate::vfail;
use ckb_app_config::StoreConfig;
use ckb_db_schema::{
    COLUMN_BLOCK_BODY, COLUMN_BLOCK_EXT, COLUMN_BLOCK_EXTENSION, COLUMN_BLOCK_HEADER, COLUMN_BLOCK_PROPOSAL_IDS,
    COLUMN_BLOCK_UNCLE, COLUMN_NUMBER_HASH,
};
use ckb_store::ChainStore;
use ckb_traits::{ExtensionProvider, HeaderProvider};
use ckb_types::{
    core::BlockView,
    packed::{self, CellOutput},
    prelude::*,
};
use proptest::prelude::*;
use serde::{Deserialize, Serialize};
use serde_json::{Value, json};
use std::collections::{BTreeMap, BTreeSet};
use std::panic::{AssertUnwindSafe, catch_unwind};
use std::path::Path;
use std::process::{Command, Stdio};

pub fn spec() -> CheckSpec {
    CheckSpec {
        id: "C10",
        level: "fault_enumeration",
        rule: "proptest: chains of 3..7 epochs of 4..8 blocks (permanent difficulty) built by the reference model with forks at heights that later freeze, uncles, proposals, multi-tx bodies, extension extra bytes, imported through the submit pipeline into a real node with the freezer enabled and IBD finished (faketime); freeze passes (once / twice in a row / right after a reorg), restarts and battery runs are interleaved with the imports at generated positions, with default or 1-entry store caches. QUERY BATTERY after every step on the store, the current snapshot and a snapshot taken before the last pass: 19 getters (block, packed block, header, body, tx hashes, cellbase, uncles, proposals, extension, transaction / info / with_info, ancestor, number<->hash, block ext, live cell + data of the tip state, data-loader header + extension) on every main-chain block against the model (the answers before any freezing are checked against the same model, so before = after). WHAT MOVED after every pass: frozen number only grows, the frozen range is contiguous and byte-identical to the model's main chain, every frozen block belongs to an epoch <= current-2, at most 30000 per pass, no KV row of an unfrozen main-chain block or of a side block above the frozen height is missing, headers and block-ext of frozen main-chain blocks stay. CRASH (fault enumeration): for one pass per chain every commit of the pass x {before, after} (VERIF_CRASH_AT, enumerated from a VERIF_COMMIT_LOG dry run) and the freezer fail-points write-head / write-index at the first, second, middle and last append abort a child process; the directory is reopened: battery, next pass reaches the never-crashed run's frozen number, further imports + pass likewise. Non-trivial = >= 1 block frozen and >= 1 side block at a frozen height, or a crash between freezer append and KV deletion; distinct by hash of the case (+ crash point).",
        assumptions: &[
            "reorgs whose fork point lies below frozen height + proposal window are excluded by construction (the freezer presumes finality of what it moves); such branches are still delivered as lighter side chains",
            "crash model = process death (abort): everything written reaches the OS; torn writes below RocksDB / the file system are C09's byte-prefix model",
            "the 60 s freezer timer and the stop flag are replaced by direct calls of the pass (hook); concurrent readers during a pass are not scheduled deterministically and are not covered",
            "MAX_FREEZE_LIMIT (30000 blocks per pass) is never binding on chains of this size: only the upper bound is checked",
            "the known part-getter defects (known_findings.json, one signature per getter) are tolerated so the search continues behind them",
        ],
        workers: |_| 8,
        watchdog_s: |t| t.pick(1500, 7200),
        run,
        replay,
    }
}

const MAX_FREEZE_LIMIT: u64 = 30_000;
const CHILD_ENV: &str = "VERIF_C10_CHILD";

// ------------------------------------------------------------------------------------------------
// cases
// ------------------------------------------------------------------------------------------------

#[derive(Clone, Debug, Serialize, Deserialize)]
pub struct Event {
    /// position selector: after which delivery the event happens
    pub at: u16,
    /// 0 freeze, 1 freeze twice in a row, 2 restart, 3 freeze then restart, 4 battery only
    pub kind: u8,
}

#[derive(Clone, Debug, Serialize, Deserialize)]
pub struct Case {
    /// epoch length in blocks (4..=8)
    pub l: u8,
    /// 0 => proposal window (1,2), 1 => (2,4)
    pub window: u8,
    pub plan: TreePlan,
    pub events: Vec<Event>,
    /// 1-entry store caches (cold reads) instead of the defaults
    pub small_cache: bool,
    /// run a freeze pass right after every reorg
    pub freeze_after_reorg: bool,
    /// 0 = whole battery; k > 0 = only getter number k is judged (replay files of known findings)
    #[serde(default)]
    pub focus: u8,
    /// freezer data files of this many bytes (hook of ckb-freezer; 0 = the 2 GiB default): a
    /// roll-over every few blocks
    #[serde(default)]
    pub file_size: u32,
}

#[derive(Clone, Debug, Serialize, Deserialize)]
pub struct CrashCase {
    pub l: u8,
    pub window: u8,
    pub plan: TreePlan,
    pub small_cache: bool,
    /// a complete pass earlier in the history (the crashing pass then starts above 1)
    pub prior_pass: bool,
    /// blocks (of the creation order) kept back and imported after the recovery
    pub tail: u8,
    /// empty = every enumerated point; otherwise only this one (replay of a shrunk failure)
    #[serde(default)]
    pub only_point: String,
    #[serde(default)]
    pub file_size: u32,
}

fn spec_cfg(l: u8, window: u8) -> SpecCfg {
    let l = l.clamp(4, 8) as u64;
    SpecCfg {
        permanent_difficulty: true,
        genesis_epoch_length: l,
        epoch_duration_target: 8 * l,
        proposal_window: if window == 0 { (1, 2) } else { (2, 4) },
        ..SpecCfg::default()
    }
}

/// Plans of plan.rs with (a) no invalid blocks and (b) 0..3 "reorg gadgets" spliced in: a fork from
/// the block created d+1 steps ago (usually the tip's d-th ancestor) followed by d+1 steps that
/// extend the newest leaf, i.e. a side branch that overtakes the main chain by one block (reorg of
/// depth d).  With equal difficulty everywhere the base strategy alone almost never reorganises.
fn plan_strategy(l: u8, min_epochs: usize, max_epochs: usize) -> impl Strategy<Value = TreePlan> {
    let l = l as usize;
    let p = PlanParams {
        // ~25 % of the steps do not extend the main chain
        min_blocks: min_epochs * l * 4 / 3 + 2,
        max_blocks: max_epochs * l * 4 / 3 + 4,
        fork_pct: 25,
        tx_rate: 40,
        invalid_pct: 0,
        uncle_pct: 20,
        dao_pct: 0,
    };
    (
        tree_plan_strategy(p),
        proptest::collection::vec((any::<u16>(), 1u8..=3), 0..=3),
    )
        .prop_map(|(mut plan, gadgets)| {
            for s in &mut plan.steps {
                s.invalid = 0;
            }
            for (pos, d) in gadgets {
                let n = plan.steps.len();
                if n < 6 {
                    break;
                }
                // keep the first steps (the anchor's children) and splice after `at`
                let at = 3 + pick_idx(pos as u32, n - 3);
                let template = plan.steps[at - 1].clone();
                let mut g = vec![];
                // mode 2 picks among the 12 most recently created blocks: index 11 is the newest
                let back = d as u32; // fork from the block created `back` steps before the newest
                let sel = (((11 - back) as u64 * 65536).div_ceil(12)) as u16;
                g.push(BlockStep { parent_mode: 2, parent: sel, uncles: 0, ..template.clone() });
                for _ in 0..d {
                    g.push(BlockStep { parent_mode: 1, parent: u16::MAX, uncles: 0, new_txs: vec![], ..template.clone() });
                }
                let tail = plan.steps.split_off(at);
                plan.steps.extend(g);
                plan.steps.extend(tail);
            }
            plan
        })
}

pub fn case_strategy(max_epochs: usize) -> impl Strategy<Value = Case> {
    (4u8..=8, 0u8..2).prop_flat_map(move |(l, window)| {
        (
            plan_strategy(l, 4, max_epochs),
            proptest::collection::vec(
                (
                    any::<u16>(),
                    prop_oneof![4 => Just(0u8), 2 => Just(1u8), 2 => Just(2u8), 2 => Just(3u8), 1 => Just(4u8)],
                )
                    .prop_map(|(at, kind)| Event { at, kind }),
                2..8,
            ),
            any::<bool>(),
            prop_oneof![2 => Just(false), 1 => Just(true)],
            prop_oneof![2 => Just(0u32), 1 => Just(900u32), 1 => Just(2_000u32), 1 => Just(5_000u32)],
        )
            .prop_map(move |(plan, events, small_cache, freeze_after_reorg, file_size)| Case {
                l,
                window,
                plan,
                events,
                small_cache,
                freeze_after_reorg,
                focus: 0,
                file_size,
            })
    })
}

pub fn crash_case_strategy() -> impl Strategy<Value = CrashCase> {
    (4u8..=6, 0u8..2).prop_flat_map(move |(l, window)| {
        (
            plan_strategy(l, 5, 6),
            any::<bool>(),
            any::<bool>(),
            0u8..=10,
            prop_oneof![1 => Just(0u32), 1 => Just(900u32), 1 => Just(2_000u32), 1 => Just(5_000u32)],
        )
            .prop_map(move |(plan, small_cache, prior_pass, tail, file_size)| CrashCase {
                l,
                window,
                plan,
                small_cache,
                prior_pass,
                tail: l + 1 + tail % (l + 2),
                only_point: String::new(),
                file_size,
            })
    })
}

// ------------------------------------------------------------------------------------------------
// the query battery
// ------------------------------------------------------------------------------------------------

pub const GETTERS: [&str; 20] = [
    "",
    "get_block",
    "get_packed_block",
    "get_block_header",
    "get_block_body",
    "get_block_txs_hashes",
    "get_cellbase",
    "get_block_uncles",
    "get_block_proposal_txs_ids",
    "get_block_extension",
    "get_transaction",
    "get_transaction_info",
    "get_transaction_with_info",
    "get_ancestor",
    "get_block_number_hash",
    "get_block_ext",
    "get_cell",
    "get_cell_data",
    "data_loader.get_header",
    "data_loader.get_block_extension",
];

/// one disagreement between a getter and the model
#[derive(Clone, Debug)]
pub struct Mismatch {
    pub getter: usize,
    pub sig: String,
    pub detail: String,
}

struct Battery<'a> {
    out: Vec<Mismatch>,
    seen: BTreeSet<String>,
    view: &'a str,
    when: &'a str,
}

impl Battery<'_> {
    fn add(&mut self, getter: usize, class: &str, outcome: &str, detail: String) {
        let sig = format!("battery:{}:{}:{}", GETTERS[getter], class, outcome);
        if self.seen.insert(sig.clone()) {
            self.out.push(Mismatch {
                getter,
                sig,
                detail: format!("[{} / view {}] {}", self.when, self.view, detail),
            });
        }
    }
}

fn guarded<T>(f: impl FnOnce() -> T) -> Result<T, String> {
    catch_unwind(AssertUnwindSafe(f)).map_err(|p| {
        if let Some(s) = p.downcast_ref::<&str>() {
            s.to_string()
        } else if let Some(s) = p.downcast_ref::<String>() {
            s.clone()
        } else {
            "panic".to_string()
        }
    })
}

/// Compare every getter on every main-chain block of `tip`'s chain with the model.
/// `frozen` = first height that is not frozen (freezer.number()).
pub fn battery<S: ChainStore>(store: &S, tree: &Tree, tip: &H, frozen: u64, view: &str, when: &str) -> Vec<Mismatch> {
    let mut bt = Battery {
        out: vec![],
        seen: BTreeSet::new(),
        view,
        when,
    };
    let path = tree.path(tip);
    let loader = store.borrow_as_data_loader();
    for mb in &path {
        let h = &mb.hash;
        let n = mb.number;
        let b: &BlockView = &mb.block;
        let class = if n > 0 && n < frozen { "frozen-block" } else { "unfrozen-block" };
        let at = format!("main-chain block #{n} {h:#x} (frozen height {frozen}; key-value rows missing in this view: {:?})", rows_missing(store, b));
        macro_rules! call {
            ($g:expr, $e:expr) => {
                match guarded(|| $e) {
                    Ok(v) => Some(v),
                    Err(p) => {
                        bt.add($g, class, "panic", format!("{at}: panicked: {p}"));
                        None
                    }
                }
            };
        }
        // 1 get_block
        if let Some(r) = call!(1, store.get_block(h)) {
            match r {
                None => bt.add(1, class, "none", format!("{at}: get_block returned None")),
                Some(g) if g.data().as_slice() != b.data().as_slice() || g.hash() != *h => bt.add(
                    1,
                    class,
                    "wrong",
                    format!("{at}: get_block returned block {:#x} #{} with other content", g.hash(), g.number()),
                ),
                _ => {}
            }
        }
        // 2 get_packed_block
        if let Some(r) = call!(2, store.get_packed_block(h)) {
            match r {
                None => bt.add(2, class, "none", format!("{at}: get_packed_block returned None")),
                Some(g) if g.as_slice() != b.data().as_slice() => {
                    // header, uncles, proposals, extension as stored but not a single transaction?
                    let body_missing = g.transactions().is_empty()
                        && g.header().as_slice() == b.data().header().as_slice()
                        && g.uncles().as_slice() == b.data().uncles().as_slice()
                        && g.proposals().as_slice() == b.data().proposals().as_slice();
                    let ext_missing = g.count_extra_fields() == 0
                        && b.extension().is_some()
                        && g.header().as_slice() == b.data().header().as_slice()
                        && g.uncles().as_slice() == b.data().uncles().as_slice()
                        && g.proposals().as_slice() == b.data().proposals().as_slice()
                        && g.transactions().as_slice() == b.data().transactions().as_slice();
                    bt.add(
                        2,
                        class,
                        if body_missing {
                            "without-transactions"
                        } else if ext_missing {
                            "without-extension"
                        } else {
                            "wrong"
                        },
                        format!(
                            "{at}: get_packed_block returned {} bytes with {} transactions, the block has {} bytes and {} transactions",
                            g.as_slice().len(),
                            g.transactions().len(),
                            b.data().as_slice().len(),
                            b.transactions().len()
                        ),
                    )
                }
                _ => {}
            }
        }
        // 3 get_block_header
        if let Some(r) = call!(3, store.get_block_header(h)) {
            match r {
                None => bt.add(3, class, "none", format!("{at}: get_block_header returned None")),
                Some(g) if g.data().as_slice() != b.header().data().as_slice() || g.hash() != *h => {
                    bt.add(3, class, "wrong", format!("{at}: get_block_header returned another header"))
                }
                _ => {}
            }
        }
        // 4 get_block_body
        if let Some(g) = call!(4, store.get_block_body(h)) {
            let want = b.transactions();
            if g.is_empty() && !want.is_empty() {
                bt.add(4, class, "empty", format!("{at}: get_block_body returned no transaction, the block has {}", want.len()));
            } else if g.len() != want.len()
                || g.iter().zip(want.iter()).any(|(x, y)| x.data().as_slice() != y.data().as_slice() || x.hash() != y.hash())
            {
                bt.add(4, class, "wrong", format!("{at}: get_block_body returned {} transactions, expected {}", g.len(), want.len()));
            }
        }
        // 5 get_block_txs_hashes
        if let Some(g) = call!(5, store.get_block_txs_hashes(h)) {
            let want: Vec<packed::Byte32> = b.transactions().iter().map(|t| t.hash()).collect();
            if g.is_empty() && !want.is_empty() {
                bt.add(5, class, "empty", format!("{at}: get_block_txs_hashes returned no hash, the block has {}", want.len()));
            } else if g != want {
                bt.add(5, class, "wrong", format!("{at}: get_block_txs_hashes returned {} hashes, expected {}", g.len(), want.len()));
            }
        }
        // 6 get_cellbase
        if let Some(r) = call!(6, store.get_cellbase(h)) {
            match r {
                None => bt.add(6, class, "none", format!("{at}: get_cellbase returned None")),
                Some(g) if g.data().as_slice() != b.transactions()[0].data().as_slice() => {
                    bt.add(6, class, "wrong", format!("{at}: get_cellbase returned another transaction"))
                }
                _ => {}
            }
        }
        // 7 get_block_uncles
        if let Some(r) = call!(7, store.get_block_uncles(h)) {
            match r {
                None => bt.add(7, class, "none", format!("{at}: get_block_uncles returned None ({} uncles in the block)", b.uncles().data().len())),
                Some(g) if g.data().as_slice() != b.uncles().data().as_slice() => {
                    bt.add(7, class, "wrong", format!("{at}: get_block_uncles returned {} uncles, expected {}", g.data().len(), b.uncles().data().len()))
                }
                _ => {}
            }
        }
        // 8 get_block_proposal_txs_ids
        if let Some(r) = call!(8, store.get_block_proposal_txs_ids(h)) {
            match r {
                None => bt.add(8, class, "none", format!("{at}: get_block_proposal_txs_ids returned None ({} proposals in the block)", b.data().proposals().len())),
                Some(g) if g.as_slice() != b.data().proposals().as_slice() => {
                    bt.add(8, class, "wrong", format!("{at}: get_block_proposal_txs_ids returned {} ids, expected {}", g.len(), b.data().proposals().len()))
                }
                _ => {}
            }
        }
        // 9 get_block_extension
        if let Some(g) = call!(9, store.get_block_extension(h)) {
            let want = b.extension();
            match (&g, &want) {
                (None, Some(w)) => bt.add(9, class, "none", format!("{at}: get_block_extension returned None, the block has a {}-byte extension", w.raw_data().len())),
                (a, w) if a.as_ref().map(|x| x.as_slice().to_vec()) != w.as_ref().map(|x| x.as_slice().to_vec()) => {
                    bt.add(9, class, "wrong", format!("{at}: get_block_extension returned another value"))
                }
                _ => {}
            }
        }
        // 19 data loader: extension as the load_block_extension syscall sees it
        if let Some(g) = call!(19, ExtensionProvider::get_block_extension(&loader, h)) {
            let want = b.extension();
            match (&g, &want) {
                (None, Some(w)) => bt.add(19, class, "none", format!("{at}: ExtensionProvider::get_block_extension returned None, the block has a {}-byte extension (load_block_extension would fail with ITEM_MISSING)", w.raw_data().len())),
                (a, w) if a.as_ref().map(|x| x.as_slice().to_vec()) != w.as_ref().map(|x| x.as_slice().to_vec()) => {
                    bt.add(19, class, "wrong", format!("{at}: ExtensionProvider::get_block_extension returned another value"))
                }
                _ => {}
            }
        }
        // 18 data loader: header
        if let Some(r) = call!(18, HeaderProvider::get_header(&loader, h)) {
            match r {
                None => bt.add(18, class, "none", format!("{at}: HeaderProvider::get_header returned None")),
                Some(g) if g.data().as_slice() != b.header().data().as_slice() => {
                    bt.add(18, class, "wrong", format!("{at}: HeaderProvider::get_header returned another header"))
                }
                _ => {}
            }
        }
        // 10..12 transactions with their location
        for (i, tx) in b.transactions().iter().enumerate() {
            let th = tx.hash();
            let txat = format!("{at} tx {i} {th:#x}");
            if let Some(r) = call!(10, store.get_transaction(&th)) {
                match r {
                    None => bt.add(10, class, "none", format!("{txat}: get_transaction returned None")),
                    Some((g, bh)) if g.data().as_slice() != tx.data().as_slice() || bh != *h => {
                        bt.add(10, class, "wrong", format!("{txat}: get_transaction returned tx {:#x} in block {bh:#x}", g.hash()))
                    }
                    _ => {}
                }
            }
            if let Some(r) = call!(11, store.get_transaction_info(&th)) {
                match r {
                    None => bt.add(11, class, "none", format!("{txat}: get_transaction_info returned None")),
                    Some(g) if g.block_hash != *h || g.block_number != n || g.block_epoch != b.epoch() || g.index != i => bt.add(
                        11,
                        class,
                        "wrong",
                        format!("{txat}: get_transaction_info returned block {:#x} #{} epoch {} index {}", g.block_hash, g.block_number, g.block_epoch, g.index),
                    ),
                    _ => {}
                }
            }
            if let Some(r) = call!(12, store.get_transaction_with_info(&th)) {
                match r {
                    None => bt.add(12, class, "none", format!("{txat}: get_transaction_with_info returned None")),
                    Some((g, info))
                        if g.data().as_slice() != tx.data().as_slice()
                            || g.hash() != th
                            || info.block_hash != *h
                            || info.block_number != n
                            || info.index != i =>
                    {
                        bt.add(12, class, "wrong", format!("{txat}: get_transaction_with_info returned tx {:#x} at block {:#x} index {}", g.hash(), info.block_hash, info.index))
                    }
                    _ => {}
                }
            }
        }
        // 13 get_ancestor: from the tip down to this block, and from this block to its parent
        if let Some(r) = call!(13, store.get_ancestor(tip, n)) {
            match r {
                Some(g) if g.hash() == *h => {}
                other => bt.add(13, class, if other.is_none() { "none" } else { "wrong" }, format!("{at}: get_ancestor(tip, {n}) returned {:?}", other.map(|x| x.hash()))),
            }
        }
        if n > 0 {
            if let Some(r) = call!(13, store.get_ancestor(h, n - 1)) {
                match r {
                    Some(g) if g.hash() == mb.parent => {}
                    other => bt.add(13, class, if other.is_none() { "none" } else { "wrong" }, format!("{at}: get_ancestor(block, {}) returned {:?}", n - 1, other.map(|x| x.hash()))),
                }
            }
        }
        // 14 number <-> hash
        if let Some(r) = call!(14, (store.get_block_number(h), store.get_block_hash(n), store.is_main_chain(h))) {
            if r.0 != Some(n) || r.1.as_ref() != Some(h) || !r.2 {
                bt.add(14, class, "wrong", format!("{at}: get_block_number {:?}, get_block_hash {:?}, is_main_chain {}", r.0, r.1, r.2));
            }
        }
        // 15 block ext
        if let Some(r) = call!(15, store.get_block_ext(h)) {
            match r {
                None => bt.add(15, class, "none", format!("{at}: get_block_ext returned None")),
                Some(e) if e.total_difficulty != mb.td || e.verified != Some(true) => {
                    bt.add(15, class, "wrong", format!("{at}: get_block_ext returned td {:#x} verified {:?}", e.total_difficulty, e.verified))
                }
                _ => {}
            }
        }
    }
    // 16/17 live cells of the tip state (cells created by frozen blocks included)
    let tipb = tree.get(tip);
    for (k, c) in tipb.state.live.iter() {
        let op = out_point_of(k);
        let class = if c.block_number > 0 && c.block_number < frozen { "frozen-block" } else { "unfrozen-block" };
        let at = format!("live cell {op} created by block #{} (frozen height {frozen})", c.block_number);
        match guarded(|| store.get_cell(&op)) {
            Err(p) => bt.add(16, class, "panic", format!("{at}: panicked: {p}")),
            Ok(None) => bt.add(16, class, "none", format!("{at}: get_cell returned None")),
            Ok(Some(m)) => {
                let ti = m.transaction_info.as_ref();
                let ok = m.cell_output.as_slice() == c.output.as_slice()
                    && m.data_bytes == c.data.len() as u64
                    && ti.map(|t| t.block_number) == Some(c.block_number)
                    && ti.map(|t| t.block_hash.clone()) == Some(c.block_hash.clone())
                    && ti.map(|t| t.block_epoch.full_value()) == Some(c.block_epoch)
                    && ti.map(|t| t.index) == Some(c.tx_index as usize);
                if !ok {
                    bt.add(16, class, "wrong", format!("{at}: get_cell returned {:?} / data_bytes {}", ti, m.data_bytes));
                }
            }
        }
        match guarded(|| store.get_cell_data(&op)) {
            Err(p) => bt.add(17, class, "panic", format!("{at}: panicked: {p}")),
            Ok(None) => bt.add(17, class, "none", format!("{at}: get_cell_data returned None")),
            Ok(Some((d, dh))) => {
                let want_hash = if c.data.is_empty() { packed::Byte32::zero() } else { CellOutput::calc_data_hash(&c.data) };
                if d != c.data || dh != want_hash {
                    bt.add(17, class, "wrong", format!("{at}: get_cell_data returned {} bytes hash {dh:#x}", d.len()));
                }
            }
        }
    }
    bt.out
}

/// filter the battery's findings through the known-findings list; `focus` restricts the judged
/// getter (0 = all)
struct Judge {
    known: Vec<String>,
    strict: bool,
    focus: u8,
}

impl Judge {
    fn new(ctx: &Ctx, focus: u8) -> Judge {
        Judge {
            known: ctx.known.iter().filter(|k| k.status == "known").map(|k| k.signature.clone()).collect(),
            // VERIF_C10_LENIENT=1: development aid, replay a saved case looking behind the known findings
            strict: ctx.strict && std::env::var_os("VERIF_C10_LENIENT").is_none(),
            focus,
        }
    }
    fn tolerates(&self, sig: &str) -> bool {
        !self.strict && self.known.iter().any(|k| k == sig)
    }
    fn judge(&self, ms: Vec<Mismatch>, st: &mut Stats, hit: &mut BTreeSet<String>) -> Verdict {
        for m in ms {
            if self.focus != 0 && m.getter != self.focus as usize {
                continue;
            }
            if !self.strict && self.known.contains(&m.sig) {
                hit.insert(m.sig);
                continue;
            }
            let _ = st;
            return Err(Violation::new(m.sig, m.detail));
        }
        Ok(())
    }
}

// ------------------------------------------------------------------------------------------------
// driving a node
// ------------------------------------------------------------------------------------------------

fn store_cfg(small: bool) -> Option<StoreConfig> {
    if small {
        let mut c = StoreConfig::default();
        c.header_cache_size = 1;
        c.cell_data_cache_size = 1;
        c.block_proposals_cache_size = 1;
        c.block_tx_hashes_cache_size = 1;
        c.block_uncles_cache_size = 1;
        c.block_extensions_cache_size = 1;
        Some(c)
    } else {
        None
    }
}

fn start_node(env: &Env, dir: &Path, small: bool) -> Result<Node, Violation> {
    // Freezer::open expects its directory to exist (the launcher creates it)
    std::fs::create_dir_all(dir.join("ancient")).map_err(|e| Violation::new("harness:io", e.to_string()))?;
    Node::start(
        env,
        NodeCfg {
            dir: Some(dir.to_path_buf()),
            store: store_cfg(small),
            freezer: true,
            ..Default::default()
        },
    )
    .map_err(|e| Violation::new("harness:node-start", e))
}

fn frozen_number(node: &Node) -> u64 {
    node.shared.store().freezer().map(|f| f.number()).unwrap_or(0)
}

/// the clock every node of a case runs under: later than every generated timestamp (nothing is
/// "too new") and within MAX_TIP_AGE of all of them (so `is_initial_block_download` is false)
fn case_clock(built: &Built) -> u64 {
    built.blocks.iter().map(|h| built.tree.get(h).block.timestamp()).max().unwrap_or(0) + 10_000
}

fn epoch_of(tree: &Tree, h: &H) -> u64 {
    tree.get(h).epoch.number()
}

/// the model of what the node holds
struct World<'a> {
    tree: &'a Tree,
    tip: H,
    /// blocks handed to the node and accepted, in delivery order
    delivered: Vec<H>,
    /// blocks not delivered (excluded by construction) — their descendants are skipped too
    skipped: BTreeSet<[u8; 32]>,
    /// first unfrozen height as reported after the last pass
    frozen: u64,
    far: u64,
    max_reorg: u64,
    reorgs: u64,
}

impl<'a> World<'a> {
    fn new(tree: &'a Tree, frozen: u64) -> Self {
        World {
            tree,
            tip: tree.genesis.clone(),
            delivered: vec![],
            skipped: BTreeSet::new(),
            frozen,
            far: tree.window().1,
            max_reorg: 0,
            reorgs: 0,
        }
    }

    fn on_main(&self, h: &H) -> bool {
        self.tree.is_ancestor(h, &self.tip)
    }

    /// may `h` be delivered now?  (None = yes, Some(label) = excluded by construction)
    fn excluded(&self, h: &H) -> Option<&'static str> {
        let b = self.tree.get(h);
        if self.skipped.contains(&h32(&b.parent)) {
            return Some("excluded:ancestor-not-delivered");
        }
        let p = self.tree.get(&b.parent);
        // An ancestor that is a side block at a frozen height may have been wiped: the branch dangles
        // (extending it makes the header check of the submit pipeline walk into the deleted header).
        let mut a = p;
        while a.number > 0 && !self.on_main(&a.hash) {
            if a.number < self.frozen {
                return Some("excluded:side-ancestor-at-frozen-height");
            }
            a = self.tree.get(&a.parent);
        }
        if b.td > self.tree.get(&self.tip).td && b.parent != self.tip {
            // a reorg: where does the branch leave the main chain?
            let mut a = p;
            while !self.on_main(&a.hash) {
                a = self.tree.get(&a.parent);
            }
            if self.frozen > 1 && a.number < self.frozen + self.far {
                return Some("excluded:reorg-through-frozen-heights");
            }
        }
        None
    }

    /// returns true when the delivery reorganised the chain
    fn accept(&mut self, h: &H) -> bool {
        let b = self.tree.get(h);
        self.delivered.push(h.clone());
        let mut reorg = false;
        if b.td > self.tree.get(&self.tip).td {
            if b.parent != self.tip {
                let mut a = self.tree.get(&self.tip);
                let mut depth = 0;
                while !self.tree.is_ancestor(&a.hash, h) {
                    depth += 1;
                    a = self.tree.get(&a.parent);
                }
                self.max_reorg = self.max_reorg.max(depth);
                self.reorgs += 1;
                reorg = true;
            }
            self.tip = h.clone();
        }
        reorg
    }
}

fn deliver(node: &Node, w: &mut World, h: &H, st: &mut Stats) -> Result<Option<bool>, Violation> {
    if let Some(l) = w.excluded(h) {
        st.label(l);
        w.skipped.insert(h32(h));
        return Ok(None);
    }
    let b = w.tree.get(h);
    let r = guarded(|| node.submit(&b.block));
    node_panic_violation()?;
    match r {
        Ok(Ok(_)) => {}
        Ok(Err(e)) => {
            let sig = if w.frozen > 1 { "import:model-valid-block-refused-after-freezing" } else { "import:model-valid-block-refused" };
            return Err(Violation::new(sig, format!("block #{} {:#x} (frozen height {}): {e}", b.number, b.hash, w.frozen)));
        }
        Err(p) => {
            return Err(Violation::new(
                "import:panicked-after-freezing",
                format!("submitting block #{} {:#x} (frozen height {}) panicked: {p}", b.number, b.hash, w.frozen),
            ));
        }
    }
    let reorg = w.accept(h);
    if std::env::var_os("VERIF_C10_TRACE").is_some() {
        eprintln!("TRACE commits={} delivered #{} {:#x} parent #{} main={} reorg={reorg} uncles={:?}", ckb_db::verif_hook::commit_count(), b.number, b.hash, w.tree.get(&b.parent).number, w.on_main(h), b.block.uncles().data().into_iter().map(|u| format!("{:#x}", u.header().calc_header_hash())).collect::<Vec<_>>());
        for n in 1..w.frozen {
            let mb = w.tree.ancestor(&w.tip, n).unwrap();
            let m = rows_missing(node.shared.store(), &mb.block);
            if !m.contains(&"body") {
                eprintln!("TRACE   frozen #{n} {:#x} has rows again (missing {:?})", mb.hash, m);
            }
        }
    }
    let tip = node.tip_hash();
    if tip != w.tip {
        let sig = if w.frozen > 1 { "import:tip-differs-from-model-after-freezing" } else { "import:tip-differs-from-model" };
        return Err(Violation::new(
            sig,
            format!("after block #{} the node's tip is {:#x}, the model's {:#x} (frozen height {})", b.number, tip, w.tip, w.frozen),
        ));
    }
    Ok(Some(reorg))
}

/// raw key-value presence of a block's rows (no cache, no freezer)
fn rows_missing<S: ChainStore>(store: &S, b: &BlockView) -> Vec<&'static str> {
    let h = b.hash();
    let mut m = vec![];
    if store.get(COLUMN_BLOCK_HEADER, h.as_slice()).is_none() {
        m.push("header");
    }
    if store.get(COLUMN_BLOCK_UNCLE, h.as_slice()).is_none() {
        m.push("uncles");
    }
    if store.get(COLUMN_BLOCK_PROPOSAL_IDS, h.as_slice()).is_none() {
        m.push("proposals");
    }
    if b.extension().is_some() && store.get(COLUMN_BLOCK_EXTENSION, h.as_slice()).is_none() {
        m.push("extension");
    }
    let nh = packed::NumberHash::new_builder().number(b.number()).block_hash(h.clone()).build();
    if store.get(COLUMN_NUMBER_HASH, nh.as_slice()).is_none() {
        m.push("number-hash");
    }
    for i in 0..b.transactions().len() {
        let k = packed::TransactionKey::new_builder().block_hash(h.clone()).index(i as u32).build();
        if store.get(COLUMN_BLOCK_BODY, k.as_slice()).is_none() {
            m.push("body");
            break;
        }
    }
    if store.get(COLUMN_BLOCK_EXT, h.as_slice()).is_none() {
        m.push("block-ext");
    }
    m
}

#[derive(Default)]
struct Seen {
    frozen_blocks: u64,
    side_at_frozen_height: u64,
    side_wiped: u64,
    passes_that_froze: u64,
    restarts_after_freeze: u64,
    twice: u64,
    after_reorg: u64,
    known: BTreeSet<String>,
}

/// WHAT MOVED / WHAT WAS DELETED, checked against the model after a pass (or after a reopen)
fn check_moved(node: &Node, w: &World, f0: u64, f1: u64, pass_epoch: Option<u64>, _st: &mut Stats, seen: &mut Seen, when: &str) -> Verdict {
    let tree = w.tree;
    let store = node.shared.store();
    let freezer = store.freezer().expect("freezer enabled");
    if f1 < f0 {
        vfail!("moved:frozen-number-decreased", "{when}: freezer.number() went {f0} -> {f1}");
    }
    if f1 - f0 > MAX_FREEZE_LIMIT {
        vfail!("moved:more-than-the-per-pass-limit", "{when}: one pass froze {} blocks", f1 - f0);
    }
    let tipn = tree.get(&w.tip).number;
    if f1 > tipn + 1 {
        vfail!("moved:frozen-number-beyond-tip", "{when}: freezer.number() = {f1}, tip #{tipn}");
    }
    // threshold: every block moved by this pass belongs to an epoch <= current - 2
    if let Some(e) = pass_epoch {
        for n in f0.max(1)..f1 {
            let mb = tree.ancestor(&w.tip, n).expect("main chain block");
            if mb.epoch.number() + 2 > e {
                vfail!(
                    "moved:block-younger-than-two-epoch-threshold",
                    "{when}: block #{n} of epoch {} was frozen while the tip is in epoch {e} (blocks {f0}..{f1} moved)",
                    mb.epoch.number()
                );
            }
        }
    }
    // contiguity + content: 1..f1 are the main-chain blocks, f1 is absent
    for n in 1..f1 {
        let mb = tree.ancestor(&w.tip, n).expect("main chain block");
        match guarded(|| freezer.retrieve(n)) {
            Ok(Ok(Some(raw))) => {
                if raw.as_slice() != mb.block.data().as_slice() {
                    vfail!("moved:frozen-item-is-not-the-main-chain-block", "{when}: freezer item {n} ({} bytes) is not main-chain block #{n} {:#x}", raw.len(), mb.hash);
                }
            }
            other => vfail!("moved:frozen-range-not-contiguous", "{when}: freezer.retrieve({n}) below number {f1} returned {:?}", other.map(|r| r.map(|o| o.map(|v| v.len())).map_err(|e| e.to_string()))),
        }
    }
    match guarded(|| freezer.retrieve(f1)) {
        Ok(Ok(None)) => {}
        other => vfail!("moved:item-at-frozen-number-exists", "{when}: freezer.retrieve({f1}) returned {:?}", other.map(|r| r.map(|o| o.map(|v| v.len())).map_err(|e| e.to_string()))),
    }
    // what was deleted
    let mut side_frozen = 0u64;
    let mut side_wiped = 0u64;
    for h in &w.delivered {
        let mb = tree.get(h);
        let missing = rows_missing(store, &mb.block);
        let main = w.on_main(h);
        if main && mb.number >= f1 {
            if !missing.is_empty() {
                vfail!(
                    format!("wiped:rows-of-unfrozen-main-chain-block:{}", missing[0]),
                    "{when}: main-chain block #{} {:#x} is not frozen (frozen height {f1}) but its {:?} rows are gone",
                    mb.number,
                    mb.hash,
                    missing
                );
            }
        } else if main {
            for keep in ["header", "block-ext"] {
                if missing.contains(&keep) {
                    vfail!(
                        format!("wiped:{keep}-of-frozen-main-chain-block"),
                        "{when}: frozen main-chain block #{} {:#x}: the {keep} row is gone (rows missing: {:?})",
                        mb.number,
                        mb.hash,
                        missing
                    );
                }
            }
        } else if mb.number >= f1 {
            if !missing.is_empty() {
                vfail!(
                    format!("wiped:rows-of-side-block-above-frozen-height:{}", missing[0]),
                    "{when}: side block #{} {:#x} is above the frozen height {f1} but its {:?} rows are gone",
                    mb.number,
                    mb.hash,
                    missing
                );
            }
        } else {
            side_frozen += 1;
            if missing.contains(&"header") {
                side_wiped += 1;
            }
        }
    }
    seen.frozen_blocks = seen.frozen_blocks.max(f1.saturating_sub(1));
    seen.side_at_frozen_height = seen.side_at_frozen_height.max(side_frozen);
    seen.side_wiped = seen.side_wiped.max(side_wiped);
    Ok(())
}

fn run_battery(node: &Node, w: &World, judge: &Judge, st: &mut Stats, seen: &mut Seen, old: Option<&ckb_snapshot::Snapshot>, when: &str) -> Verdict {
    let frozen = frozen_number(node);
    let mut hit = BTreeSet::new();
    let ms = battery(node.shared.store(), w.tree, &w.tip, frozen, "store", when);
    judge.judge(ms, st, &mut hit)?;
    let snap = node.shared.cloned_snapshot();
    if snap.tip_hash() == w.tip {
        let ms = battery(snap.as_ref(), w.tree, &w.tip, frozen, "snapshot", when);
        judge.judge(ms, st, &mut hit)?;
    }
    if let Some(o) = old {
        // a reader that took its snapshot before the pass: old key-value view, new freezer
        let otip = o.tip_hash();
        if w.on_main(&otip) {
            let ms = battery(o, w.tree, &otip, frozen, "snapshot-taken-before-the-pass", when);
            judge.judge(ms, st, &mut hit)?;
        }
    }
    // get_block(h) returns the block with hash h or nothing — also for side blocks that are still
    // stored at a frozen height (arrived after their height was frozen, or a crash before the side
    // deletion)
    let store = node.shared.store();
    let mut ms = vec![];
    for h in &w.delivered {
        let mb = w.tree.get(h);
        if mb.number == 0 || mb.number >= frozen || w.on_main(h) || store.get(COLUMN_BLOCK_HEADER, h.as_slice()).is_none() {
            continue;
        }
        st.label("side-block-kept-at-frozen-height:queried");
        match guarded(|| store.get_block(h)) {
            Ok(Some(g)) if g.hash() != *h => {
                ms.push(Mismatch {
                    getter: 1,
                    sig: "get_block:side-block-stored-at-frozen-height:returns-the-main-chain-block".to_string(),
                    detail: format!(
                        "[{when}] side block #{} {:#x} is stored (header row present) at a height below the frozen height {frozen}: get_block(its hash) returned main-chain block {:#x}",
                        mb.number,
                        mb.hash,
                        g.hash()
                    ),
                });
                break;
            }
            Err(p) => {
                ms.push(Mismatch {
                    getter: 1,
                    sig: "get_block:side-block-stored-at-frozen-height:panic".to_string(),
                    detail: format!("[{when}] side block #{} {:#x}: get_block panicked: {p}", mb.number, mb.hash),
                });
                break;
            }
            _ => {}
        }
    }
    judge.judge(ms, st, &mut hit)?;
    seen.known.extend(hit);
    node_panic_violation()
}

fn pass_panic_signature(msg: &str) -> String {
    let m: String = msg.chars().take(60).map(|c| if c.is_ascii_alphanumeric() || c == '_' { c } else { '-' }).collect();
    format!("freeze:pass-panicked:{m}")
}

/// diagnosis for a pass that died: where does the epoch-number index the pass consults point?
fn epoch_index_note(node: &Node, w: &World, tip_epoch: u64) -> String {
    if tip_epoch < 2 {
        return String::new();
    }
    let store = node.shared.store();
    let r = guarded(|| {
        let idx = store.get_epoch_index(tip_epoch - 1)?;
        let ext = store.get_epoch_ext(&idx)?;
        Some(ext.last_block_hash_in_previous_epoch())
    });
    match r {
        Ok(Some(h)) => {
            let on_main = w.tree.blocks.contains_key(&h) && w.on_main(&h);
            format!(
                "get_epoch_index({}) leads to an epoch whose last_block_hash_in_previous_epoch is {h:#x}, which is {} the main chain",
                tip_epoch - 1,
                if on_main { "on" } else { "NOT on" }
            )
        }
        other => format!("get_epoch_index({}) -> {:?}", tip_epoch - 1, other.map(|o| o.is_some())),
    }
}

/// one freeze pass with its oracle; returns (number before, number after)
fn freeze_pass(node: &Node, w: &mut World, judge: &Judge, st: &mut Stats, seen: &mut Seen, when: &str) -> Result<(u64, u64), Violation> {
    let f0 = frozen_number(node);
    let before = node.shared.cloned_snapshot();
    if before.tip_hash() != w.tip {
        return Err(Violation::new("harness:snapshot-not-at-tip", format!("{when}: snapshot tip {:#x}", before.tip_hash())));
    }
    let e = epoch_of(w.tree, &w.tip);
    match guarded(|| node.shared.verif_freeze_once()) {
        Ok(Ok(())) => {}
        Ok(Err(err)) => return Err(Violation::new("freeze:pass-returned-error", format!("{when}: tip #{} epoch {e}, frozen height {f0}: {err}", w.tree.get(&w.tip).number))),
        Err(p) => {
            let sig = pass_panic_signature(&p);
            let detail = format!(
                "{when}: the freeze pass panicked with \"{p}\" (tip #{} epoch {e}, frozen height {f0}); {}",
                w.tree.get(&w.tip).number,
                epoch_index_note(node, w, e)
            );
            if judge.tolerates(&sig) {
                // known: the pass died before it touched the freezer; the search goes on without it
                seen.known.insert(sig);
                st.label("pass:known-panic-tolerated");
                return Ok((f0, f0));
            }
            return Err(Violation::new(sig, detail));
        }
    }
    let f1 = frozen_number(node);
    if std::env::var_os("VERIF_C10_TRACE").is_some() {
        eprintln!("TRACE commits={} {when}: pass {f0} -> {f1}, tip #{} epoch {e}", ckb_db::verif_hook::commit_count(), w.tree.get(&w.tip).number);
        for n in 1..f1 {
            let mb = w.tree.ancestor(&w.tip, n).unwrap();
            eprintln!("TRACE   #{n} {:#x} rows missing {:?}", mb.hash, rows_missing(node.shared.store(), &mb.block));
        }
    }
    w.frozen = f1.max(w.frozen);
    if f1 > f0 {
        seen.passes_that_froze += 1;
        st.label("pass:froze-blocks");
    } else if e <= 2 {
        st.label("pass:idle-epoch<=2");
    } else {
        st.label("pass:nothing-new-to-freeze");
    }
    check_moved(node, w, f0, f1, Some(e), st, seen, when)?;
    run_battery(node, w, judge, st, seen, Some(before.as_ref()), when)?;
    Ok((f0, f1))
}

/// freezer data-file size for this case (read by the ckb-freezer hook in this process and in the
/// crash / recovery children, which inherit the environment)
fn set_file_size(size: u32, st: &mut Stats) {
    // SAFETY: called between cases, when no node of this process is running
    unsafe {
        if size == 0 {
            std::env::remove_var("VERIF_FREEZER_MAX_FILE_SIZE");
        } else {
            std::env::set_var("VERIF_FREEZER_MAX_FILE_SIZE", size.to_string());
        }
    }
    st.label(if size == 0 { "cfg:freezer-default-file-size" } else { "cfg:freezer-small-data-files" });
}

fn prop(case: &Case, st: &mut Stats, judge: &Judge) -> Verdict {
    set_file_size(case.file_size, st);
    let cfg = spec_cfg(case.l, case.window);
    let env = build_env(&cfg);
    let built = Interp::new(&env).run(&case.plan);
    if built.blocks.len() < 4 {
        return Ok(());
    }
    for (k, v) in &built.labels {
        st.label_n(k, *v);
    }
    install_panic_recorder();
    clear_panics();
    let clock = ckb_systemtime::faketime();
    clock.set_faketime(case_clock(&built));
    let tmp = scratch("c10-");
    let dir = tmp.path().join("node");
    let mut node = start_node(&env, &dir, case.small_cache)?;
    if node.shared.is_initial_block_download() {
        return Err(Violation::new("harness:ibd-not-finished", "clock setting left the node in IBD"));
    }
    let tree = &built.tree;
    let mut w = World::new(tree, frozen_number(&node));
    let mut seen = Seen::default();
    let n = built.blocks.len();
    let mut events: BTreeMap<usize, Vec<u8>> = BTreeMap::new();
    for e in &case.events {
        events.entry(pick_idx(e.at as u32, n)).or_default().push(e.kind);
    }
    // every history ends with: pass, restart, pass twice
    events.entry(n - 1).or_default().extend([0u8, 2, 1]);

    for (i, h) in built.blocks.iter().enumerate() {
        let reorg = deliver(&node, &mut w, h, st)?;
        let when = format!("after delivery {i} (#{})", tree.get(h).number);
        if reorg == Some(true) && case.freeze_after_reorg {
            seen.after_reorg += 1;
            freeze_pass(&node, &mut w, judge, st, &mut seen, &format!("{when}, pass right after a reorg"))?;
        }
        if i == 0 {
            // the answers before any freezing, against the model
            run_battery(&node, &w, judge, st, &mut seen, None, "before any freezing")?;
        }
        let Some(kinds) = events.get(&i) else { continue };
        for k in kinds {
            match k {
                0 => {
                    freeze_pass(&node, &mut w, judge, st, &mut seen, &format!("{when}, pass"))?;
                }
                1 => {
                    freeze_pass(&node, &mut w, judge, st, &mut seen, &format!("{when}, first of two passes"))?;
                    let (a, b) = freeze_pass(&node, &mut w, judge, st, &mut seen, &format!("{when}, second of two passes"))?;
                    if b != a {
                        vfail!("moved:second-pass-in-a-row-moved-blocks", "{when}: the second pass without any import in between moved {a} -> {b}");
                    }
                    seen.twice += 1;
                }
                2 | 3 => {
                    if *k == 3 {
                        freeze_pass(&node, &mut w, judge, st, &mut seen, &format!("{when}, pass before restart"))?;
                    } else {
                        run_battery(&node, &w, judge, st, &mut seen, None, &format!("{when}, before restart"))?;
                    }
                    let f_before = frozen_number(&node);
                    node.stop();
                    node = start_node(&env, &dir, case.small_cache)?;
                    let f_after = frozen_number(&node);
                    if f_after != f_before {
                        vfail!("restart:frozen-number-changed", "{when}: freezer.number() {f_before} before the restart, {f_after} after");
                    }
                    if node.tip_hash() != w.tip {
                        vfail!("restart:tip-changed", "{when}: tip after restart {:#x}, model {:#x}", node.tip_hash(), w.tip);
                    }
                    if f_after > 1 {
                        seen.restarts_after_freeze += 1;
                    }
                    check_moved(&node, &w, f_after, f_after, None, st, &mut seen, &format!("{when}, after restart"))?;
                    run_battery(&node, &w, judge, st, &mut seen, None, &format!("{when}, after restart"))?;
                }
                _ => {
                    run_battery(&node, &w, judge, st, &mut seen, None, &format!("{when}, battery"))?;
                }
            }
        }
    }
    node.stop();

    // accounting
    for s in &seen.known {
        *st.known_hits.entry(s.clone()).or_insert(0) += 1;
    }
    if seen.frozen_blocks >= 1 {
        st.label("case:>=1-block-frozen");
    }
    if seen.side_at_frozen_height >= 1 {
        st.label("case:side-block-at-frozen-height");
    }
    if seen.side_wiped >= 1 {
        st.label("case:side-block-wiped");
    }
    if seen.side_at_frozen_height > seen.side_wiped {
        st.label("case:side-block-at-frozen-height-kept(late-arrival)");
    }
    if seen.passes_that_froze >= 2 {
        st.label("case:>=2-passes-froze-blocks");
    }
    if seen.restarts_after_freeze >= 1 {
        st.label("case:restart-after-freezing");
    }
    if seen.twice >= 1 {
        st.label("case:two-passes-in-a-row");
    }
    if seen.after_reorg >= 1 {
        st.label("case:pass-right-after-reorg");
    }
    if w.max_reorg >= 2 {
        st.label("case:reorg-depth>=2");
    }
    if case.small_cache {
        st.label("case:1-entry-caches");
    }
    st.label(&format!("case:epoch-length-{}", case.l));
    if seen.frozen_blocks >= 1 && seen.side_at_frozen_height >= 1 {
        st.nontrivial(&serde_json::to_string(case).unwrap());
        if st.want_sample() {
            st.sample(|| {
                json!({"sub": "freeze-x-queries", "epoch_length": case.l, "window": case.window, "blocks": built.blocks.len(),
                    "delivered": w.delivered.len(), "tip_number": tree.get(&w.tip).number, "tip_epoch": epoch_of(tree, &w.tip),
                    "frozen_blocks": seen.frozen_blocks, "side_blocks_at_frozen_heights": seen.side_at_frozen_height,
                    "side_blocks_wiped": seen.side_wiped, "passes_that_froze": seen.passes_that_froze,
                    "restarts_after_freezing": seen.restarts_after_freeze, "reorgs": w.reorgs, "max_reorg_depth": w.max_reorg,
                    "events": case.events.iter().map(|e| (pick_idx(e.at as u32, n), e.kind)).collect::<Vec<_>>(),
                    "small_cache": case.small_cache})
            });
        }
    }
    Ok(())
}

// ------------------------------------------------------------------------------------------------
// crash enumeration (child processes)
// ------------------------------------------------------------------------------------------------

#[derive(Clone, Debug, Serialize, Deserialize)]
struct ChildJob {
    l: u8,
    window: u8,
    small_cache: bool,
    dir: String,
    now_ms: u64,
    /// fail-point of the freezer crate turned into an abort at its k-th evaluation inside the pass
    failpoint: Option<(String, u64)>,
    report: String,
}

#[derive(Clone, Debug, Default, Serialize, Deserialize)]
struct ChildReport {
    ok: bool,
    err: String,
    f_before: u64,
    f_after: u64,
}

fn append_line(path: &str, line: &str) {
    use std::io::Write;
    if let Ok(mut f) = std::fs::OpenOptions::new().create(true).append(true).open(path) {
        let _ = writeln!(f, "{line}");
    }
}

/// the child: open the directory, run one freeze pass (which may abort), report, exit
fn child_main(job_path: &str) -> ! {
    let job: ChildJob = serde_json::from_slice(&std::fs::read(job_path).expect("job file")).expect("job json");
    let clock = ckb_systemtime::faketime();
    clock.set_faketime(job.now_ms);
    let env = build_env(&spec_cfg(job.l, job.window));
    let node = match start_node(&env, Path::new(&job.dir), job.small_cache) {
        Ok(n) => n,
        Err(v) => {
            let rep = ChildReport { ok: false, err: format!("start: {}", v.detail), ..Default::default() };
            std::fs::write(&job.report, serde_json::to_vec(&rep).unwrap()).unwrap();
            std::process::exit(3);
        }
    };
    let log = std::env::var("VERIF_COMMIT_LOG").ok();
    let f_before = frozen_number(&node);
    if let Some((name, k)) = job.failpoint.clone() {
        let ctr = std::sync::Arc::new(std::sync::atomic::AtomicU64::new(0));
        let nm = name.clone();
        fail::cfg_callback(name, move || {
            if ctr.fetch_add(1, std::sync::atomic::Ordering::SeqCst) + 1 == k {
                eprintln!("verif: fail-point {nm} evaluation {k} reached, aborting");
                std::process::abort();
            }
        })
        .expect("cfg_callback");
    }
    if let Some(l) = &log {
        append_line(l, "# freeze-begin");
    }
    let r = guarded(|| node.shared.verif_freeze_once());
    if let Some(l) = &log {
        append_line(l, "# freeze-end");
    }
    let rep = ChildReport {
        ok: matches!(r, Ok(Ok(()))),
        err: match &r {
            Ok(Ok(())) => String::new(),
            Ok(Err(e)) => e.to_string(),
            Err(p) => format!("panic: {p}"),
        },
        f_before,
        f_after: frozen_number(&node),
    };
    std::fs::write(&job.report, serde_json::to_vec(&rep).unwrap()).unwrap();
    node.stop();
    std::process::exit(0);
}

fn copy_dir(from: &Path, to: &Path) -> std::io::Result<()> {
    std::fs::create_dir_all(to)?;
    for e in std::fs::read_dir(from)? {
        let e = e?;
        let p = e.path();
        let t = to.join(e.file_name());
        if e.file_type()?.is_dir() {
            copy_dir(&p, &t)?;
        } else {
            std::fs::copy(&p, &t)?;
        }
    }
    Ok(())
}

struct ChildOut {
    /// exited by itself with code 0
    clean: bool,
    /// killed by a signal (abort)
    signaled: bool,
    status: String,
    report: Option<ChildReport>,
    stderr_tail: String,
}

fn run_child(job: &ChildJob, work: &Path, tag: &str, envs: &[(&str, String)]) -> Result<ChildOut, Violation> {
    let job_path = work.join(format!("job-{tag}.json"));
    std::fs::write(&job_path, serde_json::to_vec(job).unwrap()).map_err(|e| Violation::new("harness:io", e.to_string()))?;
    let _ = std::fs::remove_file(&job.report);
    let exe = std::env::current_exe().map_err(|e| Violation::new("harness:io", e.to_string()))?;
    let errp = work.join(format!("child-{tag}.err"));
    let errf = std::fs::File::create(&errp).map_err(|e| Violation::new("harness:io", e.to_string()))?;
    let mut cmd = Command::new(exe);
    cmd.arg("C10")
        .arg("--worker")
        .arg("0/1")
        .arg("--out")
        .arg(work.join(format!("child-{tag}.out")))
        .env(CHILD_ENV, &job_path)
        .env_remove("VERIF_CRASH_AT")
        .env_remove("VERIF_COMMIT_LOG")
        .stdin(Stdio::null())
        .stdout(Stdio::null())
        .stderr(Stdio::from(errf));
    for (k, v) in envs {
        cmd.env(k, v);
    }
    let mut child = cmd.spawn().map_err(|e| Violation::new("harness:spawn", e.to_string()))?;
    let start = std::time::Instant::now();
    let status = loop {
        match child.try_wait() {
            Ok(Some(s)) => break s,
            Ok(None) => {
                if start.elapsed() > std::time::Duration::from_secs(120) {
                    let _ = child.kill();
                    let _ = child.wait();
                    return Err(Violation::new("harness:child-timeout", format!("child {tag} did not finish in 120 s")));
                }
                std::thread::sleep(std::time::Duration::from_millis(5));
            }
            Err(e) => return Err(Violation::new("harness:wait", e.to_string())),
        }
    };
    let report = std::fs::read(&job.report).ok().and_then(|b| serde_json::from_slice(&b).ok());
    let err = std::fs::read_to_string(&errp).unwrap_or_default();
    let tail: Vec<&str> = err.lines().rev().take(6).collect();
    Ok(ChildOut {
        clean: status.success(),
        signaled: status.code().is_none(),
        status: format!("{status}"),
        report,
        stderr_tail: tail.into_iter().rev().collect::<Vec<_>>().join(" | "),
    })
}

/// commits of the pass, from the dry run's commit log: (index, kind)
fn commits_in_pass(log: &str) -> Vec<(u64, String)> {
    let mut inside = false;
    let mut v = vec![];
    for line in log.lines() {
        if line.starts_with("# freeze-begin") {
            inside = true;
        } else if line.starts_with("# freeze-end") {
            inside = false;
        } else if inside && !line.starts_with('#') {
            let mut it = line.split_whitespace();
            if let (Some(n), Some(kind)) = (it.next().and_then(|x| x.parse::<u64>().ok()), it.next()) {
                v.push((n, kind.to_string()));
            }
        }
    }
    v
}

/// recovery oracle: reopen `dir`, battery, next pass reaches `f_ref`, tail imports + pass reach `f_final_ref`
#[allow(clippy::too_many_arguments)]
fn recover_and_continue(
    env: &Env,
    dir: &Path,
    small: bool,
    built: &Built,
    delivered_prefix: &[H],
    skipped: &BTreeSet<[u8; 32]>,
    tip: &H,
    tail_blocks: &[H],
    f_ref: Option<u64>,
    f_final_ref: Option<u64>,
    judge: &Judge,
    st: &mut Stats,
    seen: &mut Seen,
    point: &str,
) -> Result<(u64, u64, u64), Violation> {
    clear_panics();
    let node = match guarded(|| start_node(env, dir, small)) {
        Ok(Ok(n)) => n,
        Ok(Err(v)) => return Err(Violation::new("crash:reopen-failed", format!("{point}: the directory cannot be opened after the crash: {}", v.detail))),
        Err(p) => return Err(Violation::new("crash:reopen-panicked", format!("{point}: opening the directory after the crash panicked: {p}"))),
    };
    let f_crash = frozen_number(&node);
    let mut w = World::new(&built.tree, f_crash);
    w.delivered = delivered_prefix.to_vec();
    w.skipped = skipped.clone();
    w.tip = tip.clone();
    if node.tip_hash() != *tip {
        vfail!("crash:tip-changed", "{point}: tip after reopen {:#x}, model {:#x}", node.tip_hash(), tip);
    }
    let when = format!("{point}, reopened (frozen height {f_crash})");
    check_moved(&node, &w, f_crash, f_crash, None, st, seen, &when)?;
    run_battery(&node, &w, judge, st, seen, None, &when)?;
    // the next pass continues
    let (_, f1) = freeze_pass(&node, &mut w, judge, st, seen, &format!("{point}, next pass after reopen"))?;
    if let Some(r) = f_ref {
        if f1 != r {
            vfail!(
                "crash:next-pass-does-not-reach-the-never-crashed-height",
                "{point}: reopened at frozen height {f_crash}; the next pass stopped at {f1}, the run that never crashed froze up to {r}"
            );
        }
    }
    for (i, h) in tail_blocks.iter().enumerate() {
        deliver(&node, &mut w, h, st).map_err(|mut v| {
            v.detail = format!("{point}, tail import {i}: {}", v.detail);
            v
        })?;
    }
    let (_, f2) = freeze_pass(&node, &mut w, judge, st, seen, &format!("{point}, pass after further imports"))?;
    if let Some(r) = f_final_ref {
        if f2 != r {
            vfail!(
                "crash:later-pass-does-not-reach-the-never-crashed-height",
                "{point}: after {} further imports the pass stopped at {f2}, the run that never crashed froze up to {r}",
                tail_blocks.len()
            );
        }
    }
    node.stop();
    Ok((f_crash, f1, f2))
}

fn crash_prop(case: &CrashCase, st: &mut Stats, judge: &Judge) -> Verdict {
    set_file_size(case.file_size, st);
    let cfg = spec_cfg(case.l, case.window);
    let env = build_env(&cfg);
    let built = Interp::new(&env).run(&case.plan);
    let n = built.blocks.len();
    let tail = (case.tail as usize).min(n / 3);
    if n < 8 {
        return Ok(());
    }
    install_panic_recorder();
    clear_panics();
    let now = case_clock(&built);
    let clock = ckb_systemtime::faketime();
    clock.set_faketime(now);
    let tmp = scratch("c10c-");
    let work = tmp.path().to_path_buf();
    let tree = &built.tree;
    let mut seen = Seen::default();

    // 1. the template directory: imports (and possibly an earlier complete pass), clean stop
    let template = work.join("template");
    let (delivered, skipped, tip, f_template) = {
        let node = start_node(&env, &template, case.small_cache)?;
        let mut w = World::new(tree, frozen_number(&node));
        let mut prior_done = !case.prior_pass;
        for h in built.blocks[..n - tail].iter() {
            deliver(&node, &mut w, h, st)?;
            if !prior_done && epoch_of(tree, &w.tip) >= 3 {
                freeze_pass(&node, &mut w, judge, st, &mut seen, "template: earlier complete pass")?;
                prior_done = true;
            }
        }
        let f = frozen_number(&node);
        let r = (w.delivered.clone(), w.skipped.clone(), w.tip.clone(), f);
        node.stop();
        r
    };
    let tail_blocks: Vec<H> = built.blocks[n - tail..].to_vec();
    let job = |dir: &Path, fp: Option<(String, u64)>, tag: &str| ChildJob {
        l: case.l,
        window: case.window,
        small_cache: case.small_cache,
        dir: dir.to_string_lossy().to_string(),
        now_ms: now,
        failpoint: fp,
        report: work.join(format!("report-{tag}.json")).to_string_lossy().to_string(),
    };

    // 2. dry run: the pass without a crash; enumerates the commits and appends of the pass
    let dry = work.join("dry");
    copy_dir(&template, &dry).map_err(|e| Violation::new("harness:io", e.to_string()))?;
    let log = work.join("commit.log");
    let out = run_child(&job(&dry, None, "dry"), &work, "dry", &[("VERIF_COMMIT_LOG", log.to_string_lossy().to_string())])?;
    let rep = match (&out.clean, &out.report) {
        (true, Some(r)) if r.ok => r.clone(),
        _ => {
            let detail = format!("the pass in a child process did not complete: status {} report {:?} stderr {}", out.status, out.report, out.stderr_tail);
            // a pass that fails without any injected crash is a finding, not a harness problem
            let sig = match out.report.as_ref() {
                Some(r) if !r.ok && r.err.starts_with("panic: ") => pass_panic_signature(&r.err["panic: ".len()..]),
                Some(r) if !r.ok && !r.err.starts_with("start:") => "freeze:pass-returned-error".to_string(),
                _ => "harness:dry-run-failed".to_string(),
            };
            if judge.tolerates(&sig) {
                *st.known_hits.entry(sig).or_insert(0) += 1;
                st.label("crash-case:abandoned-known-pass-panic");
                return Ok(());
            }
            return Err(Violation::new(sig, detail));
        }
    };
    if rep.f_before != f_template {
        vfail!("restart:frozen-number-changed", "template stopped at frozen height {f_template}, the child opened it at {}", rep.f_before);
    }
    let appends = rep.f_after - rep.f_before;
    let commits = commits_in_pass(&std::fs::read_to_string(&log).unwrap_or_default());
    st.label(&format!("dry-run:commits-in-pass={}", commits.len()));
    if appends == 0 {
        st.label("dry-run:pass-freezes-nothing");
    }
    // reference continuation on the dry-run directory (never crashed)
    let (_, f_ref, f_final_ref) = recover_and_continue(
        &env, &dry, case.small_cache, &built, &delivered, &skipped, &tip, &tail_blocks, None, None, judge, st, &mut seen, "no crash",
    )?;
    if f_ref != rep.f_after {
        vfail!("moved:second-pass-in-a-row-moved-blocks", "the pass froze up to {}, a second pass after a restart moved on to {f_ref}", rep.f_after);
    }

    // 3. the crash points
    let mut points: Vec<(String, Vec<(&str, String)>, Option<(String, u64)>)> = vec![];
    for (idx, kind) in &commits {
        for ph in ["before", "after"] {
            points.push((format!("commit-{kind}:{ph}"), vec![("VERIF_CRASH_AT", format!("{idx}:{ph}"))], None));
        }
    }
    let mut ks: Vec<u64> = vec![1, 2, appends.div_ceil(2), appends];
    ks.retain(|k| *k >= 1 && *k <= appends);
    ks.sort();
    ks.dedup();
    for k in &ks {
        for fp in ["write-head", "write-index"] {
            points.push((format!("{fp}:{k}/{appends}"), vec![], Some((fp.to_string(), *k))));
        }
    }
    if !case.only_point.is_empty() {
        points.retain(|p| p.0 == case.only_point);
    }
    for (pi, (name, envs, fp)) in points.iter().enumerate() {
        st.eval("crash-point");
        let d = work.join(format!("crash-{pi}"));
        copy_dir(&template, &d).map_err(|e| Violation::new("harness:io", e.to_string()))?;
        let tag = format!("c{pi}");
        let out = run_child(&job(&d, fp.clone(), &tag), &work, &tag, envs)?;
        if !out.signaled {
            return Err(Violation::new(
                "harness:crash-point-not-reached",
                format!("point {name}: the child finished without aborting: status {} report {:?} stderr {}", out.status, out.report, out.stderr_tail),
            ));
        }
        let point = format!("crash at {name} (child {}: {})", out.status, out.stderr_tail);
        let between_append_and_delete = name.starts_with("commit-write-sync:before") || fp.as_ref().map(|f| f.1 >= 2).unwrap_or(false);
        let (f_crash, _, _) = recover_and_continue(
            &env,
            &d,
            case.small_cache,
            &built,
            &delivered,
            &skipped,
            &tip,
            &tail_blocks,
            Some(f_ref),
            Some(f_final_ref),
            judge,
            st,
            &mut seen,
            &point,
        )
        .map_err(|mut v| {
            if !v.signature.starts_with("harness:") && !v.signature.starts_with("crash:") && !judge.known.contains(&v.signature) {
                v.signature = format!("crash:{}", v.signature);
            }
            v.detail = format!("[point {name}] {}", v.detail);
            v
        })?;
        let label = if fp.is_some() { name.split(':').next().unwrap_or("").to_string() } else { name.clone() };
        st.label(&format!("crash-point:{label}"));
        if f_crash > f_template && f_crash < rep.f_after {
            st.label("crash:partial-append-survived");
        }
        if between_append_and_delete && appends > 0 {
            st.nontrivial(&(serde_json::to_string(case).unwrap(), name.clone()));
        }
        let _ = std::fs::remove_dir_all(&d);
    }
    for s in &seen.known {
        *st.known_hits.entry(s.clone()).or_insert(0) += 1;
    }
    if case.prior_pass {
        st.label("crash-case:earlier-complete-pass");
    }
    if seen.side_at_frozen_height >= 1 {
        st.label("crash-case:side-block-at-frozen-height");
    }
    if st.want_sample() {
        st.sample(|| {
            json!({"sub": "crash-in-freeze", "epoch_length": case.l, "blocks": n, "tail": tail, "prior_pass": case.prior_pass,
                "frozen_before_pass": f_template, "appends_in_pass": appends,
                "commits_in_pass": commits.iter().map(|c| format!("{} {}", c.0, c.1)).collect::<Vec<_>>(),
                "points": points.iter().map(|p| p.0.clone()).collect::<Vec<_>>(),
                "frozen_after_recovery_pass": f_ref, "frozen_after_tail": f_final_ref})
        });
    }
    Ok(())
}

// ------------------------------------------------------------------------------------------------

fn run(ctx: &Ctx) {
    if let Ok(job) = std::env::var(CHILD_ENV) {
        child_main(&job);
    }
    ctx.shrink_iters.set(100);
    let cases = ctx.cases(96, 1600);
    let max_epochs = ctx.tier.pick(6, 7);
    {
        let judge = Judge::new(ctx, 0);
        ctx.run_prop("freeze-x-queries", cases, case_strategy(max_epochs), |c, st| prop(c, st, &judge));
    }
    ctx.shrink_iters.set(12);
    let cases = ctx.cases(16, 240);
    {
        let judge = Judge::new(ctx, 0);
        ctx.run_prop("crash-in-freeze", cases, crash_case_strategy(), |c, st| crash_prop(c, st, &judge));
    }
}

fn replay(ctx: &Ctx, sub: &str, v: &Value) -> Verdict {
    if let Ok(job) = std::env::var(CHILD_ENV) {
        child_main(&job);
    }
    let mut st = ctx.stats.borrow_mut();
    match sub {
        "crash-in-freeze" => {
            let c: CrashCase = from_case(v)?;
            crash_prop(&c, &mut st, &Judge::new(ctx, 0))
        }
        _ => {
            let c: Case = from_case(v)?;
            prop(&c, &mut st, &Judge::new(ctx, c.focus))
        }
    }
}
