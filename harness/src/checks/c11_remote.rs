//! C11 sub-checks `remote` and `remote-order`: the path a peer's relayed transaction takes.
//!
//! `TxPoolController::submit_remote_tx(tx, declared_cycles, peer)` -> verify queue -> verify worker
//! (`_process_tx` + `after_process`) -> pool, orphan pool (unknown parent) or reject; an accepted
//! transaction (remote, local or committed by a block) makes `process_orphan_tx` retry the orphans
//! that spend its outputs, breadth first.
//!
//! A case is a *plan* (a transaction DAG built up-front over the genesis faucet cells: chains,
//! diamonds, joins of several parents, double spends, cell deps on outputs of other plan
//! transactions, fees below the minimum) plus a history of operations that deliver the plan's
//! transactions in a generated order through the remote and the local entrance, from several
//! peers, with right and wrong declared cycles, held back in the verify queue or processed at
//! once, mixed with model-built blocks (proposing / committing plan transactions the pool may
//! never have seen), reorgs, removals, clock jumps past the orphan expiry and floods of
//! parentless transactions.
//!
//! After every operation the node is brought to a quiescent point that does not depend on wall
//! clock (verify queue empty and no activity in flight, read from the extended dump hook, twice
//! in a row) and three things are judged:
//!  (1) every clause of the C11 oracle on the dump (`check_after_kind`, the same code and the
//!      same tolerance of listed findings as the `history` sub-check);
//!  (2) the orphan model (state invariants and transition rules, see `remote_checks`);
//!  (3) verdict equivalence: a transaction tried alone against a known state ends where an
//!      independent judgement of that state says (pool / orphan pool / rejected and recorded);
//!      `remote-order` additionally compares the final pool of a conflict-free, policy-neutral
//!      plan delivered remotely in a generated order with the pool of a second node that got the
//!      same transactions locally in topological order.
use super::*;
use crate::vensure;
use ckb_network::PeerIndex;
use std::task::{Context, Poll, Waker};

/// documented in tx-pool/src/component/orphan.rs: 100 max block intervals (48 s)
const ORPHAN_EXPIRE_SECS: u64 = 100 * 48;
/// documented there as DEFAULT_MAX_ORPHAN_TRANSACTIONS
const MAX_ORPHANS: usize = 100;
/// cycles of one always_success script group (cross-checked against every pooled entry)
const CYCLES_PER_GROUP: u64 = 537;
const FLOOD_PEER: usize = 9;
const DEP_ONLY_SIG: &str = "orphan:stranded:admissible-orphan-although-all-parents-known:last-missing-parent-referred-to-as-cell-dep-only";

#[derive(Clone, Debug, Serialize, Deserialize, Hash)]
pub struct RCfg {
    pub max_ancestors: u8,
    pub rbf: bool,
    /// max_tx_verify_cycles = 600: a transaction with two script groups is a "large cycle" one
    pub small_budget: bool,
    pub window: u8,
    pub mine_mode: bool,
}

#[derive(Clone, Debug, Serialize, Deserialize, Hash)]
pub struct PlanTx {
    /// (class, selector): 0 fresh faucet cell, 1 unspent output of an earlier plan tx, 2 cell
    /// already spent by an earlier plan tx (double spend)
    pub inputs: Vec<(u8, u16)>,
    /// extra cell dep on an unspent output of an earlier plan tx (that output is then never spent)
    pub dep: Option<u16>,
    pub outputs: u8,
    /// 0 min-1, 1 min, 2 min+1, 3 x2, 4 x5, 5 x20
    pub fee: u8,
    pub lock_variant: u8,
}

#[derive(Clone, Debug, Serialize, Deserialize, Hash)]
pub enum ROp {
    /// deliver a plan tx through submit_remote_tx; `dup` = any plan tx (else a never delivered one);
    /// cyc: 0 right, 1 +1, 2 -1, 3 zero, 4 right + 100 M; hold = leave it in the verify queue
    Remote { sel: u16, dup: bool, peer: u8, cyc: u8, hold: bool },
    Local { sel: u16, dup: bool },
    Drain,
    Mine { propose: u16, commit: u16 },
    Reorg { depth: u8, propose: u16, commit: u16 },
    Remove { sel: u16 },
    /// move the clock past the orphan expiry
    Clock,
    /// n parentless transactions from one peer
    Flood { n: u8 },
}

#[derive(Clone, Debug, Serialize, Deserialize, Hash)]
pub struct RCase {
    pub cfg: RCfg,
    pub plan: Vec<PlanTx>,
    pub ops: Vec<ROp>,
}

fn rcfg_strategy() -> impl Strategy<Value = RCfg> {
    (
        prop_oneof![1 => Just(3u8), 2 => Just(5u8), 5 => Just(14u8)],
        prop_oneof![4 => Just(false), 1 => Just(true)],
        prop_oneof![2 => Just(false), 1 => Just(true)],
        0u8..2,
        prop_oneof![3 => Just(false), 1 => Just(true)],
    )
        .prop_map(|(max_ancestors, rbf, small_budget, window, mine_mode)| RCfg { max_ancestors, rbf, small_budget, window, mine_mode })
}

fn plan_tx_strategy(neutral: bool) -> impl Strategy<Value = PlanTx> {
    let class = if neutral {
        prop_oneof![3 => Just(0u8), 8 => Just(1u8)].boxed()
    } else {
        prop_oneof![3 => Just(0u8), 9 => Just(1u8), 1 => Just(2u8)].boxed()
    };
    let fee = if neutral {
        prop_oneof![2 => Just(1u8), 2 => Just(2u8), 5 => Just(3u8), 3 => Just(4u8), 2 => Just(5u8)].boxed()
    } else {
        prop_oneof![1 => Just(0u8), 2 => Just(1u8), 1 => Just(2u8), 6 => Just(3u8), 3 => Just(4u8), 2 => Just(5u8)].boxed()
    };
    (
        proptest::collection::vec((class, any::<u16>()), 1..=3),
        prop_oneof![7 => Just(None), 1 => any::<u16>().prop_map(Some)],
        1u8..=3,
        fee,
        0u8..3,
    )
        .prop_map(|(inputs, dep, outputs, fee, lock_variant)| PlanTx { inputs, dep, outputs, fee, lock_variant })
}

fn rop_strategy() -> impl Strategy<Value = ROp> {
    prop_oneof![
        52 => (
            any::<u16>(),
            prop_oneof![6 => Just(false), 1 => Just(true)],
            0u8..4,
            prop_oneof![16 => Just(0u8), 1 => Just(1u8), 1 => Just(2u8), 1 => Just(3u8), 1 => Just(4u8)],
            prop_oneof![3 => Just(false), 1 => Just(true)]
        )
            .prop_map(|(sel, dup, peer, cyc, hold)| ROp::Remote { sel, dup, peer, cyc, hold }),
        8 => (any::<u16>(), prop_oneof![5 => Just(false), 1 => Just(true)]).prop_map(|(sel, dup)| ROp::Local { sel, dup }),
        4 => Just(ROp::Drain),
        12 => (prop_oneof![2 => Just(0xffffu16), 2 => any::<u16>(), 1 => Just(0u16)], prop_oneof![2 => Just(0xffffu16), 2 => any::<u16>(), 1 => Just(0u16)])
            .prop_map(|(propose, commit)| ROp::Mine { propose, commit }),
        4 => (1u8..=3, prop_oneof![1 => Just(0xffffu16), 2 => any::<u16>(), 2 => Just(0u16)], prop_oneof![1 => Just(0xffffu16), 2 => any::<u16>(), 2 => Just(0u16)])
            .prop_map(|(depth, propose, commit)| ROp::Reorg { depth, propose, commit }),
        3 => any::<u16>().prop_map(|sel| ROp::Remove { sel }),
        1 => Just(ROp::Clock),
        1 => prop_oneof![Just(20u8), Just(60u8), Just(101u8), Just(106u8)].prop_map(|n| ROp::Flood { n }),
    ]
}

pub fn rcase_strategy(max_ops: usize) -> impl Strategy<Value = RCase> {
    (rcfg_strategy(), proptest::collection::vec(plan_tx_strategy(false), 4..=14), proptest::collection::vec(rop_strategy(), 10..=max_ops))
        .prop_map(|(cfg, plan, ops)| RCase { cfg, plan, ops })
}

/// conflict-free plan, fees above the minimum, right cycles, no chain operations, generous
/// ancestor limit: every transaction is admissible once its parents are known
pub fn order_case_strategy(with_deps: bool) -> impl Strategy<Value = RCase> {
    (
        prop_oneof![2 => Just(false), 1 => Just(true)],
        proptest::collection::vec(
            plan_tx_strategy(true).prop_map(move |mut p| {
                if !with_deps {
                    p.dep = None;
                }
                p
            }),
            4..=12,
        ),
        proptest::collection::vec((any::<u16>(), 0u8..4, prop_oneof![2 => Just(false), 1 => Just(true)], prop_oneof![7 => Just(false), 1 => Just(true)]), 12..=16),
    )
        .prop_map(|(small_budget, plan, subs)| {
            let mut ops: Vec<ROp> = vec![];
            for (sel, peer, hold, drain) in subs {
                ops.push(ROp::Remote { sel, dup: false, peer, cyc: 0, hold });
                if drain {
                    ops.push(ROp::Drain);
                }
            }
            ops.push(ROp::Drain);
            RCase { cfg: RCfg { max_ancestors: 25, rbf: false, small_budget, window: 0, mine_mode: false }, plan, ops }
        })
}

// ---------------------------------------------------------------------------------------------

#[derive(Clone, Debug)]
struct UTx {
    tx: TransactionView,
    id: Id,
    hash: [u8; 32],
    fee: u64,
    size: u64,
    cycles: u64,
    inputs: Vec<CellKey>,
    /// every cell dep (the genesis always_success cell included)
    deps: Vec<CellKey>,
    /// a flood transaction (its parent does not exist)
    #[allow(dead_code)]
    bogus: bool,
}

#[derive(Clone, Debug, Default)]
struct Parked {
    /// cells unknown when the transaction was parked -> (index of the op after which each was
    /// known, position of its producer among the transactions that op tried)
    missing: BTreeMap<CellKey, Option<(usize, usize)>>,
}

#[derive(Clone, Debug, PartialEq, Eq)]
enum Judge {
    Pooled,
    Missing,
    Conflict,
    DepDead,
    LowFee,
    WrongCycles,
    AncLimit,
    Admissible,
}

impl Judge {
    fn name(&self) -> &'static str {
        match self {
            Judge::Pooled => "already-pooled",
            Judge::Missing => "unknown-parent",
            Judge::Conflict => "double-spend-of-a-pooled-input",
            Judge::DepDead => "cell-dep-spent-by-a-pooled-tx",
            Judge::LowFee => "fee-below-min-rate",
            Judge::WrongCycles => "declared-cycles-wrong",
            Judge::AncLimit => "ancestor-limit",
            Judge::Admissible => "admissible",
        }
    }
}

#[derive(Clone, Debug, Default)]
struct OpInfo {
    kind: &'static str,
    /// transactions the operation handed to the verify path, in order: (id, remote (declared, peer))
    tried: Vec<(Id, Option<(u64, usize)>)>,
    /// exactly one transaction was tried, against the state dumped before the operation
    exact: bool,
    removed: Option<Id>,
    flood: usize,
    /// clock (seconds) when the operation started
    start_s: u64,
    held: bool,
}

struct RW<'a> {
    w: World<'a>,
    rcfg: &'a RCfg,
    uni: BTreeMap<Id, UTx>,
    plan_ids: Vec<Id>,
    delivered: BTreeSet<Id>,
    remote_subs: BTreeMap<Id, Vec<(usize, u64)>>,
    parked: BTreeMap<Id, Parked>,
    opi: usize,
    flood_salt: u64,
    suspended: bool,
    nontrivial: bool,
    trace: Vec<String>,
    /// orphans a listed finding was tolerated for
    tolerated: BTreeSet<Id>,
    /// orphans that were parked while their transaction was committed on the main chain
    parked_committed: BTreeSet<Id>,
}

fn poll_now<F: std::future::Future>(f: F) -> Option<F::Output> {
    let mut f = std::pin::pin!(f);
    let mut cx = Context::from_waker(Waker::noop());
    match f.as_mut().poll(&mut cx) {
        Poll::Ready(v) => Some(v),
        Poll::Pending => None,
    }
}

fn sid(id: &Id) -> String {
    hex(&id[..4])
}

impl<'a> RW<'a> {
    fn ctl(&self) -> ckb_tx_pool::TxPoolController {
        self.w.node.shared.tx_pool_controller().clone()
    }

    fn min_fee(&self, size: u64) -> u64 {
        self.w.cfg.min_fee_rate as u64 * size / 1000
    }

    /// build the plan's transactions over the faucet cells (nothing is submitted)
    fn build_plan(&mut self, plan: &[PlanTx], st: &mut Stats) {
        struct Cell {
            key: CellKey,
            cap: u64,
            lock: ckb_types::packed::Script,
            producer: Option<usize>,
        }
        let env = self.w.env;
        let mut cells: Vec<Cell> = env
            .faucets
            .iter()
            .map(|(op, o)| Cell { key: cell_key(op), cap: cap(o), lock: o.lock(), producer: None })
            .collect();
        let mut spent: BTreeSet<CellKey> = BTreeSet::new();
        let mut reserved: BTreeSet<CellKey> = BTreeSet::new();
        let min_rate = self.w.cfg.min_fee_rate as u64;
        for (i, p) in plan.iter().enumerate() {
            let mut ins: Vec<usize> = vec![];
            let mut double_spend = false;
            for (class, sel) in &p.inputs {
                let free = |c: &Cell| !reserved.contains(&c.key);
                let fresh: Vec<usize> = (0..cells.len()).filter(|j| !ins.contains(j) && free(&cells[*j]) && cells[*j].producer.is_none() && !spent.contains(&cells[*j].key)).collect();
                let outs: Vec<usize> = (0..cells.len()).filter(|j| !ins.contains(j) && free(&cells[*j]) && cells[*j].producer.is_some() && !spent.contains(&cells[*j].key)).collect();
                let used: Vec<usize> = (0..cells.len()).filter(|j| !ins.contains(j) && spent.contains(&cells[*j].key)).collect();
                let cands = match class % 3 {
                    0 => {
                        if fresh.is_empty() { &outs } else { &fresh }
                    }
                    1 => {
                        if outs.is_empty() { &fresh } else { &outs }
                    }
                    _ => {
                        if !used.is_empty() {
                            &used
                        } else if outs.is_empty() {
                            &fresh
                        } else {
                            &outs
                        }
                    }
                };
                if cands.is_empty() {
                    continue;
                }
                let j = cands[pick_idx(*sel as u32, cands.len())];
                if spent.contains(&cells[j].key) {
                    double_spend = true;
                }
                ins.push(j);
            }
            if ins.is_empty() {
                continue;
            }
            let dep: Option<CellKey> = p.dep.and_then(|sel| {
                let cands: Vec<usize> = (0..cells.len()).filter(|j| !ins.contains(j) && cells[*j].producer.is_some() && !spent.contains(&cells[*j].key)).collect();
                if cands.is_empty() { None } else { Some(cells[cands[pick_idx(sel as u32, cands.len())]].key) }
            });
            let inputs: Vec<(CellKey, u64)> = ins.iter().map(|j| (cells[*j].key, cells[*j].cap)).collect();
            let fee_code = p.fee;
            let bt = self.w.assemble(&inputs, p.outputs, (i % 23) as u8, p.lock_variant, dep, None, &|size| {
                let m = (min_rate * size / 1000).max(1);
                match fee_code {
                    0 => (min_rate * size / 1000).saturating_sub(1),
                    1 => min_rate * size / 1000,
                    2 => min_rate * size / 1000 + 1,
                    3 => m * 2,
                    4 => m * 5,
                    _ => m * 20,
                }
            });
            let bt = match bt {
                Some(b) => b,
                None => continue,
            };
            let id = pid(&bt.tx.proposal_short_id());
            if self.uni.contains_key(&id) {
                continue;
            }
            let locks: BTreeSet<Vec<u8>> = ins.iter().map(|j| cells[*j].lock.as_slice().to_vec()).collect();
            let hash = h32(&bt.tx.hash());
            for j in &ins {
                spent.insert(cells[*j].key);
            }
            if let Some(d) = dep {
                reserved.insert(d);
                st.label("remote:plan:tx-with-cell-dep-on-a-plan-output");
            }
            if double_spend {
                st.label("remote:plan:double-spend");
            }
            if ins.iter().filter_map(|j| cells[*j].producer).collect::<BTreeSet<_>>().len() >= 2 {
                st.label("remote:plan:join-of>=2-plan-parents");
            }
            if bt.fee < self.min_fee(bt.tx.data().serialized_size_in_block() as u64) {
                st.label("remote:plan:fee-below-min");
            }
            for (j, o) in bt.tx.outputs().into_iter().enumerate() {
                cells.push(Cell { key: (hash, j as u32), cap: cap(&o), lock: o.lock(), producer: Some(i) });
            }
            let u = UTx {
                id,
                hash,
                fee: bt.fee,
                size: bt.tx.data().serialized_size_in_block() as u64,
                cycles: CYCLES_PER_GROUP * locks.len() as u64,
                inputs: inputs.iter().map(|x| x.0).collect(),
                deps: bt.tx.cell_deps().into_iter().map(|d| cell_key(&d.out_point())).collect(),
                bogus: false,
                tx: bt.tx.clone(),
            };
            if std::env::var_os("VERIF_C11_TRACE").is_some() {
                eprintln!(
                    "plan tx {i} {}: inputs {:?} extra dep {:?} fee {} size {} cycles {}",
                    sid(&id),
                    u.inputs.iter().map(|k| format!("{}#{}", hex(&k.0[..4]), k.1)).collect::<Vec<_>>(),
                    dep.map(|k| format!("{}#{}", hex(&k.0[..4]), k.1)),
                    u.fee,
                    u.size,
                    u.cycles
                );
            }
            self.w.known.insert(id, bt.tx);
            self.plan_ids.push(id);
            self.uni.insert(id, u);
        }
    }

    fn pick_plan(&self, sel: u16, dup: bool) -> Option<Id> {
        let fresh: Vec<Id> = self.plan_ids.iter().filter(|i| !self.delivered.contains(*i)).cloned().collect();
        if !dup && !fresh.is_empty() {
            return Some(fresh[pick_idx(sel as u32, fresh.len())]);
        }
        if self.plan_ids.is_empty() { None } else { Some(self.plan_ids[pick_idx(sel as u32, self.plan_ids.len())]) }
    }

    fn tick(&mut self) {
        self.w.now += 1;
        self.w.clock.set_faketime(self.w.now);
    }

    fn suspend(&mut self) -> Verdict {
        if !self.suspended {
            self.ctl().suspend_chunk_process().map_err(|e| Violation::new("harness:chunk-cmd", e.to_string()))?;
            // the command reaches the workers through two watch channels (replay determinism only;
            // no oracle clause depends on whether a worker was faster)
            std::thread::sleep(Duration::from_millis(3));
            self.suspended = true;
        }
        Ok(())
    }

    /// resume the verify workers and wait for the quiescent point: verify queue empty and no
    /// activity in flight, in two consecutive dumps
    fn settle(&mut self, st: &mut Stats) -> Verdict {
        self.ctl().continue_chunk_process().map_err(|e| Violation::new("harness:chunk-cmd", e.to_string()))?;
        self.suspended = false;
        let start = std::time::Instant::now();
        let mut rounds = 0;
        loop {
            let s = self.w.fetch()?;
            if self.w.abort.get() {
                return Ok(());
            }
            if s.queue.is_empty() && s.verify_queue_len == 0 && s.inflight == 0 {
                rounds += 1;
                if rounds >= 2 {
                    return Ok(());
                }
            } else {
                rounds = 0;
                std::thread::sleep(Duration::from_millis(1));
            }
            if self.w.panic_check(st)? {
                self.w.abort.set(true);
                return Ok(());
            }
            if start.elapsed() > Duration::from_secs(30) {
                vfail!("harness:settle-timeout", "verify queue {} / in flight {} after 30 s", s.queue.len(), s.inflight);
            }
        }
    }

    fn submit_remote(&mut self, id: &Id, declared: u64, peer: usize) -> Verdict {
        self.tick();
        let tx = self.uni[id].tx.clone();
        self.delivered.insert(*id);
        self.remote_subs.entry(*id).or_default().push((peer, declared));
        let c = self.ctl();
        let r = poll_now(c.submit_remote_tx(tx, declared, PeerIndex::new(peer)));
        match r {
            Some(Ok(())) => Ok(()),
            Some(Err(e)) => Err(Violation::new("harness:submit-channel", e.to_string())),
            None => Err(Violation::new("harness:submit-remote-pending", "submit_remote_tx did not complete synchronously")),
        }
    }

    fn apply(&mut self, op: &ROp, st: &mut Stats) -> Result<OpInfo, Violation> {
        let p0_queue: Vec<(Id, Option<(u64, usize)>)> = self.w.snap.queue.clone();
        let mut info = OpInfo { start_s: self.w.now / 1000, ..Default::default() };
        match op {
            ROp::Remote { sel, dup, peer, cyc, hold } => {
                info.kind = "remote";
                let id = match self.pick_plan(*sel, *dup) {
                    Some(i) => i,
                    None => return Ok(info),
                };
                let right = self.uni[&id].cycles;
                let declared = match cyc {
                    0 => right,
                    1 => right + 1,
                    2 => right.saturating_sub(1),
                    3 => 0,
                    _ => right + 100_000_000,
                };
                if *hold {
                    self.suspend()?;
                }
                let queued_already = p0_queue.iter().any(|q| q.0 == id);
                self.submit_remote(&id, declared, *peer as usize)?;
                self.trace.push(format!("remote {} peer {} cycles {}{}", sid(&id), peer, if declared == right { "right" } else { "wrong" }, if *hold { " (held)" } else { "" }));
                st.label(if declared == right { "remote:submit:declared-cycles-right" } else { "remote:submit:declared-cycles-wrong" });
                if *hold {
                    info.held = true;
                    st.label("remote:submit:held-in-verify-queue");
                } else {
                    info.tried = p0_queue.clone();
                    if !queued_already && !self.w.snap.orphans.contains_key(&id) {
                        info.tried.push((id, Some((declared, *peer as usize))));
                    }
                    info.exact = p0_queue.is_empty();
                    self.settle(st)?;
                }
            }
            ROp::Local { sel, dup } => {
                info.kind = "local";
                let id = match self.pick_plan(*sel, *dup) {
                    Some(i) => i,
                    None => return Ok(info),
                };
                self.tick();
                self.delivered.insert(id);
                let tx = self.uni[&id].tx.clone();
                let r = self.ctl().submit_local_tx(tx).map_err(|e| Violation::new("harness:submit-channel", e.to_string()));
                if self.w.panic_check(st)? {
                    self.w.abort.set(true);
                    return Ok(info);
                }
                let r = r?;
                self.trace.push(format!("local {} -> {}", sid(&id), match &r {
                    Ok(()) => "ok".to_string(),
                    Err(e) => reject_name(e),
                }));
                match &r {
                    Ok(()) => st.label("remote:local-submit:accepted"),
                    Err(e) => st.label(&format!("remote:local-submit:rejected:{}", reject_name(e))),
                }
                let blocked = p0_queue.iter().any(|q| q.0 == id) || self.w.snap.orphans.contains_key(&id);
                if !blocked {
                    info.tried.push((id, None));
                    info.exact = true;
                }
                // the cascade (process_orphan_tx) runs inside the request; a recover-back task may follow
                if !self.suspended {
                    self.settle(st)?;
                }
            }
            ROp::Drain => {
                info.kind = "drain_verify_queue";
                info.tried = p0_queue.clone();
                info.exact = p0_queue.len() == 1;
                if !p0_queue.is_empty() {
                    st.label("remote:drain:queue-non-empty");
                    if p0_queue.len() >= 2 {
                        st.label("remote:drain:>=2-held-transactions");
                    }
                }
                self.trace.push(format!("drain ({} queued)", p0_queue.len()));
                self.settle(st)?;
            }
            ROp::Mine { propose, commit } => {
                info.kind = "block";
                info.tried = p0_queue.clone();
                let extra: Vec<Id> = self.plan_ids.iter().enumerate().filter(|(i, _)| (propose >> (i % 16)) & 1 == 1).map(|(_, id)| *id).collect();
                let tip = self.w.tip.clone();
                let h = self.w.build_block(&tip, *propose, *commit, &extra, st)?;
                let nc = self.w.tree.get(&h).block.transactions().len() - 1;
                if nc > 0 {
                    st.label("remote:block:with-commits");
                }
                self.trace.push(format!("block #{} proposals {} commits {}", self.w.tree.get(&h).number, self.w.tree.get(&h).block.data().proposals().len(), nc));
                self.w.tip = h;
                self.w.wait_synced(st)?;
                if self.w.abort.get() {
                    return Ok(info);
                }
                self.settle(st)?;
            }
            ROp::Reorg { depth, propose, commit } => {
                info.kind = "reorg";
                info.tried = p0_queue.clone();
                let tipn = self.w.tree.get(&self.w.tip).number;
                if (*depth as u64).min(tipn) == 0 {
                    info.kind = "block";
                }
                self.w.op_reorg(*depth, *propose, *commit, &None, st)?;
                self.trace.push(self.w.summary.last().cloned().unwrap_or_default());
                if self.w.abort.get() {
                    return Ok(info);
                }
                self.settle(st)?;
            }
            ROp::Remove { sel } => {
                info.kind = "remove_local_tx";
                let s = &self.w.snap;
                let mut cands: Vec<Id> = s.orphans.keys().cloned().collect();
                cands.extend(s.queue.iter().map(|q| q.0));
                cands.extend(s.entries.keys().cloned());
                if cands.is_empty() {
                    return Ok(info);
                }
                let id = cands[pick_idx(*sel as u32, cands.len())];
                let hash = match self.uni.get(&id) {
                    Some(u) => u.hash,
                    None => return Ok(info),
                };
                let r = self.ctl().remove_local_tx(Byte32::from_slice(&hash).unwrap()).map_err(|e| Violation::new("harness:remove-channel", e.to_string()))?;
                let place = if s.queue.iter().any(|q| q.0 == id) {
                    "queued"
                } else if s.orphans.contains_key(&id) {
                    "orphan"
                } else {
                    "pooled"
                };
                st.label(&format!("remote:remove_local_tx:{place}:{r}"));
                self.trace.push(format!("remove {} ({place})", sid(&id)));
                info.removed = Some(id);
            }
            ROp::Clock => {
                info.kind = "clock";
                self.w.now += (ORPHAN_EXPIRE_SECS + 1) * 1000;
                self.w.clock.set_faketime(self.w.now);
                self.trace.push("clock past the orphan expiry".into());
            }
            ROp::Flood { n } => {
                info.kind = "flood";
                info.tried = p0_queue.clone();
                info.flood = *n as usize;
                for _ in 0..*n {
                    self.flood_salt += 1;
                    let mut h = [0xf1u8; 32];
                    h[..8].copy_from_slice(&self.flood_salt.to_le_bytes());
                    let parent: CellKey = (h, 0);
                    let tx = TransactionBuilder::default()
                        .cell_dep(self.w.env.always_success_dep.clone())
                        .input(CellInput::new(out_point_of(&parent), 0))
                        .output(CellOutput::new_builder().capacity(Capacity::shannons(100_0000_0000)).lock(self.w.env.always_success_lock.clone()).build())
                        .output_data(Bytes::new())
                        .build();
                    let id = pid(&tx.proposal_short_id());
                    let u = UTx {
                        id,
                        hash: h32(&tx.hash()),
                        fee: 0,
                        size: tx.data().serialized_size_in_block() as u64,
                        cycles: CYCLES_PER_GROUP,
                        inputs: vec![parent],
                        deps: tx.cell_deps().into_iter().map(|d| cell_key(&d.out_point())).collect(),
                        bogus: true,
                        tx,
                    };
                    self.uni.insert(id, u);
                    self.submit_remote(&id, CYCLES_PER_GROUP, FLOOD_PEER)?;
                }
                self.trace.push(format!("flood of {n} parentless txs"));
                self.settle(st)?;
            }
        }
        Ok(info)
    }

    // ---- the independent judgement ------------------------------------------------------------

    fn live(&self) -> &BTreeMap<CellKey, LiveCell> {
        &self.w.tree.get(&self.w.tip).state.live
    }

    fn pool_outputs(s: &Snap) -> BTreeSet<CellKey> {
        s.entries.values().flat_map(|e| (0..e.n_outputs as u32).map(move |j| (e.hash, j))).collect()
    }

    fn pool_spent(s: &Snap) -> BTreeMap<CellKey, Id> {
        s.entries.values().flat_map(|e| e.inputs.iter().map(move |k| (*k, e.id))).collect()
    }

    fn missing(&self, inputs: &[CellKey], deps: &[CellKey], s: &Snap) -> Vec<CellKey> {
        let live = self.live();
        let outs = Self::pool_outputs(s);
        inputs.iter().chain(deps.iter()).filter(|k| !live.contains_key(*k) && !outs.contains(*k)).cloned().collect()
    }

    /// where a transaction tried against pool state `s` (and the current chain) belongs
    fn judge(&self, u: &UTx, declared: Option<u64>, s: &Snap) -> Judge {
        if s.entries.contains_key(&u.id) {
            return Judge::Pooled;
        }
        if !self.missing(&u.inputs, &u.deps, s).is_empty() {
            return Judge::Missing;
        }
        let spent = Self::pool_spent(s);
        if u.inputs.iter().any(|k| spent.contains_key(k)) {
            return Judge::Conflict;
        }
        if u.deps.iter().any(|k| spent.contains_key(k)) {
            return Judge::DepDead;
        }
        if u.fee < self.min_fee(u.size) {
            return Judge::LowFee;
        }
        if let Some(d) = declared {
            if d != u.cycles {
                return Judge::WrongCycles;
            }
        }
        let by_hash: BTreeMap<[u8; 32], Id> = s.entries.values().map(|e| (e.hash, e.id)).collect();
        let mut anc: BTreeSet<Id> = BTreeSet::new();
        for k in u.inputs.iter().chain(u.deps.iter()) {
            if let Some(p) = by_hash.get(&k.0) {
                anc.extend(s.closure(p, true));
            }
        }
        if anc.len() + 1 > self.rcfg.max_ancestors as usize {
            return Judge::AncLimit;
        }
        Judge::Admissible
    }

    /// a listed finding about one orphan: counted, that orphan is left out of the clause from now on
    fn tolerate(&mut self, sig: &str, id: Id, st: &mut Stats) -> bool {
        if !self.w.strict && (self.w.known_sigs)(sig) {
            *st.known_hits.entry(sig.to_string()).or_insert(0) += 1;
            self.tolerated.insert(id);
            true
        } else {
            false
        }
    }

    fn large_cycle_threshold(&self) -> u64 {
        if self.rcfg.small_budget { 600 } else { ckb_app_config::TxPoolConfig::default().max_tx_verify_cycles }
    }

    /// did the operation try (or may it have retried) a transaction of `peer` whose declared cycles are wrong?
    fn peer_may_have_been_banned(&self, peer: usize, p0: &Snap, info: &OpInfo) -> bool {
        let wrong = |id: &Id, declared: u64| self.uni.get(id).map(|u| u.cycles != declared).unwrap_or(false);
        p0.orphans.values().any(|x| x.peer == peer && wrong(&x.id, x.declared)) || info.tried.iter().any(|t| t.1.map(|r| r.1 == peer && wrong(&t.0, r.0)).unwrap_or(false))
    }

    fn committed(&self, hash: &[u8; 32]) -> bool {
        self.w.tree.get(&self.w.tip).state.tx_index.contains_key(hash)
    }

    fn recorded_reject(&self, u: &UTx, reason: &Judge, how: &str) -> Verdict {
        let r = self
            .ctl()
            .get_tx_status(Byte32::from_slice(&u.hash).unwrap())
            .map_err(|e| Violation::new("harness:status-channel", e.to_string()))?
            .map_err(|e| Violation::new("harness:status-query", e.to_string()))?;
        match r.0 {
            ckb_types::core::tx_pool::TxStatus::Rejected(_) => Ok(()),
            other => Err(Violation::new(
                format!("reject:not-recorded-in-recent-rejects:{}:{how}", reason.name()),
                format!("transaction {} was refused ({}) but get_tx_status answers {:?} [{}]", sid(&u.id), reason.name(), other, self.trace.join("; ")),
            )),
        }
    }

    /// orphan model: state invariants on the dump after the operation, transition rules between
    /// the dumps before (`p0`) and after it
    fn remote_checks(&mut self, p0: &Snap, info: &OpInfo, st: &mut Stats) -> Verdict {
        let p1 = self.w.snap.clone();
        let kind = info.kind;
        let ctx = |rw: &RW| format!("after {kind} [{}]", rw.trace.join("; "));
        // ---- state invariants ----
        for id in p1.orphans.keys() {
            if p1.entries.contains_key(id) {
                if self.tolerated.contains(id) {
                    continue;
                }
                let how = if self.uni.get(id).map(|_u| p0.orphans.contains_key(id) && !p0.entries.contains_key(id) && matches!(kind, "reorg" | "block")).unwrap_or(false) { "orphan-copy-of-a-committed-tx-readded-by-reorg" } else { "other" };
                let sig = format!("orphan:transaction-both-pooled-and-orphan:{how}");
                if self.tolerate(&sig, *id, st) {
                    continue;
                }
                vfail!(sig, "{} is a pool entry and an orphan {}", sid(id), ctx(self));
            }
        }
        for (id, _) in &p1.queue {
            vensure!(!p1.orphans.contains_key(id), "orphan:transaction-both-queued-and-orphan", "{} waits in the verify queue and is an orphan {}", sid(id), ctx(self));
        }
        let mut want: BTreeMap<CellKey, BTreeSet<Id>> = BTreeMap::new();
        for o in p1.orphans.values() {
            for k in &o.inputs {
                want.entry(*k).or_default().insert(o.id);
            }
        }
        for (k, ids) in &want {
            let got = p1.orphan_index.get(k).cloned().unwrap_or_default();
            for id in ids {
                vensure!(got.contains(id), "orphan-index:input-of-an-orphan-not-indexed", "input {}#{} of orphan {} is not in by_out_point {}", hex(&k.0[..4]), k.1, sid(id), ctx(self));
            }
        }
        for (k, ids) in &p1.orphan_index {
            vensure!(!ids.is_empty(), "orphan-index:empty-set-kept", "by_out_point keeps an empty set for {}#{} {}", hex(&k.0[..4]), k.1, ctx(self));
            for id in ids {
                // demanded: every input is indexed; accepted in addition: an out point the orphan
                // refers to as cell dep (an index that also covers cell deps is a legitimate design)
                vensure!(
                    want.get(k).map(|w| w.contains(id)).unwrap_or(false) || p1.orphans.get(id).map(|o| o.deps.contains(k)).unwrap_or(false),
                    if p1.orphans.contains_key(id) { "orphan-index:stale-record-owner-orphan" } else { "orphan-index:stale-record-owner-gone" },
                    "by_out_point holds {}#{} -> {} but no orphan with that id spends it {}",
                    hex(&k.0[..4]),
                    k.1,
                    sid(id),
                    ctx(self)
                );
            }
        }
        vensure!(p1.orphan_len as usize == p1.orphans.len(), "orphan:len-differs-from-entries", "len {} entries {}", p1.orphan_len, p1.orphans.len());
        vensure!(p1.orphans.len() <= MAX_ORPHANS, "orphan:pool-larger-than-its-limit", "{} orphans {}", p1.orphans.len(), ctx(self));
        {
            let i = self.ctl().get_tx_pool_info().map_err(|e| Violation::new("harness:info-channel", e.to_string()))?;
            let again = self.w.fetch()?;
            if again.orphans.len() == p1.orphans.len() && again.queue.len() == p1.queue.len() {
                vensure!(i.orphan_size == p1.orphans.len() && i.verify_queue_size == p1.queue.len(), "api:get_tx_pool_info:orphan-or-queue-size", "orphan_size {} verify_queue_size {} vs dump {} / {}", i.orphan_size, i.verify_queue_size, p1.orphans.len(), p1.queue.len());
            }
        }
        let now_s = self.w.now / 1000;
        for o in p1.orphans.values() {
            match self.remote_subs.get(&o.id) {
                None => vfail!("orphan:entry-never-submitted-remotely", "{} is an orphan but was never handed to submit_remote_tx {}", sid(&o.id), ctx(self)),
                Some(v) => vensure!(v.contains(&(o.peer, o.declared)), "orphan:entry-records-another-peer-or-cycles", "orphan {} records peer {} cycles {}, submissions were {:?} {}", sid(&o.id), o.peer, o.declared, v, ctx(self)),
            }
            vensure!(o.expires_at <= now_s + ORPHAN_EXPIRE_SECS && o.expires_at >= T0 / 1000 + ORPHAN_EXPIRE_SECS, "orphan:expiry-time-out-of-range", "orphan {} expires at {} (now {}) {}", sid(&o.id), o.expires_at, now_s, ctx(self));
        }
        // cycles model cross-check (the judgement of declared cycles rests on it)
        for e in p1.entries.values() {
            if let Some(u) = self.uni.get(&e.id) {
                vensure!(u.cycles == e.cycles && u.fee == e.fee && u.size == e.size, "harness:tx-model", "entry {}: cycles/fee/size {}/{}/{} but the plan computed {}/{}/{}", sid(&e.id), e.cycles, e.fee, e.size, u.cycles, u.fee, u.size);
            }
        }
        // ---- bookkeeping of parked orphans ----
        let live_keys: BTreeSet<CellKey> = self.live().keys().cloned().collect();
        let outs1 = Self::pool_outputs(&p1);
        let outs0 = Self::pool_outputs(p0);
        for (id, o) in &p1.orphans {
            if !p0.orphans.contains_key(id) || !self.parked.contains_key(id) {
                // cells unknown when it was tried: not live, not an output of a transaction pooled
                // before the operation or of one tried earlier in this operation (FIFO, one worker)
                // that is pooled now
                let pos = info.tried.iter().position(|t| t.0 == *id);
                let earlier: BTreeSet<[u8; 32]> = match pos {
                    Some(n) => info.tried[..n].iter().filter(|t| p1.entries.contains_key(&t.0)).filter_map(|t| self.uni.get(&t.0)).map(|u| u.hash).collect(),
                    None => BTreeSet::new(),
                };
                let mut miss: Vec<CellKey> = o.inputs.iter().chain(o.deps.iter()).filter(|k| !live_keys.contains(*k) && !outs0.contains(*k) && !earlier.contains(&k.0)).cloned().collect();
                if miss.is_empty() {
                    miss = self.missing(&o.inputs, &o.deps, &p1);
                }
                self.parked.insert(*id, Parked { missing: miss.into_iter().map(|k| (k, None)).collect() });
                if self.committed(&o.hash) {
                    // a committed transaction relayed again: its inputs are spent, it is parked
                    self.parked_committed.insert(*id);
                    st.label("remote:orphan:parked-copy-of-a-committed-tx");
                }
                st.label("remote:orphan:parked");
            }
        }
        let opi = self.opi;
        let pos_of: BTreeMap<[u8; 32], usize> = info.tried.iter().enumerate().filter_map(|(n, t)| self.uni.get(&t.0).map(|u| (u.hash, n + 1))).collect();
        for (_, p) in self.parked.iter_mut() {
            for (k, at) in p.missing.iter_mut() {
                if at.is_none() && (live_keys.contains(k) || outs1.contains(k)) {
                    *at = Some((opi, pos_of.get(&k.0).cloned().unwrap_or(0)));
                }
            }
        }
        if !p1.orphans.is_empty() {
            st.label("remote:state:orphan-pool-non-empty");
        }
        if !p1.queue.is_empty() {
            st.label("remote:state:txs-held-in-verify-queue");
            if !p1.orphans.is_empty() {
                st.label("remote:state:held-txs-and-orphans");
            }
            return Ok(());
        }
        // ---- quiescent: nothing is waiting to be verified ----
        // no admissible transaction is stranded in the orphan pool once its parents are known
        for o in p1.orphans.values() {
            if !self.missing(&o.inputs, &o.deps, &p1).is_empty() || self.tolerated.contains(&o.id) {
                continue;
            }
            let u = match self.uni.get(&o.id) {
                Some(u) => u.clone(),
                None => continue,
            };
            let j = self.judge(&u, Some(o.declared), &p1);
            let parked = self.parked.get(&o.id).cloned().unwrap_or_default();
            // the cells it waited for last (they became known last): referred to as cell deps only?
            let last = parked.missing.values().filter_map(|x| *x).max();
            let last_cells: Vec<&CellKey> = parked.missing.iter().filter(|(_, at)| at.is_some() && **at == last).map(|(k, _)| k).collect();
            let dep_only = !last_cells.is_empty() && last_cells.iter().all(|k| !o.inputs.contains(k));
            let trigger = if dep_only {
                "last-missing-parent-referred-to-as-cell-dep-only".to_string()
            } else if self.committed(&o.hash) {
                "orphan-is-a-committed-tx".to_string()
            } else if self.parked_committed.contains(&o.id) {
                "parked-while-committed-then-detached-by-reorg".to_string()
            } else {
                format!("parents-known-after-{kind}")
            };
            if j == Judge::Admissible {
                let sig = format!("orphan:stranded:admissible-orphan-although-all-parents-known:{trigger}");
                if self.tolerate(&sig, o.id, st) {
                    continue;
                }
                vfail!(
                    sig,
                    "orphan {} (peer {}, declared {}): every input and dep is live on chain or an output of a pooled tx, nothing spends them, fee and cycles are right, yet it is still in the orphan pool {}",
                    sid(&o.id),
                    o.peer,
                    o.declared,
                    ctx(self)
                );
            }
            st.label(&format!("remote:orphan:all-parents-known-but-inadmissible:{}", j.name()));
        }
        // expiry: an insertion drops every expired entry
        let inserted: Vec<Id> = p1.orphans.values().filter(|o| p0.orphans.get(&o.id).map(|x| x.expires_at != o.expires_at).unwrap_or(true)).map(|o| o.id).collect();
        if !inserted.is_empty() {
            for o in p1.orphans.values() {
                vensure!(o.expires_at > info.start_s, "orphan:expired-entry-survived-an-insertion", "orphan {} expired at {} but is still there after an insertion at >= {} {}", sid(&o.id), o.expires_at, info.start_s, ctx(self));
            }
        }
        let overflow_possible = p0.orphans.len() + info.tried.len() + info.flood > MAX_ORPHANS;
        if info.flood > 0 {
            let expired = p0.orphans.values().filter(|o| o.expires_at <= now_s).count();
            let expect = (p0.orphans.len() - expired + info.flood).min(MAX_ORPHANS);
            if info.tried.is_empty() {
                vensure!(p1.orphans.len() == expect, "orphan:count-after-flood", "{} orphans before ({} expired), {} parentless txs delivered, {} orphans after, expected {} {}", p0.orphans.len(), expired, info.flood, p1.orphans.len(), expect, ctx(self));
            }
            if p0.orphans.len() + info.flood > MAX_ORPHANS {
                st.label("remote:flood:orphan-limit-reached");
            }
        }
        // every orphan that left: promoted, or gone for a reason
        let tried_outs: BTreeSet<[u8; 32]> = info.tried.iter().filter_map(|t| self.uni.get(&t.0)).map(|u| u.hash).collect();
        let mut promoted: Vec<Id> = vec![];
        for (id, o) in &p0.orphans {
            if p1.orphans.contains_key(id) {
                continue;
            }
            if p1.entries.contains_key(id) {
                promoted.push(*id);
                continue;
            }
            let u = match self.uni.get(id) {
                Some(u) => u.clone(),
                None => continue,
            };
            if info.removed == Some(*id) {
                st.label("remote:orphan:left:remove_local_tx");
            } else if self.committed(&o.hash) {
                st.label("remote:orphan:left:committed");
            } else if o.expires_at <= now_s {
                // expired entries leave at the next insertion, which may be invisible between two
                // dumps (an orphan parked and promoted, or re-queued and parked again, inside one
                // operation)
                st.label("remote:orphan:left:expired");
            } else if overflow_possible {
                st.label("remote:orphan:left:evicted-at-the-limit");
            } else if matches!(kind, "reorg" | "block") && self.parked_committed.contains(id) {
                // the orphan copy of a committed transaction, purged when its block is detached
                // (what fix-2 of this work package does; never seen on the tree without it)
                st.label("remote:orphan:left:purged-with-its-detached-block");
            } else if o.declared > self.large_cycle_threshold() && self.peer_may_have_been_banned(o.peer, p0, info) {
                // process_orphan_tx moves a "large cycle" orphan to the verify queue instead of
                // retrying it; ban_malformed (a wrong declared cycle count of the same peer met in
                // the same cascade) drops every queued transaction of the banned peer
                st.label("remote:orphan:left:requeued-then-dropped-with-its-banned-peer");
            } else {
                // it must have been retried with every parent known and refused
                let known_sometime = |k: &CellKey| live_keys.contains(k) || outs0.contains(k) || outs1.contains(k) || tried_outs.contains(&k.0) || p0.orphans.values().any(|x| x.hash == k.0);
                // a retry resolves the inputs in order and stops at the first one that is not live: an
                // input or dep spent by a pooled transaction (Dead) refuses the orphan for good even
                // while another parent is still unknown
                let spent0 = Self::pool_spent(p0);
                let spent1 = Self::pool_spent(&p1);
                if !o.inputs.iter().chain(o.deps.iter()).all(known_sometime)
                    && o.inputs.iter().chain(o.deps.iter()).any(|k| spent0.contains_key(k) || spent1.contains_key(k))
                {
                    st.label("remote:orphan:left:refused-on-retry:cell-spent-by-a-pooled-tx-while-another-parent-is-unknown");
                    continue;
                }
                if !o.inputs.iter().chain(o.deps.iter()).all(known_sometime) {
                    vfail!(
                        "orphan:vanished-while-a-parent-was-never-available",
                        "orphan {} is gone (not pooled, not committed, not removed, not expired) although one of its parents was unknown before, during and after the operation {}",
                        sid(id),
                        ctx(self)
                    );
                }
                let j = self.judge(&u, Some(o.declared), &p1);
                match j {
                    Judge::Admissible if !self.rcfg.rbf => vfail!(
                        "orphan:vanished-although-admissible",
                        "orphan {} is gone (not pooled, not committed, not removed, not expired) although it is admissible in the state after the operation {}",
                        sid(id),
                        ctx(self)
                    ),
                    Judge::Admissible | Judge::Missing | Judge::Pooled => st.label(&format!("remote:orphan:left:refused-on-retry:then-{}", j.name())),
                    _ => {
                        st.label(&format!("remote:orphan:left:refused-on-retry:{}", j.name()));
                        self.recorded_reject(&u, &j, "orphan-retry")?;
                    }
                }
            }
        }
        for id in p0.orphans.keys() {
            if !p1.orphans.contains_key(id) {
                // keep the record of promoted ones until the labels below are computed
                if !promoted.contains(id) {
                    self.parked.remove(id);
                }
            }
        }
        // ---- promotions: labels and the non-trivial rule ----
        if !promoted.is_empty() {
            st.label("remote:cascade:orphan-promoted");
            if promoted.len() >= 2 {
                st.label("remote:cascade:>=2-orphans-promoted-in-one-step");
            }
            st.label(&format!("remote:cascade:by-{kind}"));
            let hash_of: BTreeMap<Id, [u8; 32]> = promoted.iter().map(|i| (*i, p1.entries[i].hash)).collect();
            let mut chain2 = false;
            for i in &promoted {
                let e = &p1.entries[i];
                if e.inputs.iter().any(|k| hash_of.iter().any(|(j, h)| j != i && *h == k.0)) {
                    chain2 = true;
                }
            }
            if chain2 {
                st.label("remote:cascade:orphan-chain-depth>=2-resolved-in-one-step");
                self.nontrivial = true;
            }
            for i in &promoted {
                if let Some(p) = self.parked.get(i) {
                    let producers: BTreeSet<[u8; 32]> = p.missing.keys().map(|k| k.0).collect();
                    let steps: BTreeSet<usize> = p.missing.values().filter_map(|x| x.map(|y| y.0)).collect();
                    if producers.len() >= 2 {
                        st.label("remote:cascade:promoted-orphan-had>=2-missing-parents");
                        if steps.len() >= 2 {
                            st.label("remote:cascade:join-orphan-promoted-after-parents-arrived-at-different-steps");
                            self.nontrivial = true;
                        }
                    }
                    if p.missing.keys().any(|k| p1.entries[i].deps.contains(k)) {
                        st.label("remote:cascade:promoted-orphan-waited-for-a-cell-dep");
                    }
                }
                self.parked.remove(i);
            }
        }
        // ---- one transaction tried alone against the state before the operation ----
        if info.exact && info.tried.len() == 1 && p0.queue.len() <= 1 {
            let (id, remote) = info.tried[0];
            let u = match self.uni.get(&id) {
                Some(u) => u.clone(),
                None => return Ok(()),
            };
            let path = if remote.is_some() { "remote" } else { "local" };
            let j = self.judge(&u, remote.map(|r| r.0), p0);
            st.label(&format!("remote:verdict:{path}:{}", j.name()));
            match j {
                Judge::Pooled => {}
                Judge::Missing => {
                    if remote.is_some() {
                        if !overflow_possible && !p0.orphans.contains_key(&id) {
                            vensure!(p1.orphans.contains_key(&id), "orphan:remote-tx-with-unknown-parent-not-parked", "{} has an input or dep unknown to chain and pool, came from a peer, but is not in the orphan pool {}", sid(&id), ctx(self));
                        }
                    } else {
                        vensure!(!p1.orphans.contains_key(&id) || p0.orphans.contains_key(&id), "orphan:local-tx-parked", "{} was submitted locally and is now an orphan {}", sid(&id), ctx(self));
                    }
                    vensure!(!p1.entries.contains_key(&id), "verdict:tx-with-unknown-parent-pooled", "{} has an input or dep unknown to chain and pool but is pooled {}", sid(&id), ctx(self));
                }
                Judge::Admissible => {
                    vensure!(p1.entries.contains_key(&id), format!("verdict:admissible-tx-not-pooled:{path}"), "{} is admissible in the state before the operation (parents known, nothing spent, fee, cycles, ancestors) but is not pooled afterwards {}", sid(&id), ctx(self));
                }
                Judge::Conflict if self.rcfg.rbf => {
                    st.label("remote:verdict:conflict-under-rbf(not-judged)");
                    let ins: BTreeSet<CellKey> = u.inputs.iter().cloned().collect();
                    rbf_clause(p0, &p1, &id, &ins, u.size, u.fee, min_rbf_rate(self.w.cfg), true, p1.entries.contains_key(&id), &u.tx, self.w.cfg.max_pool_size as u64, self.w.cfg.max_ancestors as u64, st)?;
                }
                _ => {
                    vensure!(!p1.entries.contains_key(&id), format!("verdict:inadmissible-tx-pooled:{}", j.name()), "{} ({}) is pooled {}", sid(&id), j.name(), ctx(self));
                    vensure!(!p1.orphans.contains_key(&id), format!("orphan:refused-tx-parked:{}", j.name()), "{} ({}) is in the orphan pool {}", sid(&id), j.name(), ctx(self));
                    self.recorded_reject(&u, &j, path)?;
                }
            }
        }
        if let Some(id) = info.removed {
            vensure!(!p1.orphans.contains_key(&id) || p0.queue.iter().any(|q| q.0 == id), "remove:orphan-still-there", "remove_local_tx of orphan {} left it in the orphan pool {}", sid(&id), ctx(self));
        }
        Ok(())
    }
}

fn remote_pool_cfg(c: &RCfg) -> PoolCfg {
    PoolCfg { max_pool_size: 400_000, max_ancestors: c.max_ancestors, min_fee_rate: 1000, rbf_extra: if c.rbf { 500 } else { 0 }, expiry_hours: 12, window: c.window, mine_mode: c.mine_mode }
}

/// run one case; returns the final pool dump (for `remote-order`)
fn run_rcase(case: &RCase, st: &mut Stats, strict: bool, known: &dyn Fn(&str) -> bool, sub: &str) -> Result<Option<Snap>, Violation> {
    install_panic_recorder();
    clear_panics();
    let pcfg = remote_pool_cfg(&case.cfg);
    let env = build_env(&spec_cfg(&pcfg));
    let clock = ckb_systemtime::faketime();
    clock.set_faketime(T0);
    let mut tp = pool_config(&pcfg);
    tp.max_tx_verify_workers = 1;
    if case.cfg.small_budget {
        tp.max_tx_verify_cycles = 600;
    }
    let node = Node::start(&env, NodeCfg { tx_pool: Some(tp), block_assembler: if case.cfg.mine_mode { Some(assembler_config()) } else { None }, ..Default::default() }).map_err(|e| Violation::new("harness:node-start", e))?;
    let tree = Tree::new(env.consensus.clone());
    let tip = tree.genesis.clone();
    let w = World {
        env: &env,
        cfg: &pcfg,
        node,
        tree,
        tip,
        now: T0,
        clock,
        known: BTreeMap::new(),
        snap: Snap::default(),
        taint_desc: BTreeSet::new(),
        taint_anc: BTreeSet::new(),
        taint_limit: BTreeSet::new(),
        salt: 0,
        transients: vec![],
        abort: std::cell::Cell::new(false),
        pending_known: vec![],
        stale_anc_seen: false,
        refused_plug: false,
        strict,
        known_sigs: known,
        nontrivial: false,
        summary: vec![],
    };
    let mut rw = RW {
        w,
        rcfg: &case.cfg,
        uni: BTreeMap::new(),
        plan_ids: vec![],
        delivered: BTreeSet::new(),
        remote_subs: BTreeMap::new(),
        parked: BTreeMap::new(),
        opi: 0,
        flood_salt: 0,
        suspended: false,
        nontrivial: false,
        trace: vec![],
        tolerated: BTreeSet::new(),
        parked_committed: BTreeSet::new(),
    };
    rw.w.snap = rw.w.fetch()?;
    rw.build_plan(&case.plan, st);
    st.label(if case.cfg.rbf { "remote:cfg:rbf-on" } else { "remote:cfg:rbf-off" });
    if case.cfg.small_budget {
        st.label("remote:cfg:small-verify-budget");
    }
    let mut result: Result<(), Violation> = Ok(());
    let mut cut_short = false;
    // Held transactions are verified in a step of their own before a block is delivered: a verify
    // worker running while the pool's reorg task handles the block is a genuine race of the node (a
    // worker that parks an orphan just after the reorg task accepted its parent leaves it stranded;
    // seen once under load) whose outcome depends on timing, so it is kept out of the histories.
    let mut steps: Vec<(usize, ROp, bool)> = vec![];
    for (i, op) in case.ops.iter().enumerate() {
        if matches!(op, ROp::Mine { .. } | ROp::Reorg { .. }) {
            steps.push((i, ROp::Drain, true));
        }
        steps.push((i, op.clone(), false));
    }
    for (n, (i, op, implicit_drain)) in steps.iter().enumerate() {
        let (i, implicit_drain) = (*i, *implicit_drain);
        if implicit_drain && rw.w.snap.queue.is_empty() && !rw.suspended {
            continue;
        }
        rw.opi = n;
        let p0 = rw.w.snap.clone();
        rw.w.transients.clear();
        let r = (|| -> Verdict {
            let info = rw.apply(op, st)?;
            if rw.w.abort.get() || info.kind.is_empty() {
                return Ok(());
            }
            st.label(&format!("remote:op:{}{}", info.kind, if implicit_drain { "(held-txs-before-a-block)" } else { "" }));
            rw.w.check_after_kind(info.kind, &p0, st)?;
            if rw.w.abort.get() {
                return Ok(());
            }
            if rw.w.stale_anc_seen || !rw.w.taint_anc.is_empty() || !rw.w.taint_desc.is_empty() || !rw.w.taint_limit.is_empty() {
                // a listed C11 finding was tolerated: the pool's own counters are off from here on,
                // the judgement of admissibility (ancestor limit) would rest on them
                st.label("remote:history-ended-after-a-tolerated-known-finding");
                rw.w.abort.set(true);
                return Ok(());
            }
            rw.remote_checks(&p0, &info, st)
        })();
        if let Err(mut v) = r {
            if v.signature.starts_with("harness:") {
                let path = verif_dir().join("work").join(format!("C11-{sub}-inconclusive-{:016x}.json", fxhash64(&serde_json::to_string(case).unwrap_or_default())));
                let _ = std::fs::create_dir_all(path.parent().unwrap());
                let _ = std::fs::write(&path, serde_json::to_vec(&json!({"property": "C11", "sub": sub, "signature": v.signature, "case": case})).unwrap_or_default());
                v.detail = format!("{} [case kept in {}]", v.detail, path.display());
            }
            v.detail = format!("op {i}: {}", v.detail);
            result = Err(v);
            break;
        }
        if rw.w.abort.get() {
            cut_short = true;
            break;
        }
    }
    for sig in rw.w.pending_known.drain(..) {
        *st.known_hits.entry(sig).or_insert(0) += 1;
    }
    let out = if result.is_ok() && !cut_short { Some(rw.w.snap.clone()) } else { None };
    if result.is_ok() && rw.nontrivial {
        st.nontrivial(case);
        if st.want_sample() {
            let trace = rw.trace.clone();
            let cfg = case.cfg.clone();
            let n = rw.plan_ids.len();
            st.sample(|| json!({"sub": sub, "cfg": cfg, "plan_txs": n, "trace": trace}));
        }
    }
    if std::env::var_os("VERIF_C11_TRACE").is_some() {
        eprintln!("remote trace: {}", rw.trace.join("; "));
    }
    let plan_ids = rw.plan_ids.clone();
    rw.w.node.stop();
    result?;
    if sub == "remote-order" {
        if let Some(s) = &out {
            // every plan transaction is admissible once its parents are there: all pooled, none parked
            for id in &plan_ids {
                vensure!(s.entries.contains_key(id), "verdict-equivalence:policy-neutral-tx-not-pooled-after-remote-delivery", "plan tx {} is not pooled after every plan tx was delivered and the queue drained (orphans: {})", sid(id), s.orphans.len());
            }
            vensure!(s.orphans.is_empty(), "verdict-equivalence:orphans-left-after-every-parent-was-delivered", "{} orphans left", s.orphans.len());
        }
    }
    Ok(out)
}

/// the reference for `remote-order`: a second node gets the plan locally in topological order
fn run_local_reference(case: &RCase) -> Result<Snap, Violation> {
    let pcfg = remote_pool_cfg(&case.cfg);
    let env = build_env(&spec_cfg(&pcfg));
    let clock = ckb_systemtime::faketime();
    clock.set_faketime(T0);
    let mut tp = pool_config(&pcfg);
    tp.max_tx_verify_workers = 1;
    let node = Node::start(&env, NodeCfg { tx_pool: Some(tp), ..Default::default() }).map_err(|e| Violation::new("harness:node-start", e))?;
    let tree = Tree::new(env.consensus.clone());
    let tip = tree.genesis.clone();
    let never = |_: &str| false;
    let w = World {
        env: &env,
        cfg: &pcfg,
        node,
        tree,
        tip,
        now: T0,
        clock,
        known: BTreeMap::new(),
        snap: Snap::default(),
        taint_desc: BTreeSet::new(),
        taint_anc: BTreeSet::new(),
        taint_limit: BTreeSet::new(),
        salt: 0,
        transients: vec![],
        abort: std::cell::Cell::new(false),
        pending_known: vec![],
        stale_anc_seen: false,
        refused_plug: false,
        strict: true,
        known_sigs: &never,
        nontrivial: false,
        summary: vec![],
    };
    let mut rw = RW { w, rcfg: &case.cfg, uni: BTreeMap::new(), plan_ids: vec![], delivered: BTreeSet::new(), remote_subs: BTreeMap::new(), parked: BTreeMap::new(), opi: 0, flood_salt: 0, suspended: false, nontrivial: false, trace: vec![], tolerated: BTreeSet::new(), parked_committed: BTreeSet::new() };
    let mut scratch = Stats::default();
    rw.build_plan(&case.plan, &mut scratch);
    for id in rw.plan_ids.clone() {
        rw.tick();
        let tx = rw.uni[&id].tx.clone();
        let r = rw.ctl().submit_local_tx(tx).map_err(|e| Violation::new("harness:submit-channel", e.to_string()))?;
        if let Err(e) = r {
            rw.w.node.stop();
            return Err(Violation::new("harness:neutral-plan-tx-refused-locally", format!("plan tx {} refused by the reference node: {e}", sid(&id))));
        }
    }
    let s = rw.w.fetch()?;
    rw.w.node.stop();
    Ok(s)
}

fn run_order_case(case: &RCase, st: &mut Stats, strict: bool, known: &dyn Fn(&str) -> bool) -> Verdict {
    let a = match run_rcase(case, st, strict, known, "remote-order")? {
        Some(a) => a,
        None => return Ok(()),
    };
    let b = run_local_reference(case)?;
    let ids_a: Vec<String> = a.entries.keys().map(sid).collect();
    let ids_b: Vec<String> = b.entries.keys().map(sid).collect();
    vensure!(ids_a == ids_b, "verdict-equivalence:pool-after-remote-delivery-differs-from-local-topological-order:ids", "remote {:?} vs local {:?}", ids_a, ids_b);
    for (id, x) in &a.entries {
        let y = &b.entries[id];
        vensure!(
            x.anc == y.anc && x.desc == y.desc && x.cycles == y.cycles && x.fee == y.fee && x.size == y.size && a.parents.get(id) == b.parents.get(id) && a.children.get(id) == b.children.get(id),
            "verdict-equivalence:pool-after-remote-delivery-differs-from-local-topological-order:entry",
            "entry {}: remote anc {:?} desc {:?} cycles {} vs local anc {:?} desc {:?} cycles {}",
            sid(id),
            x.anc,
            x.desc,
            x.cycles,
            y.anc,
            y.desc,
            y.cycles
        );
    }
    vensure!(a.total_tx_size == b.total_tx_size && a.total_tx_cycles == b.total_tx_cycles, "verdict-equivalence:pool-after-remote-delivery-differs-from-local-topological-order:totals", "totals ({}, {}) vs ({}, {})", a.total_tx_size, a.total_tx_cycles, b.total_tx_size, b.total_tx_cycles);
    st.label("remote-order:pools-equal");
    if a.entries.len() >= 6 {
        st.label("remote-order:>=6-transactions");
    }
    Ok(())
}

pub fn run(ctx: &Ctx) {
    let known = |s: &str| ctx.is_known(s);
    let cases = ctx.cases(240, 3200);
    let max_ops = ctx.tier.pick(34, 50);
    ctx.run_prop("remote", cases, rcase_strategy(max_ops), |c, st| run_rcase(c, st, ctx.strict, &known, "remote").map(|_| ()));
    let cases = ctx.cases(48, 640);
    // while the finding about orphans waiting for a cell dep is listed, conflict-free plans carry no
    // cell deps on plan outputs (exclusion by construction; `remote` keeps generating and counting them)
    let with_deps = !ctx.is_known(DEP_ONLY_SIG);
    ctx.run_prop("remote-order", cases, order_case_strategy(with_deps), |c, st| run_order_case(c, st, ctx.strict, &known));
}

pub fn replay(ctx: &Ctx, sub: &str, v: &Value) -> Verdict {
    let c: RCase = from_case(v)?;
    let mut st = ctx.stats.borrow_mut();
    let known = |s: &str| ctx.is_known(s);
    let strict = ctx.strict && std::env::var_os("VERIF_C11_LENIENT").is_none();
    if sub == "remote-order" { run_order_case(&c, &mut st, strict, &known) } else { run_rcase(&c, &mut st, strict, &known, "remote").map(|_| ()) }
}
