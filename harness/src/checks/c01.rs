//! C01 — tip is the head of the heaviest fully valid chain, for any delivery order.
use crate::common::*;
use crate::plan::*;
use crate::model::*;
use crate::node::*;
use crate::vfail;
use ckb_store::ChainStore;
use ckb_types::U256;
use proptest::prelude::*;
use serde::{Deserialize, Serialize};
use serde_json::{Value, json};
use std::collections::{BTreeMap, BTreeSet};
use std::sync::mpsc;
use std::time::Duration;

pub fn spec() -> CheckSpec {
    CheckSpec {
        id: "C01",
        level: "exploration",
        rule: "proptest: block-tree plans (forks, uneven difficulty across the epoch-0/1 boundary or short fixed epochs, uncles, proposals/commits, contextually and structurally invalid blocks anywhere) built by the reference model, each delivered to fresh real nodes under 2-3 generated arrival schedules (creation order / local shuffles / random / children-first, duplicates, synchronous submit pipeline or asynchronous bursts); after every burst a barrier and the oracle: snapshot TD = max TD over received blocks whose whole ancestry is received and valid, tip is such a block, tip path verified, tip only ever moves to strictly larger TD, orphan count = received blocks with a missing ancestor, no valid-chain block is reported failed. A case = (plan, schedule); non-trivial = schedule delivers a child before its parent across a fork point, or makes the node reorg >= 2 blocks, or contains an invalid block on a branch heavier than the final tip; distinct by hash of (plan, schedule).",
        assumptions: &[
            "thread interleavings of the chain service threads are whatever the OS schedules; bursts vary them but do not enumerate them",
            "header-level checks for asynchronously delivered blocks are the sender's job in the real node (synchronizer / relayer run HeaderVerifier first): header-invalid blocks are only offered through the submit pipeline",
            "epoch transitions used to build blocks come from Consensus::next_epoch_ext over the model's tree (arithmetic itself is C07)",
        ],
        workers: |_| 8,
        watchdog_s: |t| t.pick(1500, 7200),
        run,
        replay,
    }
}

#[derive(Clone, Debug, Serialize, Deserialize)]
pub struct Schedule {
    /// 0 creation order, 1 local shuffle, 2 random, 3 deepest first
    pub mode: u8,
    pub jitter: Vec<u16>,
    /// duplicates: (position selector, block selector)
    pub dups: Vec<(u16, u16)>,
    /// percentage of deliveries attempted through the synchronous submit pipeline when possible
    pub sync_pct: u8,
    pub sync_sel: Vec<u8>,
    /// burst length pattern for asynchronous deliveries
    pub bursts: Vec<u8>,
    /// expiry family: the node cleans expired orphans before every request (hook), every delivery
    /// is followed by a barrier, and expired blocks are offered again at the end
    #[serde(default)]
    pub expiry: bool,
}

#[derive(Clone, Debug, Serialize, Deserialize)]
pub struct Case {
    pub variant: u8,
    pub plan: TreePlan,
    pub schedules: Vec<Schedule>,
}

pub fn schedule_strategy(n: usize) -> impl Strategy<Value = Schedule> {
    (
        prop_oneof![2 => Just(0u8), 3 => Just(1u8), 3 => Just(2u8), 2 => Just(3u8)],
        proptest::collection::vec(any::<u16>(), n),
        proptest::collection::vec((any::<u16>(), any::<u16>()), 0..6),
        prop_oneof![Just(0u8), Just(30u8), Just(70u8), Just(100u8)],
        proptest::collection::vec(any::<u8>(), n),
        proptest::collection::vec(1u8..12, 1..6),
    )
        .prop_map(|(mode, jitter, dups, sync_pct, sync_sel, bursts)| Schedule {
            mode,
            jitter,
            dups,
            sync_pct,
            sync_sel,
            bursts,
            expiry: false,
        })
}

pub fn variant_cfg(variant: u8) -> SpecCfg {
    let mut c = SpecCfg::default();
    match variant % 5 {
        4 => {
            // 2 blocks / epoch, constant difficulty: the orphan retention horizon (6 epochs) is
            // 14 blocks, and the tip's epoch never decreases (work is proportional to height)
            c.permanent_difficulty = true;
            c.epoch_duration_target = 16;
        }
        0 => {
            c.permanent_difficulty = false;
            c.genesis_epoch_length = 4;
        }
        1 => {
            c.permanent_difficulty = false;
            c.genesis_epoch_length = 7;
            c.proposal_window = (2, 4);
        }
        2 => {
            c.permanent_difficulty = true;
            c.epoch_duration_target = 40; // 5 blocks / epoch
        }
        _ => {
            c.permanent_difficulty = false;
            c.genesis_epoch_length = 3;
            c.proposal_window = (1, 2);
        }
    }
    c
}

pub fn case_strategy(max_blocks: usize) -> impl Strategy<Value = Case> {
    let p = PlanParams {
        min_blocks: 4,
        max_blocks,
        fork_pct: 35,
        tx_rate: 30,
        invalid_pct: 10,
        uncle_pct: 15,
        dao_pct: 0,
    };
    (
        0u8..4,
        tree_plan_strategy(p),
        proptest::collection::vec(schedule_strategy(max_blocks + 2), 2..=3),
    )
        .prop_map(|(variant, plan, schedules)| Case {
            variant,
            plan,
            schedules,
        })
}

struct Received {
    /// stored by the chain service (passed the context-free checks)
    set: BTreeSet<[u8; 32]>,
    /// handed to the chain service at all (includes structurally invalid blocks, which are
    /// remembered as BLOCK_INVALID but not stored)
    seen: BTreeSet<[u8; 32]>,
}

/// model predicate: block is received, all ancestors received, all valid
fn in_v(tree: &Tree, rec: &Received, h: &H) -> bool {
    let mut cur = tree.get(h);
    loop {
        if cur.number == 0 {
            return true;
        }
        if !rec.set.contains(&h32(&cur.hash)) || cur.invalid.is_some() {
            return false;
        }
        cur = tree.get(&cur.parent);
    }
}

fn connected(tree: &Tree, rec: &Received, h: &H) -> bool {
    // all strict ancestors received
    let mut cur = tree.get(h);
    loop {
        if cur.number == 0 {
            return true;
        }
        let p = tree.get(&cur.parent);
        if p.number != 0 && !rec.set.contains(&h32(&p.hash)) {
            return false;
        }
        cur = p;
    }
}

fn nc_invalid(b: &MBlock) -> bool {
    b.invalid.as_deref() == Some("BadTxRoot")
}

fn header_invalid(b: &MBlock) -> bool {
    b.invalid.as_deref() == Some("TimestampTooOld")
}

fn orphan_rec(tree: &Tree, rec: &Received, h: &H, memo: &mut BTreeMap<[u8; 32], bool>) -> bool {
    let k = h32(h);
    if let Some(v) = memo.get(&k) {
        return *v;
    }
    let b = tree.get(h);
    let r = if b.number == 0 || nc_invalid(b) {
        false
    } else {
        let p = tree.get(&b.parent);
        if p.number == 0 {
            false
        } else if nc_invalid(p) && rec.seen.contains(&h32(&p.hash)) {
            false
        } else if !rec.set.contains(&h32(&p.hash)) {
            true
        } else {
            orphan_rec(tree, rec, &p.hash, memo)
        }
    };
    memo.insert(k, r);
    r
}

/// expected number of blocks in the orphan pool at quiescence
fn expected_orphans(tree: &Tree, rec: &Received) -> usize {
    let mut memo: BTreeMap<[u8; 32], bool> = BTreeMap::new();
    let mut n = 0;
    for h in &tree.order {
        if rec.set.contains(&h32(h)) && orphan_rec(tree, rec, h, &mut memo) {
            n += 1;
        }
    }
    n
}

/// Expiry family: the model of `clean_expired_orphans` at a quiescent point.  A leader (absent parent
/// with children in the pool) is cleaned together with every pooled descendant when its child
/// satisfies `epoch + 6 < tip_epoch` (doc comment of `clean_expired_blocks`); when a leader has
/// children that disagree (possible only for siblings in different epochs) the code looks at an
/// arbitrary one, so the node is asked which way it went.  Cleaned blocks are forgotten entirely
/// (store, header map, block status): the model treats them as never received.
/// Returns (blocks expired, largest tip_epoch - epoch among orphans that stay).
fn model_expire(tree: &Tree, rec: &mut Received, node: &Node) -> (usize, u64) {
    let tip_epoch = node.shared.snapshot().tip_header().epoch().number();
    let mut memo: BTreeMap<[u8; 32], bool> = BTreeMap::new();
    let pool: BTreeSet<[u8; 32]> = tree
        .order
        .iter()
        .filter(|h| rec.set.contains(&h32(h)) && orphan_rec(tree, rec, h, &mut memo))
        .map(h32)
        .collect();
    let mut by_leader: BTreeMap<[u8; 32], Vec<H>> = BTreeMap::new();
    for h in &tree.order {
        if pool.contains(&h32(h)) {
            let p = &tree.get(h).parent;
            if !pool.contains(&h32(p)) {
                by_leader.entry(h32(p)).or_default().push(h.clone());
            }
        }
    }
    let expired_by_rule = |h: &H| tree.get(h).block.epoch().number() + 6 < tip_epoch;
    let mut removed: BTreeSet<[u8; 32]> = BTreeSet::new();
    let mut doomed_leaders: BTreeSet<[u8; 32]> = BTreeSet::new();
    for (leader, children) in &by_leader {
        let flags: Vec<bool> = children.iter().map(|c| expired_by_rule(c)).collect();
        let expire = if flags.iter().all(|f| *f == flags[0]) {
            flags[0]
        } else {
            node.chain().get_orphan_block(node.shared.store(), &children[0]).is_none()
        };
        if expire {
            doomed_leaders.insert(*leader);
        }
    }
    // creation order lists parents before children
    for h in &tree.order {
        let k = h32(h);
        if pool.contains(&k) {
            let p = h32(&tree.get(h).parent);
            if doomed_leaders.contains(&p) || removed.contains(&p) {
                removed.insert(k);
            }
        }
    }
    let mut max_age = 0u64;
    for h in &tree.order {
        let k = h32(h);
        if pool.contains(&k) && !removed.contains(&k) {
            max_age = max_age.max(tip_epoch.saturating_sub(tree.get(h).block.epoch().number()));
        }
    }
    for k in &removed {
        rec.set.remove(k);
        rec.seen.remove(k);
    }
    (removed.len(), max_age)
}

pub struct RunOut {
    pub final_tip: H,
    pub final_td: U256,
    pub max_reorg_depth: u64,
    pub child_before_parent_across_fork: bool,
    pub expired: usize,
    pub max_orphan_age: u64,
}

fn delivery_order(built: &Built, s: &Schedule) -> Vec<H> {
    let n = built.blocks.len();
    // mode 4 withholds one block for a generated delay: preferably the root of a side branch (a
    // block off the heaviest chain with descendants), so that its descendants wait as orphans while
    // the heaviest chain keeps growing
    let (withheld, withheld_delay) = if s.mode == 4 && n > 1 {
        let tree = &built.tree;
        let best = built.blocks.iter().max_by_key(|h| tree.get(h).td.clone()).unwrap();
        let on_best: BTreeSet<[u8; 32]> = tree.path(best).iter().map(|b| h32(&b.hash)).collect();
        let has_child = |h: &H| built.blocks.iter().any(|c| &tree.get(c).parent == h);
        let mut cands: Vec<usize> = (1..n)
            .filter(|i| {
                let h = &built.blocks[*i];
                !on_best.contains(&h32(h)) && has_child(h) && on_best.contains(&h32(&tree.get(h).parent))
            })
            .collect();
        if cands.is_empty() {
            cands = (1..=(n / 3).max(1).min(n - 1)).collect();
        }
        let w = cands[pick_idx(*s.jitter.first().unwrap_or(&0) as u32, cands.len())];
        (w, pick_idx(*s.jitter.get(1).unwrap_or(&0) as u32, n + 1 - w) as u64)
    } else {
        (usize::MAX, 0)
    };
    let mut keyed: Vec<(u64, usize)> = (1..n)
        .map(|i| {
            let j = *s.jitter.get(i).unwrap_or(&0) as u64;
            let key = match s.mode {
                0 => i as u64 * 8,
                1 => i as u64 * 8 + (j % 48),
                2 => j,
                4 => {
                    if i == withheld { (i as u64 + withheld_delay) * 8 + 4 } else { i as u64 * 8 }
                }
                _ => u64::MAX / 2 - built.tree.get(&built.blocks[i]).number * 65536 + (j % 1024),
            };
            (key, i)
        })
        .collect();
    keyed.sort();
    // blocks[0] is the anchor: always first
    let mut order: Vec<H> = vec![built.blocks[0].clone()];
    order.extend(keyed.iter().map(|(_, i)| built.blocks[*i].clone()));
    for (pos, blk) in &s.dups {
        if n == 0 {
            break;
        }
        let b = built.blocks[pick_idx(*blk as u32, n)].clone();
        let at = 1 + pick_idx(*pos as u32, order.len());
        order.insert(at.min(order.len()), b);
    }
    order
}

/// run one schedule on a fresh node and check the oracle at every quiescent point
pub fn run_schedule(env: &Env, built: &Built, s: &Schedule, st: &mut Stats) -> Result<RunOut, Violation> {
    run_schedule_with(env, built, s, st, &mut |_, _, _| Ok(()), NodeCfg::default()).map(|(o, _)| o)
}

/// Same, with an extra oracle evaluated at every quiescent point (after C01's own), and the node
/// handed back (still running) for end-of-history checks.
pub fn run_schedule_with(
    env: &Env,
    built: &Built,
    s: &Schedule,
    st: &mut Stats,
    extra: &mut dyn FnMut(&Node, &str, &mut Stats) -> Verdict,
    node_cfg: NodeCfg,
) -> Result<(RunOut, Node), Violation> {
    let tree = &built.tree;
    install_panic_recorder();
    clear_panics();
    ckb_chain::VERIF_CLEAN_ORPHANS_ON_REQUEST.store(s.expiry, std::sync::atomic::Ordering::SeqCst);
    let node = Node::start(env, node_cfg).map_err(|e| Violation::new("harness:node-start", e))?;
    let order = delivery_order(built, s);
    let mut expired = 0usize;
    let mut max_orphan_age = 0u64;
    let mut rec = Received { set: BTreeSet::new(), seen: BTreeSet::new() };
    let (tx, rx) = mpsc::channel::<(usize, Result<bool, String>)>();
    let mut results: BTreeMap<usize, Result<bool, String>> = BTreeMap::new();
    let mut delivered: Vec<H> = vec![];
    let mut last_tip = node.tip_hash();
    let mut last_td = node.shared.snapshot().total_difficulty().clone();
    let mut max_reorg = 0u64;
    let mut cbp_fork = false;
    let mut barrier: Option<H> = None;
    let mut burst_i = 0usize;
    let mut in_burst = 0u8;
    let mut pending_async = false;

    // the oracle at a quiescent point
    let check = |node: &Node,
                     rec: &Received,
                     last_tip: &mut H,
                     last_td: &mut U256,
                     max_reorg: &mut u64,
                     where_: &str|
     -> Verdict {
        let snap = node.shared.snapshot();
        let tip = snap.tip_hash();
        let td = snap.total_difficulty().clone();
        // (1)+(2)
        let mut best = tree.get(&tree.genesis).td.clone();
        for h in &tree.order {
            if in_v(tree, rec, h) && tree.get(h).td > best {
                best = tree.get(h).td.clone();
            }
        }
        if td != best {
            vfail!(
                "tip:total-difficulty-not-max-over-valid-chains",
                "{where_}: node TD {:#x} (tip {} #{}) but heaviest fully valid received chain has TD {:#x}",
                td,
                tip,
                snap.tip_number(),
                best
            );
        }
        if !tree.blocks.contains_key(&tip) || !in_v(tree, rec, &tip) {
            vfail!(
                "tip:not-a-fully-valid-received-chain",
                "{where_}: tip {} #{} is not the head of a received fully valid chain",
                tip,
                snap.tip_number()
            );
        }
        if tree.get(&tip).td != td {
            vfail!("tip:td-mismatch", "{where_}: snapshot TD {:#x} != model TD of tip {:#x}", td, tree.get(&tip).td);
        }
        // (3) monotone
        if tip != *last_tip {
            if td <= *last_td {
                vfail!(
                    "tip:moved-without-strictly-more-work",
                    "{where_}: tip moved {} -> {} with TD {:#x} -> {:#x}",
                    last_tip,
                    tip,
                    last_td,
                    td
                );
            }
            // reorg depth
            let mut a = tree.get(last_tip);
            let nb = tree.get(&tip);
            let mut depth = 0;
            while !tree.is_ancestor(&a.hash, &nb.hash) {
                depth += 1;
                a = tree.get(&a.parent);
            }
            if depth > *max_reorg {
                *max_reorg = depth;
            }
            *last_tip = tip.clone();
            *last_td = td.clone();
        }
        // (4) path verified, index consistent
        for b in tree.path(&tip) {
            let ext = snap.get_block_ext(&b.hash);
            match ext {
                Some(e) if e.verified == Some(true) && e.total_difficulty == b.td => {}
                other => vfail!(
                    "tip:path-block-not-verified",
                    "{where_}: main-chain block {} #{} ext = {:?}",
                    b.hash,
                    b.number,
                    other.map(|e| (e.verified, e.total_difficulty))
                ),
            }
            if snap.get_block_hash(b.number) != Some(b.hash.clone()) {
                vfail!("tip:number-index-mismatch", "{where_}: number {} does not map to main-chain block {}", b.number, b.hash);
            }
        }
        // (5) orphans
        let want = expected_orphans(tree, rec);
        let got = node.chain().orphan_blocks_len();
        if want != got {
            let mut dbg = String::new();
            for h in &tree.order {
                if node.chain().get_orphan_block(node.shared.store(), h).is_some() {
                    let b = tree.get(h);
                    dbg.push_str(&format!(
                        " [in pool: #{} {:#x} parent #{} status {:?} ext {:?} parent_seen {} parent_invalid {:?}]",
                        b.number,
                        b.hash,
                        tree.get(&b.parent).number,
                        node.shared.get_block_status(&b.parent),
                        snap.get_block_ext(&b.parent).map(|e| e.verified),
                        rec.seen.contains(&h32(&b.parent)),
                        tree.get(&b.parent).invalid
                    ));
                }
            }
            // classify: are all surplus pool blocks descendants of a block that failed?
            let mut surplus_all_under_failed = got > want;
            let mut memo = BTreeMap::new();
            for h in &tree.order {
                let in_pool = node.chain().get_orphan_block(node.shared.store(), h).is_some();
                let expected = rec.set.contains(&h32(h)) && orphan_rec(tree, rec, h, &mut memo);
                if in_pool && !expected {
                    let under_failed = tree.path(&tree.get(h).parent).iter().any(|x| x.invalid.is_some());
                    if !under_failed {
                        surplus_all_under_failed = false;
                    }
                }
                if expected && !in_pool {
                    surplus_all_under_failed = false;
                }
            }
            let sig = if surplus_all_under_failed {
                "orphans:descendants-of-a-failed-block-held-as-orphans"
            } else {
                "orphans:count-mismatch"
            };
            vfail!(
                sig,
                "{where_}: orphan pool holds {got} blocks, model expects {want} received blocks with a missing ancestor;{dbg}"
            );
        }
        Ok(())
    };

    let quiesce = |node: &Node, barrier: &Option<H>| -> Result<(), Violation> {
        // FIFO barrier through all three chain threads: re-deliver an already verified block
        let b = match barrier {
            Some(b) => tree.get(b).block.clone(),
            None => env.consensus.genesis_block().clone(),
        };
        // One round guarantees that everything delivered before it went through all three threads.
        // The round's own orphan search runs *after* the barrier block is forwarded, and blocks it
        // releases are verified after the barrier: repeat until a round changes nothing (>= 2 rounds).
        let mut prev: Option<(usize, H)> = None;
        for _round in 0..12 {
            let (btx, brx) = mpsc::channel();
            node.deliver_async(&b, usize::MAX, btx);
            if brx.recv_timeout(Duration::from_secs(60)).is_err() {
                // a dead chain thread is a violation; a mere time-out is inconclusive
                node_panic_violation()?;
                return Err(Violation::new("harness:barrier-timeout", "barrier block callback did not fire in 60 s"));
            }
            node_panic_violation()?;
            let now = (node.chain().orphan_blocks_len(), node.tip_hash());
            if prev.as_ref() == Some(&now) {
                return Ok(());
            }
            prev = Some(now);
        }
        Ok(())
    };

    for (i, h) in order.iter().enumerate() {
        let b = tree.get(h);
        let is_conn = connected(tree, &rec, h);
        let parent_known_valid_conn = is_conn;
        let sync_sel = *s.sync_sel.get(i % s.sync_sel.len().max(1)).unwrap_or(&0) as u32 * 100 / 256;
        let want_sync = sync_sel < s.sync_pct as u32 || i == 0;
        if header_invalid(b) {
            // only the submit pipeline may see it; it must refuse it
            if is_conn && rec.set.contains(&h32(&b.parent)) || tree.get(&b.parent).number == 0 {
                if pending_async {
                    quiesce(&node, &barrier)?;
                    if s.expiry {
                        let (n, a) = model_expire(tree, &mut rec, &node);
                        expired += n;
                        max_orphan_age = max_orphan_age.max(a);
                    }
                    pending_async = false;
                }
                match node.submit(&b.block) {
                    Err(_) => {}
                    Ok(r) => vfail!(
                        "submit:header-invalid-block-accepted",
                        "block #{} with timestamp <= median accepted by the submit pipeline: Ok({r})",
                        b.number
                    ),
                }
                st.label("delivery:header-invalid-refused");
            }
            continue;
        }
        // child before parent across a fork point?
        if !is_conn {
            let p = tree.get(&b.parent);
            let siblings = tree.order.iter().filter(|x| tree.get(x).parent == p.parent).count();
            let p_children = tree.order.iter().filter(|x| tree.get(x).parent == p.hash).count();
            if siblings > 1 || p_children > 1 {
                cbp_fork = true;
            }
            st.label("delivery:orphan");
        }
        let parent_stored = tree.get(&b.parent).number == 0
            || (rec.set.contains(&h32(&b.parent)) && !nc_invalid(tree.get(&b.parent)));
        // The submit pipeline is the miner's: it is only offered blocks whose parent chain is fully
        // valid (a miner builds on the node's own verified chain).  Blocks on a branch with an
        // invalid ancestor arrive the way a peer's would, asynchronously.
        let ancestors_valid = tree.path(&b.parent).iter().all(|x| x.invalid.is_none());
        if want_sync && parent_known_valid_conn && parent_stored && ancestors_valid {
            if pending_async {
                quiesce(&node, &barrier)?;
                if s.expiry {
                    let (n, a) = model_expire(tree, &mut rec, &node);
                    expired += n;
                    max_orphan_age = max_orphan_age.max(a);
                }
                pending_async = false;
                check(&node, &rec, &mut last_tip, &mut last_td, &mut max_reorg, &format!("before sync delivery {i}"))?;
            extra(&node, &format!("before sync delivery {i}"), &mut *st)?;
            }
            let r = node.submit(&b.block);
            st.label("delivery:sync");
            if matches!(&r, Err(e) if e.contains("PANIC")) {
                let snap = node.shared.snapshot();
                let mut dbg = String::new();
                for a in tree.path(&b.parent).iter().rev().take(40) {
                    if snap.get_block_header(&a.hash).is_none() {
                        dbg.push_str(&format!(
                            " [missing header #{} {:#x} invalid={:?} received={} status={:?}]",
                            a.number,
                            a.hash,
                            a.invalid,
                            rec.seen.contains(&h32(&a.hash)),
                            node.shared.get_block_status(&a.hash)
                        ));
                    }
                }
                vfail!(
                    "submit:header-verifier-panicked",
                    "delivery {i}: submitting block #{} (parent chain fully valid and received) panicked in HeaderVerifier;{dbg}",
                    b.number
                );
            }
            // a block whose parent was deleted (failed branch) is refused by the header check
            let chain_saw_it = !matches!(&r, Err(e) if e.starts_with("header:") || e.starts_with("parent"));
            if chain_saw_it {
                rec.seen.insert(h32(h));
                if !nc_invalid(b) {
                    rec.set.insert(h32(h));
                }
            }
            if nc_invalid(b) && r.is_ok() {
                vfail!("submit:structurally-invalid-block-accepted", "block #{} with a wrong transactions root: {r:?}", b.number);
            }
            if in_v(tree, &rec, h) || (b.invalid.is_none() && tree.path(h).iter().all(|x| x.invalid.is_none())) {
                if let Err(e) = &r {
                    vfail!(
                        "submit:valid-chain-block-reported-failed",
                        "delivery {i}: block {} #{} on a fully valid received chain was refused: {e}",
                        b.hash,
                        b.number
                    );
                }
            }
            results.insert(i, r);
            // the delivery may have released orphans that are verified asynchronously
            quiesce(&node, &barrier.clone().or_else(|| if in_v(tree, &rec, h) { Some(h.clone()) } else { None }))?;
            if s.expiry {
                let (n, a) = model_expire(tree, &mut rec, &node);
                expired += n;
                max_orphan_age = max_orphan_age.max(a);
            }
            check(&node, &rec, &mut last_tip, &mut last_td, &mut max_reorg, &format!("after sync delivery {i} (#{})", b.number))?;
            extra(&node, &format!("after sync delivery {i} (#{})", b.number), &mut *st)?;
            if barrier.is_none() && in_v(tree, &rec, h) {
                barrier = Some(h.clone());
            }
        } else {
            node.deliver_async(&b.block, i, tx.clone());
            st.label("delivery:async");
            rec.seen.insert(h32(h));
            if !nc_invalid(b) {
                rec.set.insert(h32(h));
            }
            pending_async = true;
            in_burst += 1;
            let blen = if s.expiry { 1 } else { s.bursts[burst_i % s.bursts.len()] };
            if in_burst >= blen {
                in_burst = 0;
                burst_i += 1;
                quiesce(&node, &barrier)?;
                if s.expiry {
                    let (n, a) = model_expire(tree, &mut rec, &node);
                    expired += n;
                    max_orphan_age = max_orphan_age.max(a);
                }
                pending_async = false;
                check(&node, &rec, &mut last_tip, &mut last_td, &mut max_reorg, &format!("after async burst ending at delivery {i}"))?;
            extra(&node, &format!("after async burst ending at delivery {i}"), &mut *st)?;
                if barrier.is_none() {
                    // first fully valid connected block becomes the barrier
                    for d in delivered.iter().chain(std::iter::once(h)) {
                        if in_v(tree, &rec, d) {
                            barrier = Some(d.clone());
                            break;
                        }
                    }
                }
            }
        }
        delivered.push(h.clone());
        while let Ok((tag, r)) = rx.try_recv() {
            results.insert(tag, r);
        }
    }
    if s.expiry {
        // blocks dropped by the clean-up are forgotten: offered again (parents first) they must be
        // accepted and connected like new ones
        for h in built.blocks.iter() {
            let b = tree.get(h);
            if rec.seen.contains(&h32(h)) || header_invalid(b) || b.number == 0 {
                continue;
            }
            let (rtx, _rrx) = mpsc::channel();
            node.deliver_async(&b.block, usize::MAX - 1, rtx);
            st.label("delivery:again-after-expiry");
            rec.seen.insert(h32(h));
            if !nc_invalid(b) {
                rec.set.insert(h32(h));
            }
            quiesce(&node, &barrier)?;
            let (n, a) = model_expire(tree, &mut rec, &node);
            expired += n;
            max_orphan_age = max_orphan_age.max(a);
            check(&node, &rec, &mut last_tip, &mut last_td, &mut max_reorg, &format!("after offering #{} again", b.number))?;
        }
    }
    quiesce(&node, &barrier)?;
    if s.expiry {
        let (n, a) = model_expire(tree, &mut rec, &node);
        expired += n;
        max_orphan_age = max_orphan_age.max(a);
    }
    check(&node, &rec, &mut last_tip, &mut last_td, &mut max_reorg, "final")?;
            extra(&node, "final", &mut *st)?;
    while let Ok((tag, r)) = rx.try_recv() {
        results.insert(tag, r);
    }
    // no fully-valid-chain block may have been reported failed
    for (i, r) in &results {
        if *i >= order.len() {
            continue;
        }
        let h = &order[*i];
        if let Err(e) = r {
            if tree.path(h).iter().all(|x| x.invalid.is_none()) {
                vfail!(
                    "async:valid-chain-block-reported-failed",
                    "delivery {i}: block {} #{} (whole ancestry valid) reported failed: {e}",
                    h,
                    tree.get(h).number
                );
            }
        }
    }
    let out = RunOut {
        final_tip: last_tip,
        final_td: last_td,
        max_reorg_depth: max_reorg,
        child_before_parent_across_fork: cbp_fork,
        expired,
        max_orphan_age,
    };
    Ok((out, node))
}

fn prop(case: &Case, st: &mut Stats) -> Verdict {
    let cfg = variant_cfg(case.variant);
    let env = build_env(&cfg);
    let built = Interp::new(&env).run(&case.plan);
    for (k, v) in &built.labels {
        st.label_n(k, *v);
    }
    if built.blocks.is_empty() {
        return Ok(());
    }
    let has_fork = {
        let mut parents = BTreeSet::new();
        built.blocks.iter().any(|h| !parents.insert(h32(&built.tree.get(h).parent)))
    };
    if has_fork {
        st.label("tree:has-fork");
    }
    let mut finals: Vec<(H, U256)> = vec![];
    for (si, s) in case.schedules.iter().enumerate() {
        st.eval("schedule");
        let out = run_schedule(&env, &built, s, st).map_err(|mut v| {
            v.detail = format!("[schedule {si}] {}", v.detail);
            v
        })?;
        let invalid_on_heavier = built.blocks.iter().any(|h| {
            let b = built.tree.get(h);
            b.invalid.is_some() && b.td > out.final_td
        });
        if out.max_reorg_depth >= 2 {
            st.label("schedule:reorg-depth>=2");
        }
        if out.child_before_parent_across_fork {
            st.label("schedule:child-before-parent-across-fork");
        }
        if invalid_on_heavier {
            st.label("schedule:invalid-block-on-heavier-branch");
        }
        if s.expiry {
            if out.expired > 0 {
                st.label("expiry:orphans-dropped-beyond-horizon");
            }
            if out.max_orphan_age >= 3 {
                st.label("expiry:orphan-kept-3+-epochs-behind-tip");
            }
        }
        let family_nontrivial = if s.expiry {
            out.expired > 0 || out.max_orphan_age >= 3
        } else {
            out.max_reorg_depth >= 2 || out.child_before_parent_across_fork || invalid_on_heavier
        };
        if family_nontrivial {
            st.nontrivial(&(serde_json::to_string(&case.plan).unwrap(), serde_json::to_string(s).unwrap(), case.variant));
            if st.want_sample() {
                st.sample(|| {
                    json!({"variant": case.variant, "blocks": built.blocks.len(),
                        "tree": built.blocks.iter().map(|h| { let b = built.tree.get(h); json!({"n": b.number, "parent_n": built.tree.get(&b.parent).number, "txs": b.block.transactions().len()-1, "uncles": b.block.uncles().data().len(), "invalid": b.invalid})}).collect::<Vec<_>>(),
                        "schedule_mode": s.mode, "sync_pct": s.sync_pct, "dups": s.dups.len(),
                        "expired_orphans": out.expired, "max_orphan_age_epochs": out.max_orphan_age,
                        "max_reorg_depth": out.max_reorg_depth, "final_tip_number": built.tree.get(&out.final_tip).number})
                });
            }
        }
        finals.push((out.final_tip, out.final_td));
    }
    // (6) permutation metamorphism: same final TD (implied by (1) per run; checked directly too)
    for w in finals.windows(2) {
        if w[0].1 != w[1].1 {
            vfail!(
                "permutation:final-td-differs",
                "two arrival orders of the same block set end at TD {:#x} vs {:#x}",
                w[0].1,
                w[1].1
            );
        }
    }
    Ok(())
}

/// directed family: small trees dense in invalid blocks, every block delivered asynchronously in
/// large bursts with many duplicates (several copies of a failing block in flight at once)
pub fn dup_case_strategy() -> impl Strategy<Value = Case> {
    let p = PlanParams {
        min_blocks: 3,
        max_blocks: 14,
        fork_pct: 30,
        tx_rate: 10,
        invalid_pct: 35,
        uncle_pct: 5,
        dao_pct: 0,
    };
    (
        0u8..4,
        tree_plan_strategy(p),
        proptest::collection::vec(
            (
                prop_oneof![Just(0u8), Just(1u8)],
                proptest::collection::vec(any::<u16>(), 16),
                proptest::collection::vec((any::<u16>(), any::<u16>()), 6..20),
                proptest::collection::vec(any::<u8>(), 16),
            )
                .prop_map(|(mode, jitter, dups, sync_sel)| Schedule {
                    mode,
                    jitter,
                    dups,
                    sync_pct: 0,
                    sync_sel,
                    bursts: vec![40],
                    expiry: false,
                }),
            2..=2,
        ),
    )
        .prop_map(|(variant, plan, schedules)| Case {
            variant,
            plan,
            schedules,
        })
}

/// expiry family: 2 blocks per epoch, one early block withheld for a generated delay so that its
/// descendants wait in the orphan pool while the rest of the tree grows past the retention horizon
pub fn expiry_case_strategy() -> impl Strategy<Value = Case> {
    let p = PlanParams {
        min_blocks: 24,
        max_blocks: 48,
        fork_pct: 30,
        tx_rate: 10,
        invalid_pct: 3,
        uncle_pct: 5,
        dao_pct: 0,
    };
    (
        tree_plan_strategy(p),
        proptest::collection::vec(
            (
                proptest::collection::vec(any::<u16>(), 2),
                proptest::collection::vec((any::<u16>(), any::<u16>()), 0..3),
                prop_oneof![Just(0u8), Just(50u8)],
                proptest::collection::vec(any::<u8>(), 16),
            )
                .prop_map(|(jitter, dups, sync_pct, sync_sel)| Schedule {
                    mode: 4,
                    jitter,
                    dups,
                    sync_pct,
                    sync_sel,
                    bursts: vec![1],
                    expiry: true,
                }),
            1..=2,
        ),
    )
        .prop_map(|(plan, schedules)| Case {
            variant: 4,
            plan,
            schedules,
        })
}

fn run(ctx: &Ctx) {
    ctx.shrink_iters.set(120);
    let cases = ctx.cases(800, 12000);
    let max_blocks = ctx.tier.pick(36, 90);
    ctx.run_prop("tree-x-schedules", cases, case_strategy(max_blocks), prop);
    let cases = ctx.cases(600, 9000);
    ctx.run_prop("duplicates-of-failing-blocks", cases, dup_case_strategy(), prop);
    let cases = ctx.cases(300, 4000);
    ctx.run_prop("orphan-retention-horizon", cases, expiry_case_strategy(), prop);
}

fn replay(ctx: &Ctx, _sub: &str, v: &Value) -> Verdict {
    let c: Case = from_case(v)?;
    let mut st = ctx.stats.borrow_mut();
    prop(&c, &mut st)
}
