//! C03 — a block joins the main chain iff it meets every consensus rule in its context.
use crate::common::*;
use crate::model::*;
use crate::node::*;
use crate::plan::*;
use crate::powmodel::{self, NonceMode, PowKind};
use crate::statecheck::check_snapshot;
use crate::vfail;
use ckb_shared::block_status::BlockStatus;
use ckb_types::{
    bytes::Bytes,
    core::{BlockView, EpochNumberWithFraction, TransactionView, UncleBlockView},
    packed::{self, Byte32, CellInput, CellOutput, OutPoint, ProposalShortId, Script},
    prelude::*,
};
use proptest::prelude::*;
use serde::{Deserialize, Serialize};
use serde_json::{Value, json};
use std::collections::BTreeMap;

pub fn spec() -> CheckSpec {
    CheckSpec {
        id: "C03",
        level: "exploration",
        rule: "proptest: a random valid history (reference model) drives a real node to a context past an epoch boundary and the proposal window; then a sequence of candidate blocks built on the tip (or on a side branch 1-3 blocks below it): boundary-valid candidates (timestamp = median+1 and = now+15000, extension of 32 and 96 bytes, maximum uncles, proposals at the limit, commits at exactly w_close and w_far; rival branches that overtake the chain and are overtaken again so that previously verified blocks are re-attached) that must be attached, and single-rule mutations (63 operators: header number/epoch/timestamp/parent, cellbase count/position/outputs/data/type/witness/since, roots and hashes, duplicates, limits, extension shape and chain root, uncle epoch/number/descent/duplicate/double inclusion/count/proposals, commit outside the window on both sides, unproposed commit, double spend, unknown input, reward +-1 / lock / premature output / output although the finalised reward cannot create the cell, each DAO component +-1, compact target) that must be refused through the miner's submit pipeline with tip, total difficulty and the full C02 column scan unchanged, the block remembered as invalid, and every descendant refused. Every operator keeps all other commitments consistent (the model recomputes DAO, reward, roots for the mutated body). Non-trivial = candidate evaluated in a context of height >= w_far+2 past >=1 epoch boundary; distinct by hash of (plan, operator sequence index). Sub-check pow: the same contexts, operators and scenarios on specs whose engine is Eaglesong / EaglesongBlake2b (dynamic difficulty, genesis targets around 2^248): every block and uncle of the history and of the candidates carries a nonce found by the harness's own search against an independent PoW reference (header bytes assembled field by field, blake2b, eaglesong crate, own compact-target decoding; ckb-pow is never asked), edited headers are sealed again so the edit stays the only broken rule; PoW candidates: the valid nonce closest below the target among the tried ones, the invalid nonce with the smallest excess, arbitrary nonces / a valid nonce with a high bit flipped / +1 (the reference decides), a nonce that meets the target only under the other engine's hash, headers claiming another target (doubled with a nonce meeting only the claimed one, halved, another encoding of the same number, ^1, the largest encodable target) with a nonce valid for the claimed target (must pass the header check and be refused by the epoch check), target encodings no hash can meet (zero mantissa, mantissa shifted out, exponent > 32), and the same for uncles (closest below, smallest excess, arbitrary, other engine, doubled target, second of two uncles). Sub-check limit-bytes: the spec's max_block_bytes is set per case relative to the history (equal to the largest history block, +1, or 1.5-12 kB); candidates padded (cellbase witness message, a committed transaction's witness, with block proposals, with uncles that carry proposals) to a counted size of exactly limit-1 / limit (attached) / limit+1 (refused as a whole), the counted size derived from the molecule layout (block minus the uncles' proposal ids) and compared with the repository's size functions; plus proposals = limit / +1, uncles = max / +1, an uncle's proposals = limit / +1 on the same specs. Sub-check limit-cycles: a candidate committing 1-12 plain transactions is first attached on a reference node with the default cycle limit where its recorded cycles are read; a second node whose spec has max_block_cycles = that sum / sum+1 / sum-1 gets the same chain: attached iff sum <= limit (one transaction over the limit fails in the script run, several in the block sum), state unchanged on refusal, and the recorded cycles equal on both nodes.",
        assumptions: &[
            "sub-check context-x-candidates runs on Dummy-engine specs (every nonce valid); real proof of work is exercised by sub-check pow at genesis targets around 2^248 (a few hundred to a few thousand hashes per block)",
            "limit-cycles takes the cost of a transaction from a reference node running the same code under the default limit (the VM's cycle accounting itself is C05's subject); what is decided here is the comparison with max_block_cycles at distance 0 and 1",
            "limit-bytes / limit-cycles set the limit through the chain spec parameter per case; limits are not part of the genesis block (checked: same genesis hash)",
        ],
        workers: |_| 8,
        watchdog_s: |t| t.pick(1500, 7200),
        run,
        replay,
    }
}

#[derive(Clone, Debug, Serialize, Deserialize)]
pub struct Case {
    pub variant: u8,
    pub plan: TreePlan,
    /// (operator selector, side-branch depth selector, aux selector)
    pub ops: Vec<(u8, u8, u16)>,
}

#[derive(Clone, Copy, Debug, PartialEq, Eq)]
enum Class {
    Valid,
    /// refused by the header check of the submit pipeline (the chain service never sees it)
    Header,
    /// refused by the chain service
    Chain,
}

const N_OPS: u8 = 80;

fn variant_cfg(variant: u8) -> SpecCfg {
    let mut c = SpecCfg {
        max_block_proposals_limit: Some(6),
        ..Default::default()
    };
    match variant % 4 {
        3 => {
            // small issuance: a miner lock of a few kilobytes makes a block's reward insufficient
            // to create its cell (the finalising cellbase must then have no output)
            c.permanent_difficulty = true;
            c.epoch_duration_target = 48;
            c.proposal_window = (2, 4);
            c.initial_primary_epoch_reward = Some(6 * 1_200 * 100_000_000);
            c.secondary_epoch_reward = Some(6 * 100 * 100_000_000);
        }
        0 => {
            c.permanent_difficulty = true;
            c.epoch_duration_target = 48; // 6 blocks / epoch
            c.proposal_window = (2, 4);
        }
        1 => {
            c.permanent_difficulty = false;
            c.genesis_epoch_length = 5;
            c.proposal_window = (1, 2);
        }
        _ => {
            c.permanent_difficulty = true;
            c.epoch_duration_target = 64;
            c.proposal_window = (2, 10);
        }
    }
    c
}

/// specs with a real proof-of-work engine.  The difficulty is dynamic there (the permanent-difficulty
/// switch only exists for Dummy): the genesis epoch is short, later epochs double in length, the target
/// moves with the generated timestamps.  Genesis targets of about 2^248 (one hash in ~256 meets it).
fn pow_variant_cfg(variant: u8) -> SpecCfg {
    let mut c = SpecCfg {
        max_block_proposals_limit: Some(6),
        permanent_difficulty: false,
        ..Default::default()
    };
    match variant % 4 {
        0 => {
            c.pow = 1;
            c.genesis_epoch_length = 5;
            c.proposal_window = (2, 4);
        }
        1 => {
            c.pow = 2;
            c.genesis_epoch_length = 5;
            c.proposal_window = (1, 2);
        }
        2 => {
            // 0xff0000 * 256^28: has a second encoding (0x2000ff00) that does not raise the overflow flag
            c.pow = 2;
            c.genesis_epoch_length = 4;
            c.proposal_window = (2, 10);
            c.genesis_compact_target = Some(0x1fff_0000);
        }
        _ => {
            c.pow = 1;
            c.genesis_epoch_length = 6;
            c.proposal_window = (2, 4);
            c.genesis_compact_target = Some(0x2001_8000);
            c.epoch_duration_target = 96;
        }
    }
    c
}

fn plan_params() -> PlanParams {
    PlanParams {
        min_blocks: 10,
        max_blocks: 26,
        fork_pct: 15,
        tx_rate: 45,
        invalid_pct: 0,
        uncle_pct: 10,
        dao_pct: 0,
    }
}

fn pow_case_strategy() -> impl Strategy<Value = Case> {
    let op = prop_oneof![5 => 100u8..(100 + N_POW_OPS), 2 => 0u8..N_OPS];
    (
        0u8..4,
        tree_plan_strategy(plan_params()),
        proptest::collection::vec((op, 0u8..8, any::<u16>()), 10..22),
    )
        .prop_map(|(variant, plan, ops)| Case { variant, plan, ops })
}

fn case_strategy() -> impl Strategy<Value = Case> {
    let p = PlanParams {
        min_blocks: 10,
        max_blocks: 26,
        fork_pct: 15,
        tx_rate: 45,
        invalid_pct: 0,
        uncle_pct: 10,
        dao_pct: 0,
    };
    (
        0u8..4,
        tree_plan_strategy(p),
        proptest::collection::vec((0u8..N_OPS, 0u8..8, any::<u16>()), 10..22),
    )
        .prop_map(|(variant, plan, ops)| Case { variant, plan, ops })
}

struct World<'a> {
    env: &'a Env,
    tree: Tree,
    node: Node,
    txs: BTreeMap<[u8; 10], TransactionView>,
    now: u64,
    _clock: ckb_systemtime::FaketimeGuard,
    /// makes every block built by the check unique (cellbase witness message)
    serial: std::cell::Cell<u32>,
}

impl World<'_> {
    fn set_now(&mut self, now: u64) {
        self.now = now;
        self._clock.set_faketime(now);
    }
    fn tip(&self) -> H {
        self.node.tip_hash()
    }
    fn next_ts(&self, parent: &H) -> u64 {
        let p = self.tree.get(parent);
        (p.block.timestamp() + 1000).max(self.tree.median_time(parent) + 1)
    }
    fn plain_spec(&self, parent: &H) -> BlockSpec {
        self.serial.set(self.serial.get() + 1);
        BlockSpec {
            timestamp: self.next_ts(parent),
            miner_lock: Some(self.env.always_success_lock.clone()),
            message: self.serial.get().to_le_bytes().to_vec(),
            ..Default::default()
        }
    }
    fn opts(&self) -> BuildOpts {
        BuildOpts {
            use_node_reward_quirk: true,
            ..Default::default()
        }
    }
    fn spendable(&self, parent: &H) -> BTreeMap<CellKey, (CellOutput, usize)> {
        self.tree
            .get(parent)
            .state
            .live
            .iter()
            .filter(|(_, c)| c.output.lock() == self.env.always_success_lock && c.output.type_().to_opt().is_none())
            .map(|(k, c)| (*k, (c.output.clone(), c.data.len())))
            .collect()
    }
    fn new_tx(&self, parent: &H, sel: u16) -> Option<TransactionView> {
        let mut avail = self.spendable(parent);
        build_tx(
            self.env,
            &TxStep {
                inputs: vec![sel],
                outputs: 1,
                fee: 4,
                data_len: 0,
                lock_variant: 0,
                kind: 0,
            },
            &mut avail,
        )
    }
    /// a sibling of an ancestor usable as an uncle of a child of `parent` (same epoch)
    fn make_uncle(&self, parent: &H, sel: u16) -> Option<UncleBlockView> {
        self.make_uncle_with(parent, sel, vec![])
    }
    fn make_uncle_with(&self, parent: &H, sel: u16, proposals: Vec<ProposalShortId>) -> Option<UncleBlockView> {
        let p = self.tree.get(parent);
        let new_epoch_start = p.number + 1 >= p.epoch.start_number() + p.epoch.length();
        if new_epoch_start || p.number < 1 {
            return None;
        }
        // build on an ancestor in the same epoch
        let lo = p.epoch.start_number().max(1);
        let span = p.number - lo + 1; // candidate heights lo..=p.number
        let h = lo + (sel as u64 % span);
        let gp = self.tree.ancestor(parent, h - 1)?;
        let mut spec = self.plain_spec(&gp.hash);
        spec.timestamp += 7 + sel as u64 % 5;
        spec.message.extend_from_slice(&[0xee, sel as u8]);
        spec.proposals = proposals;
        let u = self.tree.build(&gp.hash, &spec, &self.opts()).ok()?;
        if u.block.epoch().number() != p.epoch.number() {
            return None;
        }
        Some(u.block.as_uncle())
    }
}

/// block builder seeded with an uncle's header and proposals (UncleBlockView has no builder)
fn ub(u: &UncleBlockView) -> ckb_types::core::BlockBuilder {
    ckb_types::core::BlockBuilder::default()
        .header(u.header())
        .proposals(u.data().proposals().into_iter().collect::<Vec<_>>())
}

struct Cand {
    mb: MBlock,
    class: Class,
    name: &'static str,
}

fn rehash(mb: &mut MBlock, b: BlockView) {
    // total difficulty counts what the header claims (a stored side block weighs its claimed difficulty
    // until its branch is verified)
    let (old, new) = (mb.block.compact_target(), b.compact_target());
    if old != new && powmodel::target_of(new).is_some() {
        mb.td = mb.td.clone() - difficulty_of_compact(old) + difficulty_of_compact(new);
    }
    mb.hash = b.hash();
    mb.block = b;
}

/// real-PoW specs: search the nonce of an edited block again (first nonce meeting the target that the
/// edited header claims); unchanged under Dummy or when the claimed target cannot be met
fn reseal(pow: Option<PowKind>, b: BlockView) -> BlockView {
    match pow {
        Some(k) => powmodel::seal(k, &b, b.header().nonce(), NonceMode::Mine).unwrap_or(b),
        None => b,
    }
}

/// produce the candidate for operator `op` on `parent`; None = not applicable in this context
fn make(w: &mut World, op: u8, parent: &H, aux: u16) -> Option<Cand> {
    let env = w.env;
    let mut spec = w.plain_spec(parent);
    let mut o = w.opts();
    let p_number = w.tree.get(parent).number;
    let n = p_number + 1;
    let has_target = w.tree.reward_for_child_of(parent).is_some();
    // the cellbase carries an output only when the finalised reward can create the target's cell
    let has_reward = w
        .tree
        .reward_for_child_of(parent)
        .map(|r| occupied_shannons(&CellOutput::new_builder().lock(r.lock.clone()).build(), 0) <= r.total as u128)
        .unwrap_or(false);
    let median = w.tree.median_time(parent);
    let limit = env.consensus.max_block_proposals_limit() as usize;
    if op >= 100 {
        return make_pow(w, op, parent, aux);
    }
    let powk = w.tree.pow;
    let build = |w: &World, spec: &BlockSpec, o: &BuildOpts| w.tree.build(parent, spec, o).ok();
    // under a real PoW engine an edited header is sealed again (nonce search against the target the
    // edited header claims), so that the edit stays the only broken rule
    let edit = |mb: Option<MBlock>, f: &dyn Fn(&BlockView) -> BlockView| {
        mb.map(|mut m| {
            let b = reseal(powk, f(&m.block));
            rehash(&mut m, b);
            m
        })
    };
    let fake_ids = |k: usize, salt: u16| -> Vec<ProposalShortId> {
        (0..k)
            .map(|i| {
                let mut a = [0u8; 10];
                a[0] = 0xfa;
                a[1] = i as u8;
                a[2] = salt as u8;
                a[3] = (salt >> 8) as u8;
                a[4] = n as u8;
                ProposalShortId::new(a)
            })
            .collect()
    };
    let (mb, class, name): (Option<MBlock>, Class, &'static str) = match op {
        // ---------------- boundary-valid
        0 => (build(w, &spec, &o), Class::Valid, "valid:plain"),
        1 => {
            spec.timestamp = median + 1;
            // keep the epoch-duration subtraction of the code under test in range (DESIGN §4.9)
            let p = w.tree.get(parent);
            let prev_tail = if p.epoch.number() == 0 { 0 } else { w.tree.get(&p.epoch.last_block_hash_in_previous_epoch()).block.timestamp() };
            if spec.timestamp <= prev_tail.max(if p.number + 1 >= p.epoch.start_number() + p.epoch.length() { p.block.timestamp() } else { 0 }) {
                return None;
            }
            (build(w, &spec, &o), Class::Valid, "valid:timestamp=median+1")
        }
        2 => {
            spec.timestamp = w.now + 15_000;
            (build(w, &spec, &o), Class::Valid, "valid:timestamp=now+15000")
        }
        3 => {
            spec.extension_extra = vec![0x11; 64];
            (build(w, &spec, &o), Class::Valid, "valid:extension=96-bytes")
        }
        4 => {
            let u1 = w.make_uncle(parent, aux)?;
            let u2 = w.make_uncle(parent, aux.wrapping_add(3))?;
            if u1.hash() == u2.hash() {
                return None;
            }
            spec.uncles = vec![u1, u2];
            (build(w, &spec, &o), Class::Valid, "valid:uncles=max")
        }
        5 => {
            spec.proposals = fake_ids(limit, aux);
            (build(w, &spec, &o), Class::Valid, "valid:proposals=limit")
        }
        6 => {
            let u = w.make_uncle_with(parent, aux, fake_ids(limit, aux.wrapping_add(1)))?;
            spec.uncles = vec![u];
            (build(w, &spec, &o), Class::Valid, "valid:uncle-proposals=limit")
        }
        // ---------------- header level
        10 => (edit(build(w, &spec, &o), &|b| b.as_advanced_builder().number(n + 1).build()), Class::Header, "header:number+1"),
        11 => {
            if n < 2 {
                return None;
            }
            (edit(build(w, &spec, &o), &|b| b.as_advanced_builder().number(n - 1).build()), Class::Header, "header:number-1")
        }
        12 => {
            let mb = build(w, &spec, &o)?;
            let e = mb.block.epoch();
            if e.index() + 1 >= e.length() {
                return None;
            }
            (
                edit(Some(mb), &|b| {
                    let e = b.epoch();
                    b.as_advanced_builder().epoch(EpochNumberWithFraction::new(e.number(), e.index() + 1, e.length())).build()
                }),
                Class::Header,
                "header:epoch-index+1",
            )
        }
        13 => {
            let mb = build(w, &spec, &o)?;
            // inside an epoch the header check pins the length to the parent's; for the first
            // block of an epoch only the contextual epoch check knows the right length
            let first_of_epoch = mb.block.epoch().index() == 0;
            (
                edit(Some(mb), &|b| {
                    let e = b.epoch();
                    b.as_advanced_builder().epoch(EpochNumberWithFraction::new(e.number(), e.index(), e.length() + 1)).build()
                }),
                if first_of_epoch { Class::Chain } else { Class::Header },
                if first_of_epoch { "epoch:length+1-at-epoch-start" } else { "header:epoch-length+1" },
            )
        }
        14 => (
            edit(build(w, &spec, &o), &|b| {
                let e = b.epoch();
                b.as_advanced_builder().epoch(EpochNumberWithFraction::new(e.number() + 1, e.index(), e.length())).build()
            }),
            Class::Header,
            "header:epoch-number+1",
        ),
        15 => (
            edit(build(w, &spec, &o), &|b| {
                // malformed fraction (index = length): only constructible from raw bytes, as a peer would
                let e = b.epoch();
                let bad = EpochNumberWithFraction::new_unchecked(e.number(), e.length(), e.length());
                let header = b.data().header();
                let raw = header.raw().as_builder().epoch(bad.full_value()).build();
                let header = header.as_builder().raw(raw).build();
                b.data().as_builder().header(header).build().into_view()
            }),
            Class::Header,
            "header:epoch-index=length",
        ),
        16 => {
            spec.timestamp = median;
            // build through the model with a later timestamp, then set the header field
            let mut s2 = w.plain_spec(parent);
            s2.message.push(16);
            (edit(build(w, &s2, &o), &|b| b.as_advanced_builder().timestamp(median).build()), Class::Header, "header:timestamp=median")
        }
        17 => {
            let ts = w.now + 15_001;
            (edit(build(w, &spec, &o), &|b| b.as_advanced_builder().timestamp(ts).build()), Class::Header, "header:timestamp=now+15001")
        }
        18 => (
            edit(build(w, &spec, &o), &|b| {
                let mut h = [0x5au8; 32];
                h[0] = aux as u8;
                b.as_advanced_builder().parent_hash(Byte32::from_slice(&h).unwrap()).build()
            }),
            Class::Header,
            "header:unknown-parent",
        ),
        // ---------------- structure (context-free checks of the chain service)
        20 => {
            o.extra_cellbase = true;
            (build(w, &spec, &o), Class::Chain, "cellbase:two-cellbases")
        }
        21 => {
            let tx = commit_candidate(w, parent)?;
            spec.txs = vec![tx];
            o.cellbase_not_first = true;
            (build(w, &spec, &o), Class::Chain, "cellbase:not-first")
        }
        22 => {
            if !has_reward {
                return None;
            }
            o.cellbase_split = true;
            (build(w, &spec, &o), Class::Chain, "cellbase:two-outputs")
        }
        23 => {
            if !has_reward {
                return None;
            }
            o.cellbase_data = vec![1];
            (build(w, &spec, &o), Class::Chain, "cellbase:output-data")
        }
        24 => {
            if !has_reward {
                return None;
            }
            o.cellbase_type = Some(env.always_success_lock.clone());
            (build(w, &spec, &o), Class::Chain, "cellbase:type-script")
        }
        25 => {
            o.cellbase_bad_witness = 1;
            (build(w, &spec, &o), Class::Chain, "cellbase:no-witness")
        }
        26 => {
            o.cellbase_bad_witness = 2;
            (build(w, &spec, &o), Class::Chain, "cellbase:garbage-witness")
        }
        27 => {
            o.cellbase_bad_witness = 3;
            (build(w, &spec, &o), Class::Chain, "cellbase:witness-lock-unknown-hash-type")
        }
        28 => {
            o.cellbase_since_delta = if aux % 2 == 0 { 1 } else { -1 };
            (build(w, &spec, &o), Class::Chain, "cellbase:input-since-not-number")
        }
        29 => (
            edit(build(w, &spec, &o), &|b| b.as_advanced_builder().transactions_root(Byte32::zero()).build_unchecked()),
            Class::Chain,
            "roots:transactions-root",
        ),
        30 => {
            spec.proposals = fake_ids(2, aux);
            (
                edit(build(w, &spec, &o), &|b| b.as_advanced_builder().proposals_hash(Byte32::zero()).build_unchecked()),
                Class::Chain,
                "roots:proposals-hash",
            )
        }
        31 => {
            let mut ids = fake_ids(2, aux);
            ids.push(ids[0].clone());
            spec.proposals = ids;
            (build(w, &spec, &o), Class::Chain, "duplicate:proposal")
        }
        32 => {
            let tx = commit_candidate(w, parent)?;
            spec.txs = vec![tx.clone(), tx];
            o.allow_missing_inputs = true;
            (build(w, &spec, &o), Class::Chain, "duplicate:transaction")
        }
        33 => {
            spec.proposals = fake_ids(limit + 1, aux);
            (build(w, &spec, &o), Class::Chain, "limit:proposals+1")
        }
        34 => (
            edit(build(w, &spec, &o), &|b| b.as_advanced_builder().set_transactions(vec![]).build()),
            Class::Chain,
            "cellbase:none",
        ),
        35 => (
            edit(build(w, &spec, &o), &|b| b.as_advanced_builder().extra_hash(Byte32::zero()).build_unchecked()),
            Class::Chain,
            "roots:extra-hash",
        ),
        // ---------------- extension
        40 => {
            o.flip_chain_root = true;
            (build(w, &spec, &o), Class::Chain, "extension:chain-root-bit-flipped")
        }
        41 => {
            o.no_extension = true;
            (build(w, &spec, &o), Class::Chain, "extension:absent")
        }
        42 => {
            o.extension_override = Some(vec![]);
            (build(w, &spec, &o), Class::Chain, "extension:empty")
        }
        43 => {
            spec.extension_extra = vec![0x22; 65];
            (build(w, &spec, &o), Class::Chain, "extension:97-bytes")
        }
        44 => {
            o.extension_override = Some(vec![0x33; 31]);
            (build(w, &spec, &o), Class::Chain, "extension:31-bytes")
        }
        // ---------------- reward / DAO / target
        45 | 46 => {
            if !has_reward {
                return None;
            }
            o.reward_delta = if op == 45 { 1 } else { -1 };
            (build(w, &spec, &o), Class::Chain, if op == 45 { "reward:+1" } else { "reward:-1" })
        }
        47 => {
            if !has_reward {
                return None;
            }
            // a lock that differs from the target's whatever miner variant the plan used
            o.cellbase_lock_override = Some(
                env.always_success_lock
                    .clone()
                    .as_builder()
                    .args(Bytes::from(vec![9u8; 5]).pack())
                    .build(),
            );
            (build(w, &spec, &o), Class::Chain, "reward:wrong-lock")
        }
        48 => {
            if has_target {
                return None;
            }
            o.cellbase_force_output = true;
            (build(w, &spec, &o), Class::Chain, "reward:output-before-finalisation")
        }
        49..=56 => {
            let i = ((op - 49) / 2) as usize;
            o.dao_delta[i] = if (op - 49) % 2 == 0 { 1 } else { -1 };
            (
                build(w, &spec, &o),
                Class::Chain,
                ["dao:c+1", "dao:c-1", "dao:ar+1", "dao:ar-1", "dao:s+1", "dao:s-1", "dao:u+1", "dao:u-1"][(op - 49) as usize],
            )
        }
        57 => (
            edit(build(w, &spec, &o), &|b| b.as_advanced_builder().compact_target(b.compact_target() ^ 1).build()),
            Class::Chain,
            "epoch:compact-target",
        ),
        // ---------------- two-phase commit / transactions
        58 => {
            let tx = w.new_tx(parent, aux)?;
            if w.tree.committable(parent).contains(&pid(&tx.proposal_short_id())) {
                return None;
            }
            spec.txs = vec![tx];
            (build(w, &spec, &o), Class::Chain, "commit:never-proposed")
        }
        59 => {
            // double spend inside the block: two different proposed txs... use one committable tx
            // plus a fresh tx spending the same input
            let tx = commit_candidate(w, parent)?;
            let inp = tx.inputs().get(0)?;
            let twin = tx
                .as_advanced_builder()
                .set_outputs(vec![tx.outputs().get(0)?.as_builder().lock(lock_variant(env, 2)).build()])
                .set_outputs_data(vec![Bytes::new().pack()])
                .set_inputs(vec![inp])
                .build();
            spec.txs = vec![tx, twin];
            o.allow_missing_inputs = true;
            (build(w, &spec, &o), Class::Chain, "tx:double-spend-in-block")
        }
        60 => {
            let tx = commit_candidate(w, parent)?;
            let bad = tx
                .as_advanced_builder()
                .set_inputs(vec![CellInput::new(OutPoint::new(Byte32::from_slice(&[0x77; 32]).unwrap(), aux as u32), 0)])
                .build();
            spec.txs = vec![bad];
            o.allow_missing_inputs = true;
            (build(w, &spec, &o), Class::Chain, "tx:unknown-input")
        }
        // ---------------- uncles
        61 => {
            // uncle from the previous epoch (only right after an epoch boundary)
            let p = w.tree.get(parent);
            if p.epoch.number() == 0 || p.number != p.epoch.start_number() || p.number < 3 {
                return None;
            }
            let gp = w.tree.ancestor(parent, p.number - 2)?;
            let mut s2 = w.plain_spec(&gp.hash);
            s2.message.push(61);
            let u = w.tree.build(&gp.hash, &s2, &w.opts()).ok()?;
            spec.uncles = vec![u.block.as_uncle()];
            (build(w, &spec, &o), Class::Chain, "uncle:previous-epoch")
        }
        62 if aux % 2 == 1 => {
            // the candidate's own sibling (same parent, same number, same epoch and target, never
            // included): the only rule it breaks is "an uncle is lower than the block that embeds it"
            let p = w.tree.get(parent);
            if p.number + 1 >= p.epoch.start_number() + p.epoch.length() {
                return None;
            }
            let mut s2 = w.plain_spec(parent);
            s2.timestamp += 3 + aux as u64 % 5;
            s2.message.extend_from_slice(&[0xe2, aux as u8]);
            let sib = w.tree.build(parent, &s2, &w.opts()).ok()?;
            spec.uncles = vec![sib.block.as_uncle()];
            (build(w, &spec, &o), Class::Chain, "uncle:sibling-of-the-block")
        }
        62 => {
            let u = w.make_uncle(parent, aux)?;
            let bad = reseal(powk, ub(&u).number(n).build()).as_uncle();
            spec.uncles = vec![bad];
            (build(w, &spec, &o), Class::Chain, "uncle:number>=block-number")
        }
        63 => {
            let u = w.make_uncle(parent, aux)?;
            spec.uncles = vec![u.clone(), u];
            (build(w, &spec, &o), Class::Chain, "uncle:duplicate-in-block")
        }
        64 => {
            // an uncle already included on this chain
            let p = w.tree.get(parent);
            let included: Vec<UncleBlockView> = w
                .tree
                .path(parent)
                .iter()
                .rev()
                .flat_map(|b| b.block.uncles().into_iter())
                .filter(|u| u.epoch().number() == p.epoch.number())
                .collect();
            let u = included.first()?.clone();
            if p.number + 1 >= p.epoch.start_number() + p.epoch.length() {
                return None;
            }
            spec.uncles = vec![u];
            (build(w, &spec, &o), Class::Chain, "uncle:double-inclusion")
        }
        65 => {
            let us: Vec<UncleBlockView> = (0..3).filter_map(|i| w.make_uncle(parent, aux.wrapping_add(i * 5))).collect();
            let mut uniq: Vec<UncleBlockView> = vec![];
            for u in us {
                if !uniq.iter().any(|x| x.hash() == u.hash()) {
                    uniq.push(u);
                }
            }
            if uniq.len() < 3 {
                return None;
            }
            spec.uncles = uniq;
            (build(w, &spec, &o), Class::Chain, "uncle:count=max+1")
        }
        66 => {
            let u = w.make_uncle(parent, aux)?;
            let bad = ub(&u).proposals(fake_ids(1, aux)).build_unchecked().as_uncle();
            // keep the header (and so the hash) but attach other proposals
            let data = packed::UncleBlock::new_builder().header(u.data().header()).proposals(bad.data().proposals()).build();
            spec.uncles = vec![data.into_view()];
            (build(w, &spec, &o), Class::Chain, "uncle:proposals-hash")
        }
        67 => {
            let u = w.make_uncle(parent, aux)?;
            let mut h = [0x3cu8; 32];
            h[1] = aux as u8;
            let bad = reseal(powk, ub(&u).parent_hash(Byte32::from_slice(&h).unwrap()).build()).as_uncle();
            spec.uncles = vec![bad];
            (build(w, &spec, &o), Class::Chain, "uncle:unknown-parent")
        }
        68 => {
            // a main-chain ancestor as uncle
            let p = w.tree.get(parent);
            if p.number < 2 || p.number + 1 >= p.epoch.start_number() + p.epoch.length() || p.number - 1 < p.epoch.start_number() {
                return None;
            }
            let a = w.tree.ancestor(parent, p.number - 1)?;
            spec.uncles = vec![a.block.as_uncle()];
            (build(w, &spec, &o), Class::Chain, "uncle:main-chain-block")
        }
        69 => {
            let u = w.make_uncle(parent, aux)?;
            let bad = reseal(powk, ub(&u).compact_target(u.compact_target() ^ 1).build()).as_uncle();
            spec.uncles = vec![bad];
            (build(w, &spec, &o), Class::Chain, "uncle:wrong-target")
        }
        70 => {
            let u = w.make_uncle(parent, aux)?;
            let mut ids = fake_ids(2, aux);
            ids.push(ids[0].clone());
            let bad = reseal(powk, ub(&u).proposals(ids).build()).as_uncle();
            spec.uncles = vec![bad];
            (build(w, &spec, &o), Class::Chain, "uncle:duplicate-proposals")
        }
        71 => {
            let u = w.make_uncle(parent, aux)?;
            let bad = reseal(powk, ub(&u).proposals(fake_ids(limit + 1, aux)).build()).as_uncle();
            spec.uncles = vec![bad];
            (build(w, &spec, &o), Class::Chain, "uncle:proposals-over-limit")
        }
        _ => return None,
    };
    mb.map(|mb| Cand { mb, class, name })
}


// ------------------------------------------------------------------------------------------------
// `pow` family: candidates that only make sense under a real proof-of-work engine
// ------------------------------------------------------------------------------------------------

/// how far the PoW output of a header lies from the target it claims (relative, leading 64 bits)
fn margin_label(kind: PowKind, h: &ckb_types::core::HeaderView, prefix: &str) -> String {
    let Some(t) = powmodel::target_of(h.compact_target()) else {
        return format!("{prefix}:unmeetable-target");
    };
    let out = powmodel::pow_output(kind, &powmodel::pow_hash(h), h.nonce());
    let below = out <= t;
    let (o, t) = (powmodel::top64(&out) as u128, (powmodel::top64(&t) as u128).max(1));
    let d = if o <= t { t - o } else { o - t };
    let pm = d * 1000 / t;
    let bucket = if pm < 1 {
        "<0.1%"
    } else if pm < 10 {
        "<1%"
    } else if pm < 100 {
        "<10%"
    } else {
        ">=10%"
    };
    format!("{prefix}:{}-by{bucket}-of-target", if below { "below-or-at" } else { "above" })
}

/// a nonce whose output meets `claimed` but not `true_compact`'s target
fn seal_between(kind: PowKind, b: &BlockView, start: u128, true_compact: u32) -> Option<BlockView> {
    let hi = powmodel::target_of(b.compact_target())?;
    let lo = powmodel::target_of(true_compact)?;
    let ph = powmodel::pow_hash(&b.header());
    let mut n = start;
    for _ in 0..powmodel::PROBE_CAP {
        let out = powmodel::pow_output(kind, &ph, n);
        if out <= hi && out > lo {
            return Some(powmodel::with_header(b, Some(n), None));
        }
        n = n.wrapping_add(1);
    }
    None
}

const N_POW_OPS: u8 = 14;

fn make_pow(w: &mut World, op: u8, parent: &H, aux: u16) -> Option<Cand> {
    let kind = w.tree.pow?;
    let mut spec = w.plain_spec(parent);
    let start: u128 = ((aux as u128) << 24) | ((w.serial.get() as u128) << 48);
    spec.nonce = start;
    let mut o = w.opts();
    let build = |w: &World, spec: &BlockSpec, o: &BuildOpts| w.tree.build(parent, spec, o).ok();
    // class of a finished candidate whose nonce was not searched for validity: the model decides
    let by_model = |mb: MBlock, valid: &'static str, invalid: &'static str| -> Cand {
        if powmodel::pow_valid(kind, &mb.block.header()) {
            Cand { mb, class: Class::Valid, name: valid }
        } else {
            Cand { mb, class: Class::Header, name: invalid }
        }
    };
    // an uncle with another nonce (everything else of its header untouched)
    let uncle_sealed = |u: &UncleBlockView, mode: NonceMode, nonce: u128| -> Option<UncleBlockView> {
        powmodel::seal(kind, &ub(u).build_unchecked(), nonce, mode).map(|b| b.as_uncle())
    };
    match op {
        100 => {
            o.nonce_mode = NonceMode::ClosestBelow;
            build(w, &spec, &o).map(|mb| Cand { mb, class: Class::Valid, name: "valid:pow-closest-below-target" })
        }
        101 => {
            o.nonce_mode = NonceMode::SmallestExcess;
            build(w, &spec, &o).map(|mb| Cand { mb, class: Class::Header, name: "pow:smallest-excess-over-target" })
        }
        102 => {
            o.nonce_mode = NonceMode::Fixed;
            spec.nonce = (aux as u128).wrapping_mul(0x9e37_79b9_7f4a_7c15_f39c_c060_5ced_c835) ^ start;
            build(w, &spec, &o).map(|mb| by_model(mb, "valid:pow-arbitrary-nonce-meets-target", "pow:arbitrary-nonce"))
        }
        103 => {
            o.nonce_mode = NonceMode::OtherEngineOnly;
            build(w, &spec, &o).map(|mb| Cand { mb, class: Class::Header, name: "pow:meets-target-under-the-other-engine-only" })
        }
        104 | 105 => {
            // a nonce next to a valid one: a high bit flipped (the nonce is 128 bits wide) or +1
            let first = build(w, &spec, &o)?;
            let n = first.block.header().nonce();
            o.nonce_mode = NonceMode::Fixed;
            spec.nonce = if op == 104 { n ^ (1u128 << (64 + aux % 64)) } else { n.wrapping_add(1) };
            build(w, &spec, &o).map(|mb| {
                if op == 104 {
                    by_model(mb, "valid:pow-arbitrary-nonce-meets-target", "pow:valid-nonce-with-a-high-bit-flipped")
                } else {
                    by_model(mb, "valid:pow-arbitrary-nonce-meets-target", "pow:valid-nonce+1")
                }
            })
        }
        106 => {
            // the header claims a target that is not its epoch's and carries a nonce that is valid for
            // the claimed target: the header check passes, the contextual epoch check must refuse
            let mut mb = build(w, &spec, &o)?;
            let c = mb.block.compact_target();
            let (claimed, name, only_claimed) = match aux % 4 {
                0 => (powmodel::scale_compact(c, true)?, "epoch:compact-target-doubled-pow-meets-only-the-claimed-target", true),
                1 => (powmodel::scale_compact(c, false)?, "epoch:compact-target-halved-with-valid-pow", false),
                2 => (
                    powmodel::other_encoding(c).filter(|x| powmodel::target_of(*x).is_some())?,
                    "epoch:compact-target-other-encoding-of-the-same-target",
                    false,
                ),
                _ => (c ^ 1, "epoch:compact-target^1-with-valid-pow", false),
            };
            let b = powmodel::with_header(&mb.block, None, Some(claimed));
            let b = if only_claimed { seal_between(kind, &b, start, c)? } else { powmodel::seal(kind, &b, start, NonceMode::Mine)? };
            rehash(&mut mb, b);
            Some(Cand { mb, class: Class::Chain, name })
        }
        107 => {
            // probes on the target encoding: values no hash can meet (zero mantissa, mantissa shifted out,
            // exponent above 32) are refused by the header check; the largest encodable target with a
            // valid nonce passes it and must be refused by the epoch check
            let mut mb = build(w, &spec, &o)?;
            let c = mb.block.compact_target();
            let mut list: Vec<u32> = vec![0, 0x2000_0000, 0x0100_0000, 0x0200_00ff, 0x2100_0001, 0x2101_0000, 0x2200_0100, 0xff00_0001, 0x20ff_ffff, 0x2100_0000];
            if let Some(x) = powmodel::other_encoding(c) {
                list.push(x);
                list.push(x);
            }
            let claimed = list[aux as usize % list.len()];
            if claimed == c {
                return None;
            }
            let b = powmodel::with_header(&mb.block, None, Some(claimed));
            match powmodel::target_of(claimed) {
                None => {
                    rehash(&mut mb, b);
                    Some(Cand { mb, class: Class::Header, name: "pow:target-encoding-no-hash-can-meet" })
                }
                Some(_) => {
                    let b = powmodel::seal(kind, &b, start, NonceMode::Mine)?;
                    rehash(&mut mb, b);
                    Some(Cand { mb, class: Class::Chain, name: "epoch:compact-target-other-meetable-encoding-with-valid-pow" })
                }
            }
        }
        108 => {
            let u = uncle_sealed(&w.make_uncle(parent, aux)?, NonceMode::ClosestBelow, start)?;
            spec.uncles = vec![u];
            build(w, &spec, &o).map(|mb| Cand { mb, class: Class::Valid, name: "valid:uncle-pow-closest-below-target" })
        }
        109 => {
            let u = uncle_sealed(&w.make_uncle(parent, aux)?, NonceMode::SmallestExcess, start)?;
            spec.uncles = vec![u];
            build(w, &spec, &o).map(|mb| Cand { mb, class: Class::Chain, name: "uncle:pow-smallest-excess-over-target" })
        }
        110 => {
            let nonce = (aux as u128).wrapping_mul(0xc2b2_ae3d_27d4_eb4f_1656_67b1_9e37_79f9) ^ start;
            let u = uncle_sealed(&w.make_uncle(parent, aux)?, NonceMode::Fixed, nonce)?;
            let ok = powmodel::pow_valid(kind, &u.header());
            spec.uncles = vec![u];
            build(w, &spec, &o).map(|mb| {
                if ok {
                    Cand { mb, class: Class::Valid, name: "valid:uncle-arbitrary-nonce-meets-target" }
                } else {
                    Cand { mb, class: Class::Chain, name: "uncle:pow-arbitrary-nonce" }
                }
            })
        }
        111 => {
            let u = uncle_sealed(&w.make_uncle(parent, aux)?, NonceMode::OtherEngineOnly, start)?;
            spec.uncles = vec![u];
            build(w, &spec, &o).map(|mb| Cand { mb, class: Class::Chain, name: "uncle:pow-meets-target-under-the-other-engine-only" })
        }
        112 => {
            // an uncle claiming twice the epoch's target with a nonce that meets only the claimed one
            let u = w.make_uncle(parent, aux)?;
            let c = u.compact_target();
            let claimed = powmodel::scale_compact(c, true)?;
            let b = powmodel::with_header(&ub(&u).build_unchecked(), None, Some(claimed));
            let b = seal_between(kind, &b, start, c)?;
            spec.uncles = vec![b.as_uncle()];
            build(w, &spec, &o).map(|mb| Cand { mb, class: Class::Chain, name: "uncle:target-doubled-pow-meets-only-the-claimed-target" })
        }
        113 => {
            // two uncles, only the second one's proof of work fails
            let u1 = w.make_uncle(parent, aux)?;
            let u2 = w.make_uncle(parent, aux.wrapping_add(3))?;
            if u1.hash() == u2.hash() {
                return None;
            }
            let u2 = uncle_sealed(&u2, NonceMode::SmallestExcess, start)?;
            spec.uncles = vec![u1, u2];
            build(w, &spec, &o).map(|mb| Cand { mb, class: Class::Chain, name: "uncle:second-uncle-pow-over-target" })
        }
        _ => None,
    }
}

/// a transaction that may be committed on top of `parent` right now
fn commit_candidate(w: &World, parent: &H) -> Option<TransactionView> {
    let ids = w.tree.committable(parent);
    let st = &w.tree.get(parent).state;
    for id in ids.iter() {
        if let Some(tx) = w.txs.get(id) {
            if st.tx_index.contains_key(&h32(&tx.hash())) {
                continue;
            }
            if tx.inputs().into_iter().all(|i| st.live.contains_key(&cell_key(&i.previous_output()))) {
                return Some(tx.clone());
            }
        }
    }
    None
}

fn evaluate(w: &mut World, cand: Cand, parent: &H, on_tip: bool, st: &mut Stats) -> Verdict {
    let before_tip = w.tip();
    let before_td = w.node.shared.snapshot().total_difficulty().clone();
    let name = cand.name;
    let b = cand.mb.block.clone();
    let r = w.node.submit(&b);
    st.label(&format!("op:{name}"));
    if let Some(k) = w.tree.pow {
        let easy = powmodel::target_of(w.tree.get(parent).epoch.compact_target()).map(|t| t[0] >= 0x40).unwrap_or(false);
        st.label(if easy { "pow-context:epoch-target>=2^254(most-hashes-meet-it)" } else { "pow-context:epoch-target<2^254" });
        st.label(&margin_label(k, &b.header(), "pow-margin"));
        if name.contains("uncle") {
            if let Some(u) = b.uncles().into_iter().last() {
                st.label(&margin_label(k, &u.header(), "uncle-pow-margin"));
            }
        }
    }
    match cand.class {
        Class::Valid => {
            match &r {
                Ok(true) => {}
                other => vfail!(
                    format!("valid-refused:{name}"),
                    "boundary-valid candidate #{} ({name}) on {} was not accepted: {other:?}",
                    b.number(),
                    if on_tip { "the tip" } else { "a side branch" }
                ),
            }
            let h = w.tree.insert(cand.mb);
            let heavier = w.tree.get(&h).td > before_td;
            let tip = w.tip();
            if heavier && tip != h {
                vfail!(format!("valid-not-attached:{name}"), "valid heaviest candidate #{} ({name}) accepted but the tip is {}", b.number(), tip);
            }
            if !heavier && tip != before_tip {
                vfail!(format!("valid-lighter-moved-tip:{name}"), "a valid but not heavier candidate moved the tip");
            }
            check_snapshot(&w.node.shared.snapshot(), &w.tree, &format!("after valid candidate {name}"), st)?;
        }
        Class::Header | Class::Chain => {
            if let Ok(v) = &r {
                // contextually invalid side-branch blocks may be stored unverified
                let side_ok = !on_tip && cand.class == Class::Chain && cand.mb.td <= before_td && *v;
                if !side_ok {
                    vfail!(
                        format!("invalid-accepted:{name}"),
                        "candidate #{} violating exactly one rule ({name}) on {} was accepted: Ok({v})",
                        b.number(),
                        if on_tip { "the tip" } else { "a side branch" }
                    );
                }
                st.label("side-branch:stored-unverified");
            }
            if w.tip() != before_tip || w.node.shared.snapshot().total_difficulty() != &before_td {
                vfail!(format!("invalid-moved-tip:{name}"), "tip or total difficulty changed after refusing ({name})");
            }
            check_snapshot(&w.node.shared.snapshot(), &w.tree, &format!("after invalid candidate {name}"), st)?;
            let mut mb = cand.mb;
            mb.invalid = Some(name.to_string());
            let hash = mb.hash.clone();
            if cand.class == Class::Chain && r.is_err() {
                let status = w.node.shared.get_block_status(&hash);
                if status != BlockStatus::BLOCK_INVALID {
                    vfail!(
                        format!("invalid-not-remembered:{name}"),
                        "block refused ({name}: {r:?}) but its status is {status:?}; candidate #{} ts {} parent ts {} now {} tip #{} ts {}",
                        b.number(),
                        b.timestamp(),
                        w.tree.get(parent).block.timestamp(),
                        w.now,
                        w.tree.get(&before_tip).number,
                        w.tree.get(&before_tip).block.timestamp()
                    );
                }
            }
            // descendants: must never become canonical
            if cand.class == Class::Chain && !w.tree.blocks.contains_key(&hash) {
                w.tree.insert(mb);
                let mut cur = hash.clone();
                for k in 0..3 {
                    let spec = w.plain_spec(&cur);
                    let Ok(child) = w.tree.build(&cur, &spec, &w.opts()) else { break };
                    let cb = child.block.clone();
                    let child_td = child.td.clone();
                    let mut child = child;
                    child.invalid = Some(format!("descendant-of:{name}"));
                    let res = w.node.process(&cb);
                    let heavier = child_td > before_td;
                    if heavier {
                        if let Ok(v) = res {
                            vfail!(
                                format!("descendant-accepted:{name}"),
                                "descendant {k} (#{}) of a block violating {name} made the branch heaviest and was accepted: Ok({v})",
                                cb.number()
                            );
                        }
                    }
                    if w.tip() != before_tip {
                        vfail!(format!("descendant-moved-tip:{name}"), "tip moved to a branch containing a block that violates {name}");
                    }
                    cur = w.tree.insert(child);
                    st.label("descendant:checked");
                    if heavier {
                        break;
                    }
                }
                check_snapshot(&w.node.shared.snapshot(), &w.tree, &format!("after descendants of {name}"), st)?;
            }
        }
    }
    node_panic_violation()
}

/// commit-window scenario: propose in a block on the tip, then commit at exactly `dist`
fn commit_window_scenario(w: &mut World, dist_kind: u8, aux: u16, st: &mut Stats) -> Verdict {
    let (close, far) = w.tree.window();
    let (dist, valid, name) = match dist_kind {
        0 => (close, true, "valid:commit-at-w_close"),
        1 => (far, true, "valid:commit-at-w_far"),
        2 => (close - 1, false, "commit:at-w_close-1"),
        _ => (far + 1, false, "commit:at-w_far+1"),
    };
    if dist == 0 {
        return Ok(());
    }
    let tip = w.tip();
    let Some(tx) = w.new_tx(&tip, aux) else { return Ok(()) };
    let id = tx.proposal_short_id();
    if w.tree.committable(&tip).contains(&pid(&id)) || w.tree.gap(&tip).contains(&pid(&id)) {
        return Ok(());
    }
    // proposing block
    let mut spec = w.plain_spec(&tip);
    spec.proposals = vec![id.clone()];
    let p = w.tree.build(&tip, &spec, &w.opts()).map_err(|e| Violation::new("harness:build", e))?;
    if w.node.submit(&p.block) != Ok(true) {
        vfail!("valid-refused:proposing-block", "plain proposing block refused");
    }
    let mut cur = w.tree.insert(p);
    w.txs.insert(pid(&id), tx.clone());
    for _ in 1..dist {
        let spec = w.plain_spec(&cur);
        let f = w.tree.build(&cur, &spec, &w.opts()).map_err(|e| Violation::new("harness:build", e))?;
        if w.node.submit(&f.block) != Ok(true) {
            vfail!("valid-refused:filler-block", "plain filler block refused");
        }
        cur = w.tree.insert(f);
    }
    let mut spec = w.plain_spec(&cur);
    spec.txs = vec![tx];
    let cand = w.tree.build(&cur, &spec, &w.opts()).map_err(|e| Violation::new("harness:build", e))?;
    let c = Cand {
        mb: cand,
        class: if valid { Class::Valid } else { Class::Chain },
        name,
    };
    evaluate(w, c, &cur, true, st)
}

/// insufficient-reward scenario: a block is mined with a lock so large that its finalised reward
/// cannot create the cell; the block that finalises it must then have a cellbase without outputs.
/// Offered first: a cellbase that creates the under-capacity output anyway, or (`other_lock`) pays an
/// arbitrary amount to another lock; both must be refused with the state unchanged.  Then the block
/// with the empty cellbase must be attached.  Applicable where issuance is small (spec variant 3).
fn insufficient_reward_scenario(w: &mut World, other_lock: bool, aux: u16, st: &mut Stats) -> Verdict {
    let tip = w.tip();
    let (_, far) = w.tree.window();
    // size the lock from what the current finalisation pays
    let Some(now) = w.tree.reward_for_child_of(&tip) else { return Ok(()) };
    let need_bytes = (now.total as u128 * 3 / 100_000_000) as usize;
    if need_bytes > 24_000 {
        st.label("scenario:insufficient-reward:not-applicable(issuance-too-large)");
        return Ok(());
    }
    let big_lock = w
        .env
        .always_success_lock
        .clone()
        .as_builder()
        .args(Bytes::from(vec![(aux & 0xff) as u8; need_bytes + 64]).pack())
        .build();
    let mut spec = w.plain_spec(&tip);
    spec.miner_lock = Some(big_lock.clone());
    let t = w.tree.build(&tip, &spec, &w.opts()).map_err(|e| Violation::new("harness:build", e))?;
    let target = t.hash.clone();
    if w.node.submit(&t.block) != Ok(true) {
        vfail!("valid-refused:block-with-large-miner-lock", "plain block #{} whose cellbase witness names a {}-byte lock refused", t.number, need_bytes + 64);
    }
    let mut cur = w.tree.insert(t);
    for _ in 0..far {
        let spec = w.plain_spec(&cur);
        let f = w.tree.build(&cur, &spec, &w.opts()).map_err(|e| Violation::new("harness:build", e))?;
        if w.node.submit(&f.block) != Ok(true) {
            vfail!("valid-refused:filler-block", "plain filler block refused");
        }
        cur = w.tree.insert(f);
    }
    let Some(r) = w.tree.reward_for_child_of(&cur) else { return Ok(()) };
    let lack = occupied_shannons(&CellOutput::new_builder().lock(r.lock.clone()).build(), 0) > r.total as u128;
    if r.target != target || !lack {
        st.label("scenario:insufficient-reward:not-reached");
        return Ok(());
    }
    // (a) the forbidden cellbase
    let mut opts = w.opts();
    opts.cellbase_force_output = true;
    let name = if other_lock {
        opts.cellbase_lock_override = Some(w.env.always_success_lock.clone());
        opts.reward_delta = 1_000_000_000_000 + aux as i64;
        "reward:insufficient-reward-paid-to-another-lock"
    } else {
        "reward:output-created-although-reward-insufficient"
    };
    let spec = w.plain_spec(&cur);
    match w.tree.build(&cur, &spec, &opts) {
        Ok(mb) => {
            if mb.block.transactions()[0].outputs().is_empty() {
                return Err(Violation::new("harness:build", "forced cellbase output missing"));
            }
            evaluate(w, Cand { mb, class: Class::Chain, name }, &cur, true, st)?;
        }
        Err(e) => return Err(Violation::new("harness:build", e)),
    }
    // (b) the required one
    let spec = w.plain_spec(&cur);
    let mb = w.tree.build(&cur, &spec, &w.opts()).map_err(|e| Violation::new("harness:build", e))?;
    if !mb.block.transactions()[0].outputs().is_empty() {
        return Err(Violation::new("harness:build", "model paid an insufficient reward"));
    }
    evaluate(w, Cand { mb, class: Class::Valid, name: "valid:empty-cellbase-when-reward-insufficient" }, &cur, true, st)?;
    st.label("scenario:insufficient-reward");
    Ok(())
}

/// switch-back scenario: a rival branch from 1-3 blocks below the tip overtakes the current chain
/// A (A's top blocks are detached but stay verified), then A is extended until it is the heaviest
/// again, so that the reorganisation re-attaches previously verified blocks plus new ones.  Every
/// block is valid and must be accepted, and the heaviest head must be the tip after each step.
/// With `with_mutant` the block that would make A heaviest again is first offered as a single-rule
/// mutant: the whole multi-block reorganisation must be refused with the state unchanged.
fn switch_back_scenario(w: &mut World, with_mutant: bool, aux: u16, st: &mut Stats) -> Verdict {
    let a_tip = w.tip();
    let n = w.tree.get(&a_tip).number;
    if n < 3 {
        return Ok(());
    }
    let d = (1 + aux as u64 % 3).min(n - 2);
    let f = w.tree.ancestor(&a_tip, n - d).unwrap().hash.clone();
    let a_td = w.tree.get(&a_tip).td.clone();
    let mut cur = f.clone();
    for _ in 0..(d + 4) {
        let spec = w.plain_spec(&cur);
        let b = w.tree.build(&cur, &spec, &w.opts()).map_err(|e| Violation::new("harness:build", e))?;
        let td = b.td.clone();
        match w.node.submit(&b.block) {
            Ok(true) => {}
            other => vfail!("valid-refused:rival-branch-block", "plain block #{} of a rival branch was not accepted: {other:?}", b.number),
        }
        cur = w.tree.insert(b);
        if td > a_td {
            break;
        }
        if w.tip() != a_tip {
            vfail!("valid-lighter-moved-tip:rival-branch-block", "a rival branch block that is not heavier moved the tip");
        }
    }
    if w.tree.get(&cur).td <= a_td {
        return Ok(());
    }
    if w.tip() != cur {
        vfail!("valid-not-attached:rival-branch", "a fully valid heavier rival branch (fork depth {d}) was accepted but the tip is {}", w.tip());
    }
    check_snapshot(&w.node.shared.snapshot(), &w.tree, "after the reorg to the rival branch", st)?;
    st.label("scenario:reorg-to-rival-branch");
    let b_td = w.tree.get(&cur).td.clone();
    let mut acur = a_tip.clone();
    for _ in 0..(d + 6) {
        let spec = w.plain_spec(&acur);
        let p = w.tree.build(&acur, &spec, &w.opts()).map_err(|e| Violation::new("harness:build", e))?;
        let decisive = p.td > b_td;
        if decisive && with_mutant {
            let mop = ((aux >> 2) % 72) as u8;
            if let Some(cand) = make(w, mop, &acur, aux) {
                let class = cand.class;
                let heavier = cand.mb.td > b_td;
                let h = cand.mb.hash.clone();
                st.label("scenario:switch-back-offered-a-mutant-first");
                evaluate(w, cand, &acur, false, st)?;
                if class == Class::Valid && heavier {
                    // a boundary-valid candidate completed the switch-back itself
                    if w.tip() != h {
                        vfail!("valid-not-attached:switch-back", "boundary-valid block completing the switch-back is not the tip");
                    }
                    st.label("scenario:switch-back-to-verified-branch");
                    return Ok(());
                }
            }
        }
        match w.node.submit(&p.block) {
            Ok(true) => {}
            other => vfail!(
                "valid-refused:switch-back-block",
                "plain block #{} extending the previously verified branch (fork depth {d}, decisive {decisive}) was not accepted: {other:?}",
                p.number
            ),
        }
        acur = w.tree.insert(p);
        if decisive {
            if w.tip() != acur {
                vfail!("valid-not-attached:switch-back", "the previously verified branch is the heaviest again (fork depth {d}) but the tip is {}", w.tip());
            }
            check_snapshot(&w.node.shared.snapshot(), &w.tree, "after switching back to the previously verified branch", st)?;
            st.label("scenario:switch-back-to-verified-branch");
            return node_panic_violation();
        }
        if w.tip() != cur {
            vfail!("valid-lighter-moved-tip:switch-back-block", "a block that does not make its branch heaviest moved the tip");
        }
    }
    Ok(())
}

/// start a node on `env`, feed it every block of the model tree in creation order (all must be accepted)
fn start_world<'a>(
    env: &'a Env,
    tree: Tree,
    txs: BTreeMap<[u8; 10], TransactionView>,
    clock: ckb_systemtime::FaketimeGuard,
    serial: u32,
) -> Result<World<'a>, Violation> {
    install_panic_recorder();
    clear_panics();
    let max_ts = tree.order.iter().map(|h| tree.get(h).block.timestamp()).max().unwrap_or(0);
    clock.set_faketime(max_ts + 1_000_000);
    let node = Node::start(env, NodeCfg::default()).map_err(|e| Violation::new("harness:node-start", e))?;
    for h in tree.order.iter().skip(1) {
        let b = tree.get(h);
        if let Err(e) = node.process(&b.block) {
            vfail!("context:valid-history-block-refused", "history block #{} refused: {e}", b.number);
        }
    }
    Ok(World {
        env,
        tree,
        node,
        txs,
        now: max_ts + 1_000_000,
        _clock: clock,
        serial: std::cell::Cell::new(serial),
    })
}

fn prop(case: &Case, st: &mut Stats) -> Verdict {
    prop_cfg(case, &variant_cfg(case.variant), st)
}

/// the `pow` sub-check: the same contexts and operators under a real proof-of-work engine
fn prop_pow(case: &Case, st: &mut Stats) -> Verdict {
    prop_cfg(case, &pow_variant_cfg(case.variant), st)
}

fn prop_cfg(case: &Case, cfg: &SpecCfg, st: &mut Stats) -> Verdict {
    let env = build_env(cfg);
    let built = Interp::new(&env).run(&case.plan);
    let mut w = start_world(&env, built.tree, built.txs, ckb_systemtime::faketime(), 0)?;
    if let Some(k) = w.tree.pow {
        // every history block carries a nonce found by the harness; the model agrees it is valid
        for h in w.tree.order.iter().skip(1) {
            if !powmodel::pow_valid(k, &w.tree.get(h).block.header()) {
                return Err(Violation::new("harness:mined-block-fails-the-pow-model", "history block without a valid nonce"));
            }
        }
        st.label_n("pow:history-blocks-mined", w.tree.order.len() as u64 - 1);
    }
    let (_, far) = w.tree.window();
    for (i, (op, depth, aux)) in case.ops.iter().enumerate() {
        let tip = w.tip();
        let tipb = w.tree.get(&tip);
        let tipn = tipb.number;
        let past_boundary = tipb.epoch.number() >= 1;
        // keep "now" ahead of the chain so nothing is too new by accident
        // (timestamps may legally decrease along a chain down to median+1, so take the maximum)
        let now = w.tree.order.iter().map(|h| w.tree.get(h).block.timestamp()).max().unwrap_or(0) + 100_000;
        w.set_now(now);
        if (78..100).contains(op) {
            insufficient_reward_scenario(&mut w, *op == 79, *aux, st).map_err(|mut v| {
                v.detail = format!("[op {i}] {}", v.detail);
                v
            })?;
            if tipn >= far + 2 && past_boundary {
                st.nontrivial(&(serde_json::to_string(&case.plan).unwrap(), i, *op));
            }
            continue;
        }
        if (76..100).contains(op) {
            switch_back_scenario(&mut w, *op == 77, *aux, st).map_err(|mut v| {
                v.detail = format!("[op {i}] {}", v.detail);
                v
            })?;
            if tipn >= far + 2 && past_boundary {
                st.nontrivial(&(serde_json::to_string(&case.plan).unwrap(), i, *op));
            }
            continue;
        }
        if (72..100).contains(op) {
            commit_window_scenario(&mut w, op - 72, *aux, st)?;
            if tipn >= far + 2 && past_boundary {
                st.nontrivial(&(serde_json::to_string(&case.plan).unwrap(), i, *op));
            }
            continue;
        }
        // commit-window kinds 2,3 are reached through ops 72..75: 72->w_close, 73->w_far, 74->close-1 .. (see N_OPS)
        let on_tip = *depth < 5 || tipn < 4;
        let parent = if on_tip {
            tip.clone()
        } else {
            let d = 1 + (*depth as u64 - 5) % 3;
            w.tree.ancestor(&tip, tipn - d).unwrap().hash.clone()
        };
        let Some(cand) = make(&mut w, *op, &parent, *aux) else {
            st.label("op:not-applicable");
            continue;
        };
        if !on_tip && cand.class == Class::Header {
            // header-level candidates are only meaningful where the submit pipeline decides
        }
        let valid = cand.class == Class::Valid;
        evaluate(&mut w, cand, &parent, on_tip, st).map_err(|mut v| {
            v.detail = format!("[op {i}] {}", v.detail);
            v
        })?;
        if tipn >= far + 2 && past_boundary {
            st.nontrivial(&(serde_json::to_string(&case.plan).unwrap(), i, *op));
            // the sample slots are shared by the four sub-checks: 3 / 1 / 1 / 1
            if st.want_sample() && st.samples.len() < if w.tree.pow.is_some() { 4 } else { 3 } {
                st.sample(|| json!({"variant": case.variant, "pow": w.tree.pow.map(|k| k.name()).unwrap_or("dummy"), "context_height": tipn, "epoch": w.tree.get(&tip).epoch.number(), "operator": op, "on_tip": on_tip, "expected_valid": valid}));
            }
        }
    }
    w.node.stop();
    Ok(())
}

// ------------------------------------------------------------------------------------------------
// exact limits: serialized size (sub-check `limit-bytes`) and summed cycles (`limit-cycles`)
// ------------------------------------------------------------------------------------------------

#[derive(Clone, Debug, Serialize, Deserialize)]
pub struct SizeCase {
    pub variant: u8,
    pub plan: TreePlan,
    /// how the size limit of the spec relates to the largest history block (see `prop_size`)
    pub base: u8,
    /// (how the candidate is filled, distance selector, aux)
    pub probes: Vec<(u8, u8, u16)>,
}

fn size_case_strategy() -> impl Strategy<Value = SizeCase> {
    (
        0u8..3,
        tree_plan_strategy(plan_params()),
        0u8..5,
        proptest::collection::vec((0u8..6, 0u8..5, any::<u16>()), 6..14),
    )
        .prop_map(|(variant, plan, base, probes)| SizeCase { variant, plan, base, probes })
}

const SIZE_NAMES: [[&str; 3]; 5] = [
    [
        "valid:bytes=limit-1:cellbase-message-padding",
        "valid:bytes=limit:cellbase-message-padding",
        "limit:bytes=limit+1:cellbase-message-padding",
    ],
    [
        "valid:bytes=limit-1:tx-witness-padding",
        "valid:bytes=limit:tx-witness-padding",
        "limit:bytes=limit+1:tx-witness-padding",
    ],
    [
        "valid:bytes=limit-1:uncles-with-proposals",
        "valid:bytes=limit:uncles-with-proposals",
        "limit:bytes=limit+1:uncles-with-proposals",
    ],
    [
        "valid:bytes=limit-1:block-proposals",
        "valid:bytes=limit:block-proposals",
        "limit:bytes=limit+1:block-proposals",
    ],
    [
        "valid:bytes=limit-1:uncles+proposals+tx-witness",
        "valid:bytes=limit:uncles+proposals+tx-witness",
        "limit:bytes=limit+1:uncles+proposals+tx-witness",
    ],
];

/// a candidate on `parent` whose counted size is exactly `want` bytes; Ok(None) = the unpadded block is
/// already larger (or the filling is not available in this context)
fn sized_candidate(w: &mut World, how: u8, parent: &H, aux: u16, want: u64, st: &mut Stats) -> Result<Option<(MBlock, u8)>, Violation> {
    let limit = w.env.consensus.max_block_proposals_limit() as usize;
    let n = w.tree.get(parent).number + 1;
    let ids = |k: usize, salt: u16| -> Vec<ProposalShortId> {
        (0..k)
            .map(|i| {
                let mut a = [0u8; 10];
                a[0] = 0xfb;
                a[1] = i as u8;
                a[2] = salt as u8;
                a[3] = (salt >> 8) as u8;
                a[4] = n as u8;
                ProposalShortId::new(a)
            })
            .collect()
    };
    let mut how = how % 5;
    let mut base = w.plain_spec(parent);
    let mut tx: Option<TransactionView> = None;
    if how == 1 || how == 4 {
        tx = commit_candidate(w, parent);
        if tx.is_none() && how == 1 {
            how = 0;
        }
    }
    if how == 2 || how == 4 {
        let k1 = 1 + aux as usize % limit.max(1);
        let mut uncles = vec![];
        if let Some(u) = w.make_uncle_with(parent, aux, ids(k1, aux)) {
            uncles.push(u);
        }
        if aux % 3 == 0 {
            if let Some(u) = w.make_uncle_with(parent, aux.wrapping_add(3), ids(limit, aux.wrapping_add(9))) {
                if uncles.iter().all(|x| x.hash() != u.hash()) {
                    uncles.push(u);
                }
            }
        }
        if uncles.is_empty() {
            how = if how == 2 { 0 } else { 3 };
        }
        base.uncles = uncles;
    }
    if how == 3 || how == 4 {
        base.proposals = ids(1 + (aux as usize >> 3) % limit.max(1), aux.wrapping_add(77));
    }
    let pad_tx = tx.is_some() && (how == 1 || how == 4);
    let with_pad = |pad: usize| -> BlockSpec {
        let mut s = base.clone();
        if pad_tx {
            let t = tx.clone().unwrap();
            s.txs = vec![t.as_advanced_builder().witness(Bytes::from(vec![0x5a; pad]).pack()).build()];
        } else {
            s.message.extend(std::iter::repeat(0xab).take(pad));
        }
        s
    };
    let opts = w.opts();
    let b0 = w.tree.build(parent, &with_pad(0), &opts).map_err(|e| Violation::new("harness:build", e))?;
    let s0 = powmodel::size::block(&b0.block).0 as u64;
    if s0 > want {
        st.label("bytes:unpadded-candidate-already-over-the-limit");
        return Ok(None);
    }
    let mb = w.tree.build(parent, &with_pad((want - s0) as usize), &opts).map_err(|e| Violation::new("harness:build", e))?;
    let (counted, full) = powmodel::size::block(&mb.block);
    // the layout model against the repository's size functions (the serializer is C15's subject, the
    // definition of the counted size is this property's)
    let repo_counted = mb.block.data().serialized_size_without_uncle_proposals();
    let repo_full = mb.block.data().as_slice().len();
    if full != repo_full {
        vfail!("size:serialized-length-differs-from-the-layout-model", "block of {repo_full} bytes, layout model says {full}");
    }
    if counted != repo_counted {
        vfail!(
            "size:counted-size-differs-from-the-layout-model",
            "serialized_size_without_uncle_proposals = {repo_counted}, layout model (block minus the uncles' proposal ids) = {counted}; full size {full}"
        );
    }
    if counted as u64 != want {
        return Err(Violation::new("harness:size-padding", format!("padded to {counted}, wanted {want}")));
    }
    if full > counted {
        st.label("bytes:uncle-proposals-not-counted");
        if full as u64 > w.env.consensus.max_block_bytes() && counted as u64 <= w.env.consensus.max_block_bytes() {
            st.label("bytes:full-size-over-the-limit-counted-size-within");
        }
    }
    Ok(Some((mb, how)))
}

fn prop_size(case: &SizeCase, st: &mut Stats) -> Verdict {
    let mut cfg = variant_cfg(case.variant % 3);
    let env_a = build_env(&cfg);
    let built = Interp::new(&env_a).run(&case.plan);
    let hist_max = built.blocks.iter().map(|h| powmodel::size::block(&built.tree.get(h).block).0).max().unwrap_or(0) as u64;
    // the limit is a parameter of the spec, not of the genesis block: choose it relative to the history
    let limit = match case.base % 5 {
        0 => hist_max,
        1 => hist_max + 1,
        2 => hist_max.max(1_500),
        3 => hist_max.max(4_000),
        _ => hist_max.max(12_000),
    };
    cfg.max_block_bytes = Some(limit);
    let env = build_env(&cfg);
    if env.consensus.genesis_hash() != env_a.consensus.genesis_hash() {
        return Err(Violation::new("harness:spec", "the size limit changed the genesis block"));
    }
    if limit == hist_max {
        st.label("bytes:a-history-block-sits-exactly-at-the-limit");
    }
    let mut w = start_world(&env, built.tree, built.txs, ckb_systemtime::faketime(), 0)?;
    let (_, far) = w.tree.window();
    for (i, (how, dsel, aux)) in case.probes.iter().enumerate() {
        let tip = w.tip();
        let tipb = w.tree.get(&tip);
        let tipn = tipb.number;
        let past_boundary = tipb.epoch.number() >= 1;
        let now = w.tree.order.iter().map(|h| w.tree.get(h).block.timestamp()).max().unwrap_or(0) + 100_000;
        w.set_now(now);
        let cand = if *how >= 5 {
            // count limits next to the size limit: proposals = limit / +1, uncles = max / +1, an uncle's
            // proposals = limit / +1
            let op = [4u8, 5, 6, 33, 65, 71][*aux as usize % 6];
            match make(&mut w, op, &tip, aux.rotate_left(5)) {
                Some(c) => {
                    // such a candidate is only a count probe if it also fits the size limit
                    if powmodel::size::block(&c.mb.block).0 as u64 > limit {
                        st.label("count:candidate-over-the-size-limit(skipped)");
                        continue;
                    }
                    c
                }
                None => {
                    st.label("op:not-applicable");
                    continue;
                }
            }
        } else {
            let delta: i64 = [-1, 0, 0, 1, 1][*dsel as usize % 5];
            let want = (limit as i64 + delta) as u64;
            let Some((mb, how)) = sized_candidate(&mut w, *how, &tip, *aux, want, st).map_err(|mut v| {
                v.detail = format!("[probe {i}] {}", v.detail);
                v
            })?
            else {
                continue;
            };
            st.label(&format!("bytes:distance-to-limit={delta:+}"));
            Cand {
                mb,
                class: if delta <= 0 { Class::Valid } else { Class::Chain },
                name: SIZE_NAMES[how as usize][(delta + 1) as usize],
            }
        };
        let valid = cand.class == Class::Valid;
        let name = cand.name;
        evaluate(&mut w, cand, &tip, true, st).map_err(|mut v| {
            v.detail = format!("[probe {i}, size limit {limit}] {}", v.detail);
            v
        })?;
        if tipn >= far + 2 && past_boundary {
            st.nontrivial(&(serde_json::to_string(&case.plan).unwrap(), case.base, i, *how, *dsel));
            if st.want_sample() && st.samples.len() < 5 && i % 3 == 0 {
                st.sample(|| json!({"sub": "limit-bytes", "variant": case.variant, "max_block_bytes": limit, "context_height": tipn, "candidate": name, "expected_valid": valid}));
            }
        }
    }
    w.node.stop();
    Ok(())
}

#[derive(Clone, Debug, Serialize, Deserialize)]
pub struct CycleCase {
    pub variant: u8,
    pub plan: TreePlan,
    /// number of committed transactions in the candidate (1..=12) and inputs per transaction (1..=3)
    pub ntx: u8,
    pub nin: u8,
    /// distance of the candidate's summed cycles to the limit of the tested spec
    pub delta: u8,
    pub aux: u16,
}

fn cycle_case_strategy() -> impl Strategy<Value = CycleCase> {
    // the limit of the tested spec is tuned to the candidate, so the history must stay below it: histories
    // without transactions for candidates of one or two transactions, sparse ones for larger candidates
    let none = PlanParams { tx_rate: 0, ..plan_params() };
    let few = PlanParams { tx_rate: 20, ..plan_params() };
    let small = (0u8..3, tree_plan_strategy(none), 0u8..2, 0u8..3, 0u8..5, any::<u16>());
    let large = (0u8..3, tree_plan_strategy(few), 3u8..12, 0u8..3, 0u8..5, any::<u16>());
    prop_oneof![2 => small.boxed(), 3 => large.boxed()]
        .prop_map(|(variant, plan, ntx, nin, delta, aux)| CycleCase { variant, plan, ntx, nin, delta, aux })
}

fn block_cycles(node: &Node, h: &H) -> Option<Vec<u64>> {
    use ckb_store::ChainStore;
    node.shared.store().get_block_ext(h).and_then(|e| e.cycles)
}

/// The cycles a block's transactions cost are measured on a reference node whose limit is far away
/// (the spec's default); a second node gets the same blocks under a spec whose max_block_cycles is the
/// measured sum + {0, -1, +1}.  Oracle: attached iff sum <= limit; the recorded cycles do not depend on
/// the limit.
fn prop_cycles(case: &CycleCase, st: &mut Stats) -> Verdict {
    let mut cfg = variant_cfg(case.variant % 3);
    cfg.max_block_proposals_limit = Some(16);
    let env_a = build_env(&cfg);
    let built = Interp::new(&env_a).run(&case.plan);
    // ---- phase 1: reference node
    let mut wa = start_world(&env_a, built.tree, built.txs, ckb_systemtime::faketime(), 0)?;
    let (close, far) = wa.tree.window();
    let tip = wa.tip();
    let now = wa.tree.order.iter().map(|h| wa.tree.get(h).block.timestamp()).max().unwrap_or(0) + 100_000;
    wa.set_now(now);
    let k = 1 + case.ntx as usize % 12;
    let mut avail = wa.spendable(&tip);
    let mut txs: Vec<TransactionView> = vec![];
    for i in 0..k {
        let step = TxStep {
            inputs: (0..=(case.nin % 3) as u16).map(|j| case.aux.wrapping_add((i as u16).wrapping_mul(7919)).wrapping_add(j.wrapping_mul(104_729u32 as u16))).collect(),
            outputs: 1,
            fee: 4,
            data_len: 0,
            lock_variant: (i % 4) as u8,
            kind: 0,
        };
        if let Some(tx) = build_tx(wa.env, &step, &mut avail) {
            let id = pid(&tx.proposal_short_id());
            if !wa.tree.committable(&tip).contains(&id) && !wa.tree.gap(&tip).contains(&id) && !wa.txs.contains_key(&id) {
                txs.push(tx);
            }
        }
    }
    if txs.is_empty() {
        st.label("cycles:no-spendable-cell");
        wa.node.stop();
        return Ok(());
    }
    let mut spec = wa.plain_spec(&tip);
    spec.proposals = txs.iter().map(|t| t.proposal_short_id()).collect();
    let p = wa.tree.build(&tip, &spec, &wa.opts()).map_err(|e| Violation::new("harness:build", e))?;
    if wa.node.submit(&p.block) != Ok(true) {
        vfail!("valid-refused:proposing-block", "plain proposing block refused");
    }
    let mut cur = wa.tree.insert(p);
    for _ in 1..close {
        let spec = wa.plain_spec(&cur);
        let f = wa.tree.build(&cur, &spec, &wa.opts()).map_err(|e| Violation::new("harness:build", e))?;
        if wa.node.submit(&f.block) != Ok(true) {
            vfail!("valid-refused:filler-block", "plain filler block refused");
        }
        cur = wa.tree.insert(f);
    }
    let mut spec = wa.plain_spec(&cur);
    spec.txs = txs.clone();
    let cand = wa.tree.build(&cur, &spec, &wa.opts()).map_err(|e| Violation::new("harness:build", e))?;
    match wa.node.submit(&cand.block) {
        Ok(true) => {}
        other => vfail!("valid-refused:commit-under-the-default-cycle-limit", "block committing {} plain transactions refused under the default limit: {other:?}", txs.len()),
    }
    let Some(measured) = block_cycles(&wa.node, &cand.hash) else {
        vfail!("state:block-ext-cycles", "no cycles recorded for the attached block #{}", cand.number);
    };
    if measured.len() != txs.len() || measured.iter().any(|c| *c == 0) {
        vfail!("state:block-ext-cycles", "cycles {measured:?} recorded for {} script-carrying transactions", txs.len());
    }
    let sum: u64 = measured.iter().sum();
    let others_max: u64 = wa
        .tree
        .order
        .iter()
        .filter_map(|h| block_cycles(&wa.node, h))
        .map(|c| c.iter().sum::<u64>())
        .max()
        .unwrap_or(0);
    let World { tree, txs: known_txs, _clock: clock, node, serial, .. } = wa;
    node.stop();
    // ---- phase 2: the same blocks under a limit at distance 0 / 1 of the candidate's sum
    let delta: i64 = [0, -1, 1, 0, -1][case.delta as usize % 5];
    let limit = (sum as i64 - delta) as u64; // delta = sum - limit
    if others_max > limit {
        st.label("cycles:a-history-block-costs-more-than-the-candidate(skipped)");
        return Ok(());
    }
    if others_max == limit {
        st.label("cycles:a-history-block-sits-exactly-at-the-limit");
    }
    cfg.max_block_cycles = Some(limit);
    let env_b = build_env(&cfg);
    if env_b.consensus.genesis_hash() != env_a.consensus.genesis_hash() {
        return Err(Violation::new("harness:spec", "the cycle limit changed the genesis block"));
    }
    let mut wb = start_world(&env_b, tree, known_txs, clock, serial.get())?;
    wb.set_now(now);
    if wb.tip() != cur {
        vfail!("valid-not-attached:chain-under-the-cycle-limit", "the chain below the cycle limit is not the tip on the second node");
    }
    let single = txs.len() == 1;
    let name = match (delta, single) {
        (0, _) => "valid:cycles=limit",
        (-1, _) => "valid:cycles=limit-1",
        (_, true) => "limit:cycles=limit+1:single-transaction",
        (_, false) => "limit:cycles=limit+1:sum-of-transactions",
    };
    st.label(&format!("cycles:distance-to-limit={delta:+}"));
    st.label(&format!("cycles:transactions={}", if single { "1" } else if txs.len() <= 4 { "2-4" } else { "5-12" }));
    let tipn = wb.tree.get(&cur).number;
    let past_boundary = wb.tree.get(&cur).epoch.number() >= 1;
    let hash = cand.hash.clone();
    let c = Cand { mb: cand, class: if delta <= 0 { Class::Valid } else { Class::Chain }, name };
    evaluate(&mut wb, c, &cur, true, st).map_err(|mut v| {
        v.detail = format!("[cycles measured {measured:?}, sum {sum}, limit {limit}] {}", v.detail);
        v
    })?;
    if delta <= 0 {
        let on_b = block_cycles(&wb.node, &hash);
        if on_b.as_ref() != Some(&measured) {
            vfail!("cycles:recorded-cycles-depend-on-the-limit", "cycles {measured:?} under the default limit, {on_b:?} under max_block_cycles = {limit}");
        }
    }
    if tipn >= far + 2 && past_boundary {
        st.nontrivial(&(serde_json::to_string(&case.plan).unwrap(), case.ntx, case.nin, case.delta, case.aux));
        if st.want_sample() {
            st.sample(|| json!({"sub": "limit-cycles", "variant": case.variant, "transactions": txs.len(), "measured_cycles": measured, "max_block_cycles": limit, "context_height": tipn, "candidate": name}));
        }
    }
    wb.node.stop();
    Ok(())
}

fn run(ctx: &Ctx) {
    // development aid: VERIF_C03_SUBS=pow,limit-bytes runs only the named sub-checks
    let only = std::env::var("VERIF_C03_SUBS").ok();
    let want = |sub: &str| only.as_deref().map(|o| o.split(',').any(|x| x == sub)).unwrap_or(true);
    ctx.shrink_iters.set(100);
    if want("context-x-candidates") {
        let cases = ctx.cases(1500, 12000);
        ctx.run_prop("context-x-candidates", cases, case_strategy(), prop);
    }
    ctx.shrink_iters.set(60);
    if want("pow") {
        let cases = ctx.cases(200, 2600);
        ctx.run_prop("pow", cases, pow_case_strategy(), prop_pow);
    }
    if want("limit-bytes") {
        let cases = ctx.cases(160, 2000);
        ctx.run_prop("limit-bytes", cases, size_case_strategy(), prop_size);
    }
    if want("limit-cycles") {
        let cases = ctx.cases(96, 1200);
        ctx.run_prop("limit-cycles", cases, cycle_case_strategy(), prop_cycles);
    }
}

fn replay(ctx: &Ctx, sub: &str, v: &Value) -> Verdict {
    let mut st = ctx.stats.borrow_mut();
    match sub {
        "pow" => prop_pow(&from_case::<Case>(v)?, &mut st),
        "limit-bytes" => prop_size(&from_case::<SizeCase>(v)?, &mut st),
        "limit-cycles" => prop_cycles(&from_case::<CycleCase>(v)?, &mut st),
        _ => prop(&from_case::<Case>(v)?, &mut st),
    }
}

#[allow(dead_code)]
fn _unused(_: Script) {}
