//! C16 part C — "relay-session": the compact-block relay driven END TO END through the real protocol
//! handler.  Messages enter through `CKBProtocolHandler::received(&mut Relayer, nc, peer, bytes)`
//! (what tentacle calls); `nc` is a recording implementation of `CKBProtocolContext`; nothing of the
//! bookkeeping of `CompactBlockProcess` / `BlockTransactionsProcess` is mirrored here.
//!
//! A case is a short chain built by the reference model (valid blocks: transactions proposed earlier
//! and committed inside the window, 0-2 real uncles, side blocks, rival blocks).  The first two
//! blocks are imported directly; every later main-chain block is RELAYED: peers announce its compact
//! block, the node asks for what it lacks, peers answer honestly (item by item in request order,
//! like `GetBlockTransactionsProcess`) or lie, and between the rounds the local availability of
//! transactions (tx-pool) and uncles (store / orphan pool) changes.
//!
//! Oracle
//!  (1) no panic of the handler or of any node thread, the handler returns;
//!  (2) an honest reply to the node's latest request is never answered by a ban and either completes
//!      the block or is followed by a new request; once nothing changes any more, an honest peer
//!      completes the relay in a bounded number of rounds; the block the chain service gets is byte
//!      for byte the committed block: it is stored, never BLOCK_INVALID, and becomes the tip when it
//!      is the heaviest;
//!  (3) whatever liars send, the tip stays or becomes the committed block, a stored block with the
//!      committed hash has the committed body, the hash is never marked invalid, and an honest peer
//!      still completes the relay afterwards;
//!  (4) every GetBlockTransactions goes to a peer that announced the block, names existing,
//!      non-prefilled, distinct positions, and asks only for positions that are not available
//!      locally at that moment or that were already requested from that peer (the handler documents
//!      "the current miss + the miss of the previous request are combined"); the documented
//!      collision retreat (all short ids, no uncles) needs a same-hash twin among the candidates.
//!
//! Liars also ANNOUNCE: the genuine header with a body the header does not commit to (one more
//! proposal / extension byte, an uncle hash less, short ids swapped or replaced).  The same oracle
//! applies (the liar may be banned, nothing else may happen to the committed block or to honest
//! peers).  A violation in a session with such an announcement is attributed to it: signature
//! `relay:after-compact-block-with-genuine-header-and-tampered-body:<kind>`, original signature in
//! the detail (the five kinds are recorded in known_findings.json, see the summaries there).
//!
//! Development aids (never set by `./check`): VERIF_C16S_TRACE=1 prints every step,
//! VERIF_C16S_TAMPER=<kind> forces one kind of tampered announcement, VERIF_C16S_NO_BOOKKEEPING=1
//! drops the clause that compares `pending_compact_blocks` with the last request (the end-to-end
//! clauses alone must catch a handler that records something else than it asked for).
use crate::c16_bytes::guard;
use crate::common::*;
use crate::model::*;
use crate::node::{Env, SpecCfg, build_env, default_tx_pool_config};
use crate::plan::{TxStep, build_tx, lock_variant, tx_step_strategy};
use crate::vfail;
use ckb_app_config::{DBConfig, NetworkConfig};
use ckb_async_runtime::{Handle, new_global_runtime};
use ckb_chain::{ChainController, ChainServiceScope, LonelyBlock};
use ckb_network::{
    Behaviour, CKBProtocolContext, CKBProtocolHandler, Error as NetError, Flags, NetworkController, NetworkService,
    NetworkState, Peer, PeerIndex, ProtocolId, SupportProtocols, TargetSession, async_trait, bytes::Bytes as NBytes,
    network::TransportType,
};
use ckb_shared::block_status::BlockStatus;
use ckb_shared::{Shared, SharedBuilder};
use ckb_store::ChainStore;
use ckb_sync::{Relayer, SyncShared};
use ckb_types::{
    bytes::Bytes,
    core::{BlockView, Capacity, TransactionBuilder, TransactionView, UncleBlockView},
    packed::{self, CellInput, CellOutput, OutPoint, ProposalShortId},
    prelude::*,
};
use proptest::prelude::*;
use serde::{Deserialize, Serialize};
use serde_json::{Value, json};
use std::collections::{BTreeMap, BTreeSet, HashMap, HashSet};
use std::future::Future;
use std::pin::Pin;
use std::sync::{Arc, Mutex, mpsc};
use std::time::{Duration, Instant};

// ------------------------------------------------------------------------------------------------
// case

#[derive(Clone, Copy, Debug, PartialEq, Eq, Serialize, Deserialize)]
pub enum PoolSrc {
    Absent,
    Exact,
    /// same raw transaction (same hash, same short id), one more witness
    Twin,
}

#[derive(Clone, Copy, Debug, PartialEq, Eq, Serialize, Deserialize)]
pub enum UPlan {
    Unknown,
    /// header learnt through header sync (`SyncShared::insert_valid_header`)
    Header,
    /// full block processed as a side block
    Stored,
    /// full block received while its parent is unknown: sits in the orphan pool
    Orphan,
}

#[derive(Clone, Copy, Debug, PartialEq, Eq, Serialize, Deserialize)]
pub enum Lie {
    Honest,
    OmitTx(u16),
    OmitUncle(u16),
    SwapTx,
    SwapUncles,
    ForeignTx(u16),
    TwinTx(u16),
    DupTx(u16),
    ExtraTx,
    ExtraUncle,
    ForeignUncle(u16),
    UncleOtherProposals(u16),
    WrongHash,
    Empty,
    /// every transaction and uncle of the block, whatever was asked
    Everything,
}

#[derive(Clone, Copy, Debug, PartialEq, Eq, Serialize, Deserialize)]
pub enum Change {
    /// `remove_local_tx` on a committed transaction that sits in the pool
    RemoveTx(u16),
    /// submit a committed transaction that is not in the pool
    SubmitTx(u16),
    /// a rival block (same parent, commits part of the same transactions) is imported
    Rival,
    /// an unknown uncle is imported as a side block
    DeliverUncle(u16),
    /// the parent of an orphan uncle arrives; `stalled`: while the verify thread is busy, so the
    /// orphan has left the pool but is not stored yet
    ReleaseOrphan { stalled: bool },
    /// the verify thread catches up
    Unstall,
}

/// what a lying announcer changes in the compact block (the header stays the genuine one)
#[derive(Clone, Copy, Debug, PartialEq, Eq, Serialize, Deserialize)]
pub enum Tamper {
    /// one more proposal id than the header commits to
    Proposals,
    /// one more extension byte
    Extension,
    /// the last uncle hash is left out
    DropUncle,
    /// first and last short id swapped
    SwapShortIds,
    /// the last short id replaced by the id of a transaction that is not in the block
    ForeignShortId,
    /// the last short id left out (fewer positions than the genuine compact block)
    DropShortId,
    /// one more short id (of a transaction that is not in the block) appended
    ExtraShortId,
}

#[derive(Clone, Copy, Debug, PartialEq, Eq, Serialize, Deserialize)]
pub enum Step {
    Announce(u8),
    /// a liar announces the genuine header with a body the header does not commit to
    AnnounceTampered(u8, Tamper),
    Reply(u8, Lie),
    /// a peer that never announced the block sends the full content
    Unsolicited,
    Change(Change),
}

#[derive(Clone, Debug, Serialize, Deserialize)]
pub struct Session {
    /// extra prefilled positions: bit (i-1) % 16 for position i
    pub prefill: u16,
    /// pool source of the committed transactions, cyclic (empty: absent)
    pub pool: Vec<PoolSrc>,
    /// what the node knows of each uncle, cyclic (empty: unknown)
    pub uncles: Vec<UPlan>,
    /// commit mask of the rival block built next to this block (None: no rival)
    pub rival: Option<u16>,
    pub peers: u8,
    pub steps: Vec<Step>,
}

#[derive(Clone, Debug, Serialize, Deserialize)]
pub struct SidePlan {
    /// Some(sel): child of a side block one level below (if any), else sibling of the main block
    pub on_side: Option<u16>,
    pub proposals: u8,
    pub miner: u8,
}

#[derive(Clone, Debug, Serialize, Deserialize)]
pub struct BlockPlan {
    pub ts: u8,
    pub new_txs: Vec<TxStep>,
    pub commit_mask: u16,
    /// selectors over the valid uncle candidates (children of already chosen uncles first)
    pub uncles: Vec<u16>,
    pub sides: Vec<SidePlan>,
    pub ext_extra: u8,
    pub miner: u8,
    pub session: Session,
}

#[derive(Clone, Debug, Serialize, Deserialize)]
pub struct Case {
    pub salt: u32,
    /// blocks[0], blocks[1] are imported directly, the others are relayed
    pub blocks: Vec<BlockPlan>,
}

fn lie() -> impl Strategy<Value = Lie> {
    prop_oneof![
        30 => Just(Lie::Honest),
        2 => any::<u16>().prop_map(Lie::OmitTx),
        2 => any::<u16>().prop_map(Lie::OmitUncle),
        2 => Just(Lie::SwapTx),
        3 => Just(Lie::SwapUncles),
        2 => any::<u16>().prop_map(Lie::ForeignTx),
        4 => any::<u16>().prop_map(Lie::TwinTx),
        1 => any::<u16>().prop_map(Lie::DupTx),
        1 => Just(Lie::ExtraTx),
        1 => Just(Lie::ExtraUncle),
        2 => any::<u16>().prop_map(Lie::ForeignUncle),
        2 => any::<u16>().prop_map(Lie::UncleOtherProposals),
        1 => Just(Lie::WrongHash),
        1 => Just(Lie::Empty),
        2 => Just(Lie::Everything),
    ]
}

fn change() -> impl Strategy<Value = Change> {
    prop_oneof![
        5 => any::<u16>().prop_map(Change::RemoveTx),
        2 => any::<u16>().prop_map(Change::SubmitTx),
        2 => Just(Change::Rival),
        2 => any::<u16>().prop_map(Change::DeliverUncle),
        6 => Just(Change::ReleaseOrphan { stalled: true }),
        1 => Just(Change::ReleaseOrphan { stalled: false }),
        1 => Just(Change::Unstall),
    ]
}

fn tamper() -> impl Strategy<Value = Tamper> {
    prop_oneof![
        Just(Tamper::Proposals),
        Just(Tamper::Extension),
        Just(Tamper::DropUncle),
        Just(Tamper::SwapShortIds),
        Just(Tamper::ForeignShortId),
        Just(Tamper::DropShortId),
        Just(Tamper::ExtraShortId),
    ]
}

/// one round: availability changes, then a peer acts
fn round() -> impl Strategy<Value = Vec<Step>> {
    (
        proptest::collection::vec(change(), 0..=2),
        prop_oneof![
            6 => (0u8..3).prop_map(Step::Announce),
            20 => ((0u8..3), lie()).prop_map(|(k, l)| Step::Reply(k, l)),
            2 => Just(Step::Unsolicited),
            1 => ((0u8..3), tamper()).prop_map(|(k, t)| Step::AnnounceTampered(k, t)),
        ],
    )
        .prop_map(|(c, a)| {
            let mut v: Vec<Step> = c.into_iter().map(Step::Change).collect();
            v.push(a);
            v
        })
}

fn free_session() -> impl Strategy<Value = Session> {
    (
        prop_oneof![3 => Just(0u16), 2 => any::<u16>()],
        proptest::collection::vec(
            prop_oneof![3 => Just(PoolSrc::Absent), 8 => Just(PoolSrc::Exact), 1 => Just(PoolSrc::Twin)],
            0..5,
        ),
        proptest::collection::vec(
            prop_oneof![4 => Just(UPlan::Unknown), 1 => Just(UPlan::Header), 2 => Just(UPlan::Stored), 6 => Just(UPlan::Orphan)],
            0..3,
        ),
        proptest::option::weighted(0.3, prop_oneof![2 => Just(0xffffu16), 1 => any::<u16>()]),
        prop_oneof![3 => Just(1u8), 2 => Just(2u8), 1 => Just(3u8)],
        proptest::collection::vec(round(), 0..5),
    )
        .prop_map(|(prefill, pool, uncles, rival, peers, rounds)| Session {
            prefill,
            pool,
            uncles,
            rival,
            peers,
            steps: rounds.into_iter().flatten().collect(),
        })
}

/// the same data, biased towards multi-round relays: an orphan uncle that leaves the pool, or pooled
/// transactions that disappear, right before an honest reply
fn session() -> impl Strategy<Value = Session> {
    prop_oneof![
        50 => free_session(),
        20 => (free_session(), prop_oneof![Just(UPlan::Unknown), Just(UPlan::Header)], 0u8..3, any::<bool>()).prop_map(|(mut s, first, k, stalled)| {
            s.uncles = vec![first, UPlan::Orphan];
            let mut steps = vec![Step::Change(Change::ReleaseOrphan { stalled: stalled || k > 0 }), Step::Reply(0, Lie::Honest)];
            if k == 2 {
                steps.insert(0, Step::Announce(1));
            }
            steps.extend(s.steps);
            s.steps = steps;
            s
        }),
        3 => (free_session(), 0u8..3, tamper()).prop_map(|(mut s, k, t)| {
            s.steps.insert(0, Step::AnnounceTampered(k, t));
            s
        }),
        20 => (free_session(), 1usize..4, any::<u16>()).prop_map(|(mut s, n, x)| {
            s.pool = vec![PoolSrc::Exact; 3];
            let mut steps = vec![];
            for i in 0..n {
                steps.push(Step::Change(Change::RemoveTx(x.wrapping_mul(i as u16 + 1))));
                steps.push(Step::Reply(0, Lie::Honest));
            }
            steps.extend(s.steps);
            s.steps = steps;
            s
        }),
    ]
}

fn side_plan() -> impl Strategy<Value = SidePlan> {
    (proptest::option::weighted(0.6, prop_oneof![1 => Just(0u16), 1 => any::<u16>()]), 0u8..3, 1u8..4)
        .prop_map(|(on_side, proposals, miner)| SidePlan { on_side, proposals, miner })
}

fn block_plan() -> impl Strategy<Value = BlockPlan> {
    (
        0u8..3,
        prop_oneof![1 => Just(vec![]), 4 => proptest::collection::vec(tx_step_strategy(), 1..=3)],
        prop_oneof![4 => Just(0xffffu16), 2 => any::<u16>()],
        prop_oneof![
            1 => Just(vec![]),
            2 => proptest::collection::vec(prop_oneof![3 => Just(0u16), 2 => any::<u16>()], 1..=1),
            4 => proptest::collection::vec(prop_oneof![3 => Just(0u16), 2 => any::<u16>()], 2..=2),
        ],
        prop_oneof![1 => Just(vec![]), 5 => proptest::collection::vec(side_plan(), 1..=3)],
        prop_oneof![3 => Just(0u8), 1 => 1u8..=40],
        0u8..4,
        session(),
    )
        .prop_map(|(ts, new_txs, commit_mask, uncles, sides, ext_extra, miner, session)| BlockPlan {
            ts,
            new_txs,
            commit_mask,
            uncles,
            sides,
            ext_extra,
            miner,
            session,
        })
}

pub fn case_strategy() -> impl Strategy<Value = Case> {
    (any::<u32>(), proptest::collection::vec(block_plan(), 3..=7)).prop_map(|(salt, blocks)| Case { salt, blocks })
}

// ------------------------------------------------------------------------------------------------
// the model chain of a case

#[derive(Clone, Debug)]
struct SideB {
    hash: H,
    number: u64,
    parent: H,
    /// 1: child of a main-chain block, 2: child of a level-1 side block
    level: u8,
}

struct World<'a> {
    env: &'a Env,
    tree: Tree,
    /// main[0] = genesis, main[i] = block of plan i-1
    main: Vec<H>,
    sides: Vec<SideB>,
    /// rival of main[i] (same parent), if the plan asked for one
    rivals: BTreeMap<usize, H>,
    /// every transaction created, creation order (parents before children)
    txs: Vec<TransactionView>,
    serial: u64,
    salt: u32,
}

fn is_spendable(env: &Env, c: &LiveCell) -> bool {
    let l = c.output.lock();
    l.code_hash() == env.always_success_lock.code_hash()
        && l.hash_type() == env.always_success_lock.hash_type()
        && c.output.type_().to_opt().is_none()
}

impl<'a> World<'a> {
    fn new(env: &'a Env, salt: u32) -> Self {
        let tree = Tree::new(env.consensus.clone());
        let g = tree.genesis.clone();
        World { env, tree, main: vec![g], sides: vec![], rivals: BTreeMap::new(), txs: vec![], serial: 0, salt }
    }

    fn committed(&self, at: &H, tx: &TransactionView) -> bool {
        self.tree.get(at).state.tx_index.contains_key(&h32(&tx.hash()))
    }

    /// cells new transactions may spend on top of `parent` so that all known transactions stay
    /// mutually compatible (no double spends): live cells and outputs of known uncommitted
    /// transactions, minus everything a known uncommitted transaction spends
    fn avail(&self, parent: &H) -> BTreeMap<CellKey, (CellOutput, usize)> {
        let st = &self.tree.get(parent).state;
        let mut m: BTreeMap<CellKey, (CellOutput, usize)> = st
            .live
            .iter()
            .filter(|(_, c)| is_spendable(self.env, c))
            .map(|(k, c)| (*k, (c.output.clone(), c.data.len())))
            .collect();
        for tx in self.txs.iter().filter(|t| !self.committed(parent, t)) {
            for (j, (o, d)) in tx.outputs_with_data_iter().enumerate() {
                m.insert((h32(&tx.hash()), j as u32), (o, d.len()));
            }
        }
        for tx in self.txs.iter().filter(|t| !self.committed(parent, t)) {
            for i in tx.inputs().into_iter() {
                m.remove(&cell_key(&i.previous_output()));
            }
        }
        m
    }

    /// committable known transactions on top of `parent`, parents before children
    fn commit_candidates(&self, parent: &H) -> Vec<TransactionView> {
        let ids = self.tree.committable(parent);
        let st = &self.tree.get(parent).state;
        let mut created: BTreeSet<CellKey> = BTreeSet::new();
        let mut out = vec![];
        for tx in &self.txs {
            if !ids.contains(&pid(&tx.proposal_short_id())) || self.committed(parent, tx) {
                continue;
            }
            let ok = tx.inputs().into_iter().all(|i| {
                let k = cell_key(&i.previous_output());
                st.live.contains_key(&k) || created.contains(&k)
            });
            if ok {
                for j in 0..tx.outputs().len() {
                    created.insert((h32(&tx.hash()), j as u32));
                }
                out.push(tx.clone());
            }
        }
        out
    }

    fn masked(cands: Vec<TransactionView>, mask: u16) -> Vec<TransactionView> {
        let mut skipped: BTreeSet<CellKey> = BTreeSet::new();
        let mut commit = vec![];
        for (i, tx) in cands.iter().enumerate() {
            let take = (mask >> (i % 16)) & 1 == 1;
            let dep = tx.inputs().into_iter().any(|inp| skipped.contains(&cell_key(&inp.previous_output())));
            if take && !dep {
                commit.push(tx.clone());
            } else {
                for j in 0..tx.outputs().len() {
                    skipped.insert((h32(&tx.hash()), j as u32));
                }
            }
        }
        commit
    }

    fn timestamp(&self, parent: &H, kind: u8) -> u64 {
        let pts = self.tree.get(parent).block.timestamp();
        let want = pts + [1u64, 1000, 8000][kind as usize % 3];
        want.max(self.tree.median_time(parent) + 1)
    }

    fn spec(&mut self, parent: &H, ts: u8, miner: u8, ext_extra: u8) -> BlockSpec {
        self.serial += 1;
        let mut message = self.salt.to_le_bytes().to_vec();
        message.extend_from_slice(&self.serial.to_le_bytes());
        BlockSpec {
            timestamp: self.timestamp(parent, ts),
            miner_lock: Some(lock_variant(self.env, miner % 4)),
            message,
            extension_extra: vec![0xe7; ext_extra as usize],
            nonce: self.serial as u128,
            ..Default::default()
        }
    }

    fn opts() -> BuildOpts {
        BuildOpts { use_node_reward_quirk: true, ..Default::default() }
    }

    /// side blocks that a block on top of `parent` may include after `chosen` (UnclesVerifier rules)
    fn uncle_candidates(&self, parent: &H, chosen: &[H]) -> Vec<H> {
        let p = self.tree.get(parent);
        let n = p.number + 1;
        let next = self.env.consensus.next_epoch_ext(&p.block.header(), &ModelEpochView(&self.tree));
        let Some(next) = next else { return vec![] };
        let epoch = next.epoch();
        let mut first = vec![];
        let mut rest = vec![];
        for s in &self.sides {
            let u = self.tree.get(&s.hash);
            if u.number >= n
                || u.block.epoch().number() != epoch.number()
                || u.block.compact_target() != epoch.compact_target()
                || chosen.contains(&s.hash)
                || p.state.uncles.contains_key(&h32(&s.hash))
                || self.tree.is_ancestor(&s.hash, parent)
            {
                continue;
            }
            let on_branch = self.tree.is_ancestor(&s.parent, parent);
            let embedded = p.state.uncles.contains_key(&h32(&s.parent));
            let same_block = chosen.contains(&s.parent);
            if same_block {
                first.push(s.hash.clone());
            } else if on_branch || embedded {
                rest.push(s.hash.clone());
            }
        }
        // level-1 sides with a child among the side blocks first (their child can follow them)
        let has_child = |h: &H| self.sides.iter().any(|c| &c.parent == h && c.level == 2 && self.tree.get(&c.hash).number < n);
        let (mut a, b): (Vec<H>, Vec<H>) = rest.into_iter().partition(|h| has_child(h));
        first.append(&mut a);
        first.extend(b);
        first
    }

    /// build main block `i` (plan i-1), its side blocks and its rival
    fn build_main(&mut self, plan: &BlockPlan) -> Result<(), String> {
        let parent = self.main.last().unwrap().clone();
        let idx = self.main.len();
        let mut spec = self.spec(&parent, plan.ts, plan.miner, plan.ext_extra);
        // uncles
        let mut chosen: Vec<H> = vec![];
        for sel in plan.uncles.iter().take(self.env.consensus.max_uncles_num()) {
            let cands = self.uncle_candidates(&parent, &chosen);
            if cands.is_empty() {
                break;
            }
            chosen.push(cands[pick_idx(*sel as u32, cands.len())].clone());
        }
        spec.uncles = chosen.iter().map(|c| self.tree.get(c).block.as_uncle()).collect::<Vec<UncleBlockView>>();
        // new transactions, proposed here
        let mut avail = self.avail(&parent);
        let mut proposals = vec![];
        for ts in &plan.new_txs {
            if let Some(tx) = build_tx(self.env, ts, &mut avail) {
                if !self.txs.iter().any(|t| t.hash() == tx.hash()) {
                    proposals.push(tx.proposal_short_id());
                    self.txs.push(tx);
                }
            }
        }
        spec.proposals = proposals;
        let cands = self.commit_candidates(&parent);
        spec.txs = Self::masked(cands.clone(), plan.commit_mask);
        let mb = self.tree.build(&parent, &spec, &Self::opts())?;
        let h = self.tree.insert(mb);
        self.main.push(h);
        // rival: same parent, other miner, commits by its own mask, no uncles
        if let Some(mask) = plan.session.rival {
            let mut rs = self.spec(&parent, plan.ts.wrapping_add(1), plan.miner.wrapping_add(1), 0);
            rs.txs = Self::masked(cands, mask);
            let rb = self.tree.build(&parent, &rs, &Self::opts())?;
            let rh = self.tree.insert(rb);
            self.rivals.insert(idx, rh.clone());
            let number = self.tree.get(&rh).number;
            self.sides.push(SideB { hash: rh, number, parent: parent.clone(), level: 1 });
        }
        // side blocks at this height
        for sp in &plan.sides {
            let below: Vec<SideB> = self
                .sides
                .iter()
                .filter(|s| s.level == 1 && s.number + 1 == idx as u64)
                .cloned()
                .collect();
            let (sparent, level) = match sp.on_side {
                Some(sel) if !below.is_empty() => (below[pick_idx(sel as u32, below.len())].hash.clone(), 2),
                _ => (parent.clone(), 1),
            };
            let mut ss = self.spec(&sparent, 1, sp.miner, 0);
            // re-propose known uncommitted transactions (an uncle's proposals count for the window)
            let known: Vec<ProposalShortId> = self
                .txs
                .iter()
                .filter(|t| !self.committed(&parent, t))
                .map(|t| t.proposal_short_id())
                .collect();
            for k in 0..sp.proposals as usize {
                if known.is_empty() {
                    break;
                }
                let id = known[(k * 7 + sp.miner as usize) % known.len()].clone();
                if !ss.proposals.contains(&id) {
                    ss.proposals.push(id);
                }
            }
            let sb = self.tree.build(&sparent, &ss, &Self::opts())?;
            let number = sb.number;
            let sh = self.tree.insert(sb);
            self.sides.push(SideB { hash: sh, number, parent: sparent, level });
        }
        Ok(())
    }
}

// ------------------------------------------------------------------------------------------------
// recording protocol context

#[derive(Clone, Debug)]
enum Out {
    Msg { proto: ProtocolId, peer: PeerIndex, data: NBytes },
    Broadcast { proto: ProtocolId, peers: Vec<PeerIndex>, data: NBytes },
    Ban { peer: PeerIndex, reason: String },
    Disconnect,
}

pub struct Net {
    handle: Handle,
    log: Mutex<Vec<Out>>,
    connected: Mutex<Vec<PeerIndex>>,
}

type Task = Pin<Box<dyn Future<Output = ()> + 'static + Send>>;

impl Net {
    fn push(&self, o: Out) {
        self.log.lock().unwrap().push(o);
    }
    fn targets(&self, t: TargetSession) -> Vec<PeerIndex> {
        let all = self.connected.lock().unwrap().clone();
        match t {
            TargetSession::All => all,
            TargetSession::Single(p) => vec![p],
            TargetSession::Multi(it) => it.collect(),
            TargetSession::Filter(mut f) => all.into_iter().filter(|p| f(p)).collect(),
        }
    }
    fn relay_id(&self) -> ProtocolId {
        SupportProtocols::RelayV3.protocol_id()
    }
}

#[async_trait]
impl CKBProtocolContext for Net {
    async fn set_notify(&self, _interval: Duration, _token: u64) -> Result<(), NetError> {
        Ok(())
    }
    async fn remove_notify(&self, _token: u64) -> Result<(), NetError> {
        Ok(())
    }
    async fn async_quick_send_message(&self, proto_id: ProtocolId, peer_index: PeerIndex, data: NBytes) -> Result<(), NetError> {
        self.push(Out::Msg { proto: proto_id, peer: peer_index, data });
        Ok(())
    }
    async fn async_quick_send_message_to(&self, peer_index: PeerIndex, data: NBytes) -> Result<(), NetError> {
        self.push(Out::Msg { proto: self.relay_id(), peer: peer_index, data });
        Ok(())
    }
    async fn async_quick_filter_broadcast(&self, target: TargetSession, data: NBytes) -> Result<(), NetError> {
        let peers = self.targets(target);
        self.push(Out::Broadcast { proto: self.relay_id(), peers, data });
        Ok(())
    }
    async fn async_future_task(&self, task: Task, _blocking: bool) -> Result<(), NetError> {
        self.handle.spawn(task);
        Ok(())
    }
    async fn async_send_message(&self, proto_id: ProtocolId, peer_index: PeerIndex, data: NBytes) -> Result<(), NetError> {
        self.push(Out::Msg { proto: proto_id, peer: peer_index, data });
        Ok(())
    }
    async fn async_send_message_to(&self, peer_index: PeerIndex, data: NBytes) -> Result<(), NetError> {
        self.push(Out::Msg { proto: self.relay_id(), peer: peer_index, data });
        Ok(())
    }
    async fn async_filter_broadcast(&self, target: TargetSession, data: NBytes) -> Result<(), NetError> {
        let peers = self.targets(target);
        self.push(Out::Broadcast { proto: self.relay_id(), peers, data });
        Ok(())
    }
    async fn async_filter_broadcast_with_proto(&self, proto_id: ProtocolId, target: TargetSession, data: NBytes) -> Result<(), NetError> {
        let peers = self.targets(target);
        self.push(Out::Broadcast { proto: proto_id, peers, data });
        Ok(())
    }
    async fn async_quick_filter_broadcast_with_proto(&self, proto_id: ProtocolId, target: TargetSession, data: NBytes) -> Result<(), NetError> {
        let peers = self.targets(target);
        self.push(Out::Broadcast { proto: proto_id, peers, data });
        Ok(())
    }
    async fn async_disconnect(&self, peer_index: PeerIndex, _message: &str) -> Result<(), NetError> {
        {
            let _ = peer_index;
            self.push(Out::Disconnect);
        }
        Ok(())
    }
    fn quick_send_message(&self, proto_id: ProtocolId, peer_index: PeerIndex, data: NBytes) -> Result<(), NetError> {
        self.push(Out::Msg { proto: proto_id, peer: peer_index, data });
        Ok(())
    }
    fn quick_send_message_to(&self, peer_index: PeerIndex, data: NBytes) -> Result<(), NetError> {
        self.push(Out::Msg { proto: self.relay_id(), peer: peer_index, data });
        Ok(())
    }
    fn quick_filter_broadcast(&self, target: TargetSession, data: NBytes) -> Result<(), NetError> {
        let peers = self.targets(target);
        self.push(Out::Broadcast { proto: self.relay_id(), peers, data });
        Ok(())
    }
    fn quick_filter_broadcast_with_proto(&self, proto_id: ProtocolId, target: TargetSession, data: NBytes) -> Result<(), NetError> {
        let peers = self.targets(target);
        self.push(Out::Broadcast { proto: proto_id, peers, data });
        Ok(())
    }
    fn future_task(&self, task: Task, _blocking: bool) -> Result<(), NetError> {
        self.handle.spawn(task);
        Ok(())
    }
    fn send_message(&self, proto_id: ProtocolId, peer_index: PeerIndex, data: NBytes) -> Result<(), NetError> {
        self.push(Out::Msg { proto: proto_id, peer: peer_index, data });
        Ok(())
    }
    fn send_message_to(&self, peer_index: PeerIndex, data: NBytes) -> Result<(), NetError> {
        self.push(Out::Msg { proto: self.relay_id(), peer: peer_index, data });
        Ok(())
    }
    fn filter_broadcast(&self, target: TargetSession, data: NBytes) -> Result<(), NetError> {
        let peers = self.targets(target);
        self.push(Out::Broadcast { proto: self.relay_id(), peers, data });
        Ok(())
    }
    fn disconnect(&self, peer_index: PeerIndex, _message: &str) -> Result<(), NetError> {
        {
            let _ = peer_index;
            self.push(Out::Disconnect);
        }
        Ok(())
    }
    fn get_peer(&self, _peer_index: PeerIndex) -> Option<Peer> {
        None
    }
    fn with_peer_mut(&self, _peer_index: PeerIndex, _f: Box<dyn FnOnce(&mut Peer)>) {}
    fn connected_peers(&self) -> Vec<PeerIndex> {
        self.connected.lock().unwrap().clone()
    }
    fn full_relay_connected_peers(&self) -> Vec<PeerIndex> {
        self.connected.lock().unwrap().clone()
    }
    fn report_peer(&self, _peer_index: PeerIndex, _behaviour: Behaviour) {}
    fn ban_peer(&self, peer_index: PeerIndex, _duration: Duration, reason: String) {
        self.push(Out::Ban { peer: peer_index, reason });
    }
    fn protocol_id(&self) -> ProtocolId {
        self.relay_id()
    }
}

// ------------------------------------------------------------------------------------------------
// node with a relayer

struct SNode {
    shared: Shared,
    chain: Option<ChainServiceScope>,
    runtime: Option<tokio::runtime::Runtime>,
    relayer: Option<Relayer>,
    net: Arc<Net>,
    /// drives the handler futures from the check's thread
    rt: tokio::runtime::Runtime,
    _network: NetworkController,
    _tmp: tempfile::TempDir,
}

fn dummy_network(shared: &Shared, dir: &std::path::Path) -> NetworkController {
    let config = NetworkConfig {
        max_peers: 19,
        max_outbound_peers: 5,
        path: dir.join("network"),
        ping_interval_secs: 15,
        ping_timeout_secs: 20,
        connect_outbound_interval_secs: 1,
        discovery_local_address: true,
        bootnode_mode: true,
        reuse_port_on_linux: true,
        ..Default::default()
    };
    let network_state = Arc::new(NetworkState::from_config(config).expect("Init network state failed"));
    NetworkService::new(
        network_state,
        vec![],
        vec![],
        (shared.consensus().identify_name(), "verif".to_string(), Flags::COMPATIBILITY),
        TransportType::Tcp,
    )
    .start(shared.async_handle())
    .expect("Start network service failed")
}

impl SNode {
    fn start(env: &Env) -> Result<SNode, String> {
        let tmp = scratch("vc16s-");
        let dir = tmp.path().to_path_buf();
        let (handle, _stop_rx, runtime) = new_global_runtime(Some(3));
        let db_config = DBConfig { path: dir.join("db"), ..Default::default() };
        let mut tx_pool = default_tx_pool_config(&dir);
        tx_pool.min_fee_rate = ckb_types::core::FeeRate::from_u64(0);
        std::fs::create_dir_all(dir.join("header_map")).map_err(|e| e.to_string())?;
        let builder = SharedBuilder::new("vcheck", &dir, &db_config, None, handle.clone(), (*env.consensus).clone())
            .map_err(|e| format!("SharedBuilder::new failed: {e:?}"))?;
        let (shared, mut pack) = builder
            .tx_pool_config(tx_pool)
            .header_map_tmp_dir(Some(dir.join("header_map")))
            .build()
            .map_err(|e| format!("SharedBuilder::build failed: {e:?}"))?;
        let network = dummy_network(&shared, &dir);
        pack.take_tx_pool_builder().start(network.clone());
        let chain = ChainServiceScope::new(pack.take_chain_services_builder());
        let t0 = Instant::now();
        while chain.chain_controller().is_verifying_unverified_blocks_on_startup() {
            if t0.elapsed() > Duration::from_secs(60) {
                return Err("start-up verification of stored blocks did not finish in 60 s".into());
            }
            std::thread::sleep(Duration::from_millis(1));
        }
        let sync_shared = Arc::new(SyncShared::new(shared.clone(), Default::default(), pack.take_relay_tx_receiver()));
        let relayer = Relayer::new(chain.chain_controller().clone(), sync_shared);
        let net = Arc::new(Net { handle, log: Mutex::new(vec![]), connected: Mutex::new(vec![]) });
        let rt = tokio::runtime::Builder::new_current_thread().enable_all().build().map_err(|e| e.to_string())?;
        Ok(SNode { shared, chain: Some(chain), runtime: Some(runtime), relayer: Some(relayer), net, rt, _network: network, _tmp: tmp })
    }

    fn chain(&self) -> &ChainController {
        self.chain.as_ref().unwrap().chain_controller()
    }
    fn relayer(&self) -> &Relayer {
        self.relayer.as_ref().unwrap()
    }
    fn nc(&self) -> Arc<dyn CKBProtocolContext + Sync> {
        self.net.clone()
    }
    fn status(&self, h: &H) -> BlockStatus {
        self.shared.get_block_status(h)
    }
    fn tip(&self) -> H {
        self.shared.snapshot().tip_hash()
    }

    /// blocking import (block with a known parent only)
    fn process(&self, b: &BlockView) -> Result<bool, String> {
        self.chain().blocking_process_block(Arc::new(b.clone())).map_err(|e| e.to_string())
    }

    /// FIFO barrier through the three chain threads: re-deliver a verified block, twice
    fn barrier(&self, anchor: &BlockView) -> Verdict {
        for _ in 0..2 {
            let (tx, rx) = mpsc::channel();
            self.chain().asynchronous_process_lonely_block(LonelyBlock {
                block: Arc::new(anchor.clone()),
                switch: None,
                verify_callback: Some(Box::new(move |_| {
                    let _ = tx.send(());
                })),
            });
            if rx.recv_timeout(Duration::from_secs(60)).is_err() {
                node_panic_violation()?;
                return Err(Violation::new("harness:barrier-timeout", "barrier block callback did not fire in 60 s"));
            }
        }
        Ok(())
    }

    fn wait_pool_synced(&self) -> Verdict {
        let t0 = Instant::now();
        loop {
            let tip = self.tip();
            if let Ok(info) = self.shared.tx_pool_controller().get_tx_pool_info() {
                if info.tip_hash == tip {
                    return Ok(());
                }
            }
            if t0.elapsed() > Duration::from_secs(30) {
                return Err(Violation::new("harness:pool-not-synced", "tx-pool did not catch up with the tip in 30 s"));
            }
            std::thread::sleep(Duration::from_micros(300));
        }
    }

    fn stop(mut self) {
        self.relayer.take();
        if let Some(c) = self.chain.take() {
            drop(c);
        }
        if let Some(rt) = self.runtime.take() {
            rt.shutdown_timeout(Duration::from_secs(5));
        }
    }
}

// ------------------------------------------------------------------------------------------------
// the run of a case

/// what the node holds of a side block (absent from the map: nothing)
#[derive(Clone, Copy, Debug, PartialEq, Eq)]
enum Know {
    Header,
    Orphan,
    /// released from the orphan pool (or received) while the verify thread is stalled
    Transit,
    Stored,
}

#[derive(Clone, Debug, Default)]
struct Avail {
    /// non-prefilled positions the tx-pool can supply (exact or twin)
    tx_ok: BTreeSet<usize>,
    tx_twin: BTreeSet<usize>,
    /// uncle positions the node certainly has (stored side block or orphan-pool member)
    unc_ok: BTreeSet<usize>,
}

#[derive(Clone, Debug)]
struct Req {
    tx: Vec<u32>,
    unc: Vec<u32>,
}

struct PeerSt {
    idx: PeerIndex,
    /// the compact block this peer announced (the genuine one unless it lied)
    cb: packed::CompactBlock,
    announced: bool,
    liar: bool,
    banned: bool,
    twin_sent: bool,
    reqs: Vec<Req>,
    /// number of requests this peer has replied to
    answered: usize,
    /// local availability right before this peer's latest message
    snap: Avail,
}

struct Sess {
    bi: usize,
    block: BlockView,
    cb: packed::CompactBlock,
    prefilled: BTreeSet<usize>,
    peers: Vec<PeerSt>,
    requests: u32,
    changes: u32,
    lies: u32,
    stalled_release: bool,
    /// a liar announced a tampered compact block (which one)
    tampered: Option<Tamper>,
    old_tip: H,
    accepted_seen: bool,
}

struct Run<'a> {
    w: &'a World<'a>,
    node: SNode,
    know: HashMap<H, Know>,
    /// transactions this check put into the pool and did not take out (tx hash -> twin?)
    pool_set: BTreeMap<[u8; 32], bool>,
    tip_model: H,
    log_pos: usize,
    stall: Option<mpsc::Sender<()>>,
    anchor: BlockView,
    side_peer: PeerIndex,
    fin_hash: H,
}

fn trace_on() -> bool {
    static T: std::sync::OnceLock<bool> = std::sync::OnceLock::new();
    *T.get_or_init(|| std::env::var_os("VERIF_C16S_TRACE").is_some())
}

macro_rules! trace {
    ($($arg:tt)*) => {
        if trace_on() {
            eprintln!("[relay-session] {}", format!($($arg)*));
        }
    };
}

fn twin_of(tx: &TransactionView) -> TransactionView {
    tx.as_advanced_builder().witness(Bytes::from(vec![0x77u8, 0x01]).pack()).build()
}

fn foreign_tx(salt: u64) -> TransactionView {
    let mut h = [0u8; 32];
    h[..8].copy_from_slice(&fxhash64(&(salt, "foreign")).to_le_bytes());
    TransactionBuilder::default()
        .input(CellInput::new(OutPoint::new(packed::Byte32::new(h), 0), 0))
        .output(CellOutput::new_builder().capacity(Capacity::shannons(100 + salt % 1000)).build())
        .output_data(Bytes::new().pack())
        .build()
}

fn relay_msg_compact(cb: &packed::CompactBlock) -> NBytes {
    packed::RelayMessage::new_builder().set(cb.clone()).build().as_bytes()
}

fn relay_msg_block_txs(hash: &H, txs: &[TransactionView], uncles: &[UncleBlockView]) -> NBytes {
    let content = packed::BlockTransactions::new_builder()
        .block_hash(hash.clone())
        .transactions(txs.iter().map(|t| t.data()).collect::<Vec<_>>())
        .uncles(uncles.iter().map(|u| u.data()).collect::<Vec<_>>())
        .build();
    packed::RelayMessage::new_builder().set(content).build().as_bytes()
}

fn ban_code(reason: &str) -> String {
    reason.split(|c| c == '(' || c == ':').next().unwrap_or("").trim().to_string()
}

impl<'a> Run<'a> {
    fn td(&self, h: &H) -> ckb_types::U256 {
        self.w.tree.get(h).td.clone()
    }

    /// handed to the chain service.  `accept_remote_block` sets BLOCK_RECEIVED before it returns and
    /// the entry stays until the verify thread has finished with the block; by then the block is in
    /// the store (for an instant between `remove_block_status` and `remove_header_view` the status
    /// reads HEADER_VALID, hence the second test).
    fn accepted(&self, h: &H) -> bool {
        self.node.status(h).contains(BlockStatus::BLOCK_RECEIVED) || self.node.shared.store().get_block_header(h).is_some()
    }

    fn side(&self, h: &H) -> Option<&SideB> {
        self.w.sides.iter().find(|s| &s.hash == h)
    }

    /// is the full block `h` stored at the node (main-chain blocks delivered so far, stored sides)
    fn has_stored(&self, h: &H, main_upto: usize) -> bool {
        self.w.main[..=main_upto].contains(h) || self.know.get(h) == Some(&Know::Stored)
    }

    // ---- stall of the verify thread -----------------------------------------------------------

    fn ensure_stalled(&mut self) -> Verdict {
        if self.stall.is_some() {
            return Ok(());
        }
        let (rel_tx, rel_rx) = mpsc::channel::<()>();
        let (started_tx, started_rx) = mpsc::channel::<()>();
        let rel_rx = Mutex::new(rel_rx);
        let started_tx = Mutex::new(started_tx);
        self.node.chain().asynchronous_process_lonely_block(LonelyBlock {
            block: Arc::new(self.anchor.clone()),
            switch: None,
            verify_callback: Some(Box::new(move |_| {
                let _ = started_tx.lock().map(|t| t.send(()));
                let _ = rel_rx.lock().map(|r| r.recv_timeout(Duration::from_secs(300)));
            })),
        });
        if started_rx.recv_timeout(Duration::from_secs(60)).is_err() {
            node_panic_violation()?;
            return Err(Violation::new("harness:stall-not-started", "stall callback did not start in 60 s"));
        }
        self.stall = Some(rel_tx);
        Ok(())
    }

    fn ensure_unstalled(&mut self) -> Verdict {
        if let Some(tx) = self.stall.take() {
            let _ = tx.send(());
            self.node.barrier(&self.anchor)?;
            let transit: Vec<H> = self.know.iter().filter(|(_, k)| **k == Know::Transit).map(|(h, _)| h.clone()).collect();
            for h in transit {
                if !self.node.status(&h).contains(BlockStatus::BLOCK_STORED) {
                    return Err(Violation::new("harness:transit-block-not-stored", format!("{h} status {:?}", self.node.status(&h))));
                }
                self.know.insert(h, Know::Stored);
            }
        }
        Ok(())
    }

    // ---- side blocks ------------------------------------------------------------------------------

    fn deliver_stored(&mut self, h: &H, st: &mut Stats) -> Verdict {
        if self.know.get(h) == Some(&Know::Stored) {
            return Ok(());
        }
        self.ensure_unstalled()?;
        if self.know.get(h) == Some(&Know::Stored) {
            return Ok(());
        }
        let side = self.side(h).cloned().ok_or_else(|| Violation::new("harness:not-a-side-block", format!("{h}")))?;
        if side.level == 2 && self.know.get(&side.parent) != Some(&Know::Stored) {
            let p = side.parent.clone();
            self.deliver_stored(&p, st)?;
            if self.know.get(h) == Some(&Know::Stored) {
                return Ok(()); // it was an orphan waiting for that parent
            }
        }
        let b = self.w.tree.get(h).block.clone();
        if let Err(e) = self.node.process(&b) {
            vfail!("import:model-side-block-refused", "side block #{} {h} refused: {e}", b.number());
        }
        self.node.barrier(&self.anchor)?;
        self.know.insert(h.clone(), Know::Stored);
        if self.td(h) > self.td(&self.tip_model) {
            self.tip_model = h.clone();
        }
        // orphans waiting for this block are released and stored
        let kids: Vec<H> = self
            .w
            .sides
            .iter()
            .filter(|s| &s.parent == h && matches!(self.know.get(&s.hash), Some(Know::Orphan) | Some(Know::Transit)))
            .map(|s| s.hash.clone())
            .collect();
        for k in kids {
            if !self.node.status(&k).contains(BlockStatus::BLOCK_STORED) {
                return Err(Violation::new("harness:released-orphan-not-stored", format!("{k} status {:?}", self.node.status(&k))));
            }
            self.know.insert(k, Know::Stored);
            st.label("uncle-change:orphan-released-and-stored");
        }
        Ok(())
    }

    /// the way a relayed block reaches the chain service (`Relayer::accept_block`)
    fn accept_async(&self, h: &H) {
        let b = self.w.tree.get(h).block.clone();
        self.node.relayer().accept_block(self.node.nc(), self.side_peer, b, "CompactBlock");
    }

    fn wait_orphan(&self, h: &H, present: bool) -> Verdict {
        let t0 = Instant::now();
        loop {
            let is = self.node.chain().get_orphan_block(self.node.shared.store(), h).is_some();
            if is == present {
                return Ok(());
            }
            if t0.elapsed() > Duration::from_secs(30) {
                node_panic_violation()?;
                return Err(Violation::new("harness:orphan-pool-wait", format!("{h} present={present} not reached in 30 s")));
            }
            std::thread::sleep(Duration::from_micros(200));
        }
    }

    fn setup_uncle(&mut self, h: &H, plan: UPlan, main_upto: usize, st: &mut Stats) -> Verdict {
        if self.know.contains_key(h) {
            return Ok(());
        }
        let side = self.side(h).cloned().ok_or_else(|| Violation::new("harness:not-a-side-block", format!("{h}")))?;
        match plan {
            UPlan::Unknown => {}
            UPlan::Header => {
                if self.has_stored(&side.parent, main_upto) {
                    let header = self.w.tree.get(h).block.header();
                    self.node.relayer().shared().insert_valid_header(self.side_peer, &header);
                    self.know.insert(h.clone(), Know::Header);
                }
            }
            UPlan::Stored => self.deliver_stored(h, st)?,
            UPlan::Orphan => {
                if side.level == 2 && !self.has_stored(&side.parent, main_upto) && self.know.get(&side.parent) != Some(&Know::Transit) {
                    self.accept_async(h);
                    self.wait_orphan(h, true)?;
                    self.know.insert(h.clone(), Know::Orphan);
                } else {
                    self.deliver_stored(h, st)?;
                }
            }
        }
        Ok(())
    }

    // ---- messages -----------------------------------------------------------------------------------

    fn deliver(&mut self, peer: PeerIndex, data: NBytes) -> Verdict {
        let nc = self.node.nc();
        let mut relayer = self.node.relayer.take().expect("relayer");
        let rt = &self.node.rt;
        let r = guard("relay-session", "received", || {
            rt.block_on(async { tokio::time::timeout(Duration::from_secs(60), relayer.received(nc, peer, data)).await.is_ok() })
        });
        self.node.relayer = Some(relayer);
        match r {
            Ok(true) => Ok(()),
            Ok(false) => Err(Violation::new("session:handler-did-not-return", "Relayer::received did not return within 60 s")),
            Err(v) => Err(v),
        }
    }

    fn connect(&mut self, peer: PeerIndex) -> Verdict {
        self.node.net.connected.lock().unwrap().push(peer);
        let nc = self.node.nc();
        let mut relayer = self.node.relayer.take().expect("relayer");
        let rt = &self.node.rt;
        let r = guard("relay-session", "connected", || rt.block_on(relayer.connected(nc, peer, "3")));
        self.node.relayer = Some(relayer);
        r
    }

    fn pending_expectation(&self, hash: &H, peer: PeerIndex) -> Option<(Vec<u32>, Vec<u32>)> {
        let relayer = self.node.relayer();
        self.node.rt.block_on(async {
            let g = relayer.shared().state().pending_compact_blocks().await;
            g.get(hash).and_then(|(_, m, _)| m.get(&peer).cloned())
        })
    }

    /// local availability of what compact block `cb` (of peer `k`) names
    fn snapshot(&self, s: &Sess, k: usize) -> Result<Avail, Violation> {
        let cb = &s.peers[k].cb;
        let txs = s.block.transactions();
        let slots = cb.block_short_ids();
        let ids: HashSet<ProposalShortId> = slots.iter().flatten().cloned().collect();
        let mut a = Avail::default();
        if !ids.is_empty() {
            let ctl = self.node.shared.tx_pool_controller();
            let got = self
                .node
                .rt
                .block_on(ctl.fetch_txs(ids))
                .map_err(|e| Violation::new("harness:fetch-txs", e.to_string()))?;
            for (pos, slot) in slots.iter().enumerate() {
                let Some(id) = slot else { continue };
                if let Some(t) = got.get(id) {
                    a.tx_ok.insert(pos);
                    // a same-hash twin of a transaction of the block
                    if txs.iter().any(|b| b.hash() == t.hash() && b.witness_hash() != t.witness_hash()) {
                        a.tx_twin.insert(pos);
                    }
                }
            }
        }
        for (j, u) in cb.uncles().into_iter().enumerate() {
            if matches!(self.know.get(&u), Some(Know::Stored) | Some(Know::Orphan)) {
                a.unc_ok.insert(j);
            }
        }
        Ok(a)
    }

    fn handle_request(&mut self, s: &mut Sess, peer: PeerIndex, m: packed::GetBlockTransactions, st: &mut Stats) -> Verdict {
        let hash = m.block_hash();
        if hash != s.block.hash() {
            vfail!("request:for-a-block-not-in-relay", "GetBlockTransactions for {hash} while {} is relayed", s.block.hash());
        }
        let Some(k) = s.peers.iter().position(|p| p.idx == peer) else {
            vfail!("request:addressed-to-unknown-peer", "GetBlockTransactions sent to {peer} which is not part of the session");
        };
        if !s.peers[k].announced {
            vfail!("request:addressed-to-peer-that-did-not-announce", "GetBlockTransactions sent to {peer} which never announced the block");
        }
        let tx: Vec<u32> = m.indexes().into_iter().map(|i| i.into()).collect();
        let unc: Vec<u32> = m.uncle_indexes().into_iter().map(|i| i.into()).collect();
        let slots = s.peers[k].cb.block_short_ids();
        let n_tx = slots.len();
        let n_unc = s.peers[k].cb.uncles().len();
        let prefilled: BTreeSet<usize> = slots.iter().enumerate().filter(|(_, x)| x.is_none()).map(|(i, _)| i).collect();
        if tx.is_empty() && unc.is_empty() {
            vfail!("request:empty", "GetBlockTransactions with no index at all");
        }
        for i in &tx {
            if *i as usize >= n_tx {
                vfail!("request:tx-index-out-of-range", "index {i} of {n_tx} transactions (request {tx:?})");
            }
            if prefilled.contains(&(*i as usize)) {
                vfail!("request:tx-index-is-prefilled", "index {i} was prefilled in the compact block (request {tx:?})");
            }
        }
        for j in &unc {
            if *j as usize >= n_unc {
                vfail!("request:uncle-index-out-of-range", "uncle index {j} of {n_unc} uncles (request {unc:?})");
            }
        }
        if tx.iter().collect::<BTreeSet<_>>().len() != tx.len() || unc.iter().collect::<BTreeSet<_>>().len() != unc.len() {
            vfail!("request:duplicate-index", "indexes {tx:?} uncle_indexes {unc:?}");
        }
        trace!("node -> {peer}: GetBlockTransactions indexes {tx:?} uncle_indexes {unc:?}");
        let p = &s.peers[k];
        let prev_tx: BTreeSet<u32> = p.reqs.iter().flat_map(|r| r.tx.iter().copied()).collect();
        let prev_unc: BTreeSet<u32> = p.reqs.iter().flat_map(|r| r.unc.iter().copied()).collect();
        let extra_tx: Vec<u32> = tx.iter().copied().filter(|i| p.snap.tx_ok.contains(&(*i as usize)) && !prev_tx.contains(i)).collect();
        let extra_unc: Vec<u32> = unc.iter().copied().filter(|j| p.snap.unc_ok.contains(&(*j as usize)) && !prev_unc.contains(j)).collect();
        if !extra_tx.is_empty() || !extra_unc.is_empty() {
            let all: Vec<u32> = (0..n_tx).filter(|i| !prefilled.contains(i)).map(|i| i as u32).collect();
            let retreat = tx == all && unc.is_empty();
            if retreat && (!p.snap.tx_twin.is_empty() || p.twin_sent) {
                st.label("request:collision-retreat");
            } else if retreat {
                vfail!(
                    "request:collision-retreat-without-twin",
                    "all short ids {tx:?} requested from {peer} although no same-hash twin was among the candidates (pool supplies {:?})",
                    p.snap.tx_ok
                );
            } else if !extra_tx.is_empty() {
                vfail!(
                    "request:asks-for-locally-available-transaction",
                    "request {tx:?} to {peer}: positions {extra_tx:?} are in the tx-pool and were never requested from this peer before (pool supplies {:?}, earlier requests {prev_tx:?})",
                    p.snap.tx_ok
                );
            } else {
                vfail!(
                    "request:asks-for-locally-available-uncle",
                    "uncle request {unc:?} to {peer}: positions {extra_unc:?} are stored / in the orphan pool and were never requested from this peer before (have {:?}, earlier requests {prev_unc:?})",
                    p.snap.unc_ok
                );
            }
        }
        if unc.windows(2).any(|w| w[0] > w[1]) {
            st.label("request:uncle-indexes-not-ascending");
        }
        if !p.reqs.is_empty() {
            st.label("request:re-request");
            if unc.iter().any(|j| prev_unc.contains(j)) && unc.iter().any(|j| !prev_unc.contains(j)) {
                st.label("request:re-request-merges-new-and-previous-uncle-indexes");
            }
            if tx.iter().any(|i| prev_tx.contains(i)) && tx.iter().any(|i| !prev_tx.contains(i)) {
                st.label("request:re-request-merges-new-and-previous-tx-indexes");
            }
        }
        s.peers[k].reqs.push(Req { tx, unc });
        s.requests += 1;
        Ok(())
    }

    /// everything the node sent since the last call
    fn drain(&mut self, s: &mut Sess, st: &mut Stats) -> Verdict {
        let new: Vec<Out> = {
            let log = self.node.net.log.lock().unwrap();
            log[self.log_pos..].to_vec()
        };
        self.log_pos += new.len();
        let relay = self.node.net.relay_id();
        for o in new {
            match o {
                Out::Msg { proto, peer, data } => {
                    if proto != relay {
                        st.label("sent:other-protocol-message");
                        continue;
                    }
                    let Ok(m) = packed::RelayMessage::from_compatible_slice(&data) else {
                        vfail!("sent:undecodable-relay-message", "the node sent {} undecodable bytes to {peer}", data.len());
                    };
                    match m.to_enum() {
                        packed::RelayMessageUnion::GetBlockTransactions(g) => self.handle_request(s, peer, g, st)?,
                        other => st.label(&format!("sent:{}", other.item_name())),
                    }
                }
                Out::Broadcast { proto, peers, data } => {
                    if proto != relay {
                        st.label("sent:other-protocol-broadcast");
                        continue;
                    }
                    if let Ok(m) = packed::RelayMessage::from_compatible_slice(&data) {
                        if let packed::RelayMessageUnion::CompactBlock(cb) = m.to_enum() {
                            let h = cb.header().into_view().hash();
                            if let Some(mb) = self.w.tree.blocks.get(&h) {
                                let want = packed::CompactBlock::build_from_block(&mb.block, &HashSet::new());
                                if want.as_slice() != cb.as_slice() {
                                    vfail!("broadcast:compact-block-differs-from-the-accepted-block", "compact block of {h} broadcast to {} peers is not the compact form of the committed block", peers.len());
                                }
                                st.label("sent:broadcast-compact-block");
                            } else {
                                vfail!("broadcast:compact-block-of-unknown-block", "the node broadcast a compact block {h} the model never built");
                            }
                        }
                    }
                }
                Out::Ban { peer, reason } => {
                    trace!("node bans {peer}: {reason}");
                    let code = ban_code(&reason);
                    match s.peers.iter_mut().find(|p| p.idx == peer) {
                        Some(p) if p.liar => {
                            p.banned = true;
                            st.label(&format!("ban:liar:{code}"));
                        }
                        _ => vfail!(
                            format!("session:honest-peer-banned:{code}"),
                            "peer {peer} only sent the genuine compact block / honest replies / valid blocks and was banned: {reason}"
                        ),
                    }
                }
                Out::Disconnect => st.label("sent:disconnect"),
            }
        }
        Ok(())
    }

    fn invariants(&mut self, s: &mut Sess, st: &mut Stats) -> Verdict {
        node_panic_violation()?;
        let h = s.block.hash();
        let status = self.node.status(&h);
        if status == BlockStatus::BLOCK_INVALID {
            vfail!("session:committed-block-marked-invalid", "block #{} {h} built by the model (valid) has status BLOCK_INVALID", s.block.number());
        }
        if let Some(b) = self.node.shared.store().get_block(&h) {
            if b.data().as_slice() != s.block.data().as_slice() {
                let part = if b.data().transactions().as_slice() != s.block.data().transactions().as_slice() {
                    "transactions"
                } else if b.data().uncles().as_slice() != s.block.data().uncles().as_slice() {
                    "uncles"
                } else {
                    "other"
                };
                vfail!(format!("session:different-block-stored-under-committed-hash:{part}"), "store.get_block({h}) differs from the committed block in its {part}");
            }
        }
        if !s.accepted_seen && self.accepted(&h) {
            s.accepted_seen = true;
            if self.td(&h) > self.td(&self.tip_model) {
                self.tip_model = h.clone();
            }
            // Let the chain threads finish with the block before the next message is handled: the
            // handlers' status checks racing with the verify thread (remove_block_status /
            // remove_header_view vs insert_valid_header) are not this property's subject.
            if self.stall.is_none() {
                self.node.barrier(&self.anchor)?;
            }
        }
        let ut = self.node.shared.get_unverified_tip().hash();
        if !self.w.tree.blocks.contains_key(&ut) && self.fin_hash != ut {
            vfail!(
                "session:chain-service-was-handed-a-block-the-model-never-built",
                "while #{} {h} is relayed the chain service's unverified tip is {ut}, a block that is none of the blocks built by the model (status of the committed hash: {status:?})",
                s.block.number()
            );
        }
        let tip = self.node.tip();
        if tip != self.tip_model && tip != s.old_tip {
            if !self.w.tree.blocks.contains_key(&tip) {
                vfail!("session:tip-moved-to-a-block-the-model-never-built", "while #{} {h} is relayed the tip became {tip}, which is none of the blocks built by the model", s.block.number());
            }
            vfail!("session:tip-moved-to-unexpected-block", "tip {tip}, expected {} (or still {})", self.tip_model, s.old_tip);
        }
        let _ = st;
        Ok(())
    }

    fn after_message(&mut self, s: &mut Sess, k: usize, first_announce: bool, st: &mut Stats) -> Verdict {
        let hash = s.block.hash();
        let peer = s.peers[k].idx;
        if first_announce {
            // CompactBlockProcess sends its request from a spawned task: wait for it
            if self.pending_expectation(&hash, peer).is_some() {
                let t0 = Instant::now();
                loop {
                    let n = {
                        let log = self.node.net.log.lock().unwrap();
                        log[self.log_pos..].iter().filter(|o| matches!(o, Out::Msg { peer: p, .. } if *p == peer)).count()
                    };
                    if n > 0 {
                        // a message for the peer is there; GetBlockProposal may precede the request
                        let has_req = {
                            let log = self.node.net.log.lock().unwrap();
                            log[self.log_pos..].iter().any(|o| match o {
                                Out::Msg { peer: p, data, .. } if *p == peer => packed::RelayMessage::from_compatible_slice(data)
                                    .map(|m| matches!(m.to_enum(), packed::RelayMessageUnion::GetBlockTransactions(_)))
                                    .unwrap_or(false),
                                _ => false,
                            })
                        };
                        if has_req {
                            break;
                        }
                    }
                    if t0.elapsed() > Duration::from_secs(20) {
                        vfail!("request:recorded-as-pending-but-never-sent", "pending_compact_blocks holds an expectation for {peer} but no GetBlockTransactions was sent within 20 s");
                    }
                    std::thread::sleep(Duration::from_micros(200));
                }
            }
        }
        self.drain(s, st)?;
        // what the node recorded as expected from the peer is what it asked the peer for
        // (development aid: VERIF_C16S_NO_BOOKKEEPING=1 leaves only the end-to-end clauses)
        let skip = std::env::var_os("VERIF_C16S_NO_BOOKKEEPING").is_some();
        if let (Some((etx, eunc)), false) = (self.pending_expectation(&hash, peer), skip) {
            match s.peers[k].reqs.last() {
                Some(r) if r.tx == etx && r.unc == eunc => {}
                other => vfail!(
                    "bookkeeping:expected-indexes-differ-from-last-request",
                    "pending_compact_blocks expects ({etx:?}, {eunc:?}) from {peer}, the last request sent to it was {other:?}"
                ),
            }
        }
        self.invariants(s, st)
    }

    fn announce(&mut self, s: &mut Sess, k: usize, st: &mut Stats) -> Verdict {
        if s.peers[k].banned {
            return Ok(());
        }
        let first = !s.peers[k].announced;
        s.peers[k].snap = self.snapshot(s, k)?;
        trace!("announce by {} (first={first}, liar={}) snapshot {:?}", s.peers[k].idx, s.peers[k].liar, s.peers[k].snap);
        let data = relay_msg_compact(&s.peers[k].cb);
        let peer = s.peers[k].idx;
        self.deliver(peer, data)?;
        s.peers[k].announced = true;
        st.label(if first { "step:announce" } else { "step:re-announce" });
        self.after_message(s, k, first, st)
    }

    /// the genuine header with a body it does not commit to; None when the change does not apply
    fn tampered_cb(s: &Sess, t: Tamper, salt: u64) -> Option<packed::CompactBlock> {
        let cb = &s.cb;
        let ext = cb.extension();
        let mut short_ids: Vec<ProposalShortId> = cb.short_ids().into_iter().collect();
        let mut uncles: Vec<packed::Byte32> = cb.uncles().into_iter().collect();
        let mut proposals: Vec<ProposalShortId> = cb.proposals().into_iter().collect();
        let mut new_ext = ext.clone();
        match t {
            Tamper::Proposals => proposals.push(foreign_tx(salt + 7).proposal_short_id()),
            Tamper::Extension => {
                let e = ext.as_ref()?;
                let mut raw = e.raw_data().to_vec();
                if raw.len() >= 96 {
                    return None;
                }
                raw.push(0x01);
                new_ext = Some(Bytes::from(raw).pack());
            }
            Tamper::DropUncle => {
                uncles.pop()?;
            }
            Tamper::SwapShortIds => {
                if short_ids.len() < 2 {
                    return None;
                }
                let l = short_ids.len();
                short_ids.swap(0, l - 1);
            }
            Tamper::ForeignShortId => {
                let l = short_ids.len();
                if l == 0 {
                    return None;
                }
                short_ids[l - 1] = foreign_tx(salt + 8).proposal_short_id();
            }
            Tamper::DropShortId => {
                short_ids.pop()?;
            }
            Tamper::ExtraShortId => short_ids.push(foreign_tx(salt + 9).proposal_short_id()),
        }
        let out = match new_ext {
            Some(e) => packed::CompactBlockV1::new_builder()
                .header(cb.header())
                .short_ids(short_ids)
                .prefilled_transactions(cb.prefilled_transactions())
                .uncles(uncles)
                .proposals(proposals)
                .extension(e)
                .build()
                .as_v0(),
            None => packed::CompactBlock::new_builder()
                .header(cb.header())
                .short_ids(short_ids)
                .prefilled_transactions(cb.prefilled_transactions())
                .uncles(uncles)
                .proposals(proposals)
                .build(),
        };
        Some(out)
    }

    fn announce_tampered(&mut self, s: &mut Sess, k: usize, t: Tamper, st: &mut Stats) -> Verdict {
        if s.peers[k].announced || s.peers[k].banned || self.accepted(&s.block.hash()) {
            return Ok(());
        }
        // development aid: VERIF_C16S_TAMPER=<kind> forces one kind of change
        let t = match std::env::var("VERIF_C16S_TAMPER").ok().as_deref() {
            Some("Proposals") => Tamper::Proposals,
            Some("Extension") => Tamper::Extension,
            Some("DropUncle") => Tamper::DropUncle,
            Some("SwapShortIds") => Tamper::SwapShortIds,
            Some("ForeignShortId") => Tamper::ForeignShortId,
            Some("DropShortId") => Tamper::DropShortId,
            Some("ExtraShortId") => Tamper::ExtraShortId,
            _ => t,
        };
        let Some(cb) = Self::tampered_cb(s, t, s.bi as u64 * 100) else {
            return Ok(());
        };
        s.peers[k].cb = cb;
        s.peers[k].liar = true;
        s.lies += 1;
        if s.tampered.is_none() {
            s.tampered = Some(t);
        }
        st.label(&format!("step:announce-tampered:{t:?}"));
        self.announce(s, k, st)
    }

    fn honest_content(s: &Sess, r: &Req) -> (Vec<TransactionView>, Vec<UncleBlockView>) {
        let txs = s.block.transactions();
        let t = r.tx.iter().filter_map(|i| txs.get(*i as usize).cloned()).collect();
        let u = r.unc.iter().filter_map(|j| s.block.uncles().get(*j as usize)).collect();
        (t, u)
    }

    fn other_uncle(&self, s: &Sess, salt: u64) -> UncleBlockView {
        let own: Vec<H> = s.block.uncle_hashes().into_iter().collect();
        let others: Vec<&SideB> = self.w.sides.iter().filter(|x| !own.contains(&x.hash)).collect();
        if others.is_empty() {
            self.w.tree.get(&self.w.main[1]).block.as_uncle()
        } else {
            self.w.tree.get(&others[salt as usize % others.len()].hash).block.as_uncle()
        }
    }

    fn reply(&mut self, s: &mut Sess, k: usize, lie: Lie, st: &mut Stats) -> Verdict {
        if s.peers[k].banned || !s.peers[k].announced || s.peers[k].reqs.is_empty() {
            st.label("step:reply-skipped(no request / banned)");
            return Ok(());
        }
        let req = s.peers[k].reqs.last().unwrap().clone();
        let (htx, hunc) = Self::honest_content(s, &req);
        let (mut txs, mut uncles) = (htx.clone(), hunc.clone());
        let mut hash = s.block.hash();
        let salt = s.bi as u64 * 1000 + s.requests as u64;
        let mut twin = false;
        match lie {
            Lie::Honest => {}
            Lie::OmitTx(x) if !txs.is_empty() => {
                txs.remove(pick_idx(x as u32, txs.len()));
            }
            Lie::OmitUncle(x) if !uncles.is_empty() => {
                uncles.remove(pick_idx(x as u32, uncles.len()));
            }
            Lie::SwapTx if txs.len() >= 2 => {
                let l = txs.len();
                txs.swap(0, l - 1);
            }
            Lie::SwapUncles if uncles.len() >= 2 => uncles.swap(0, 1),
            Lie::ForeignTx(x) if !txs.is_empty() => {
                let i = pick_idx(x as u32, txs.len());
                txs[i] = foreign_tx(salt);
            }
            Lie::TwinTx(x) if !txs.is_empty() => {
                let i = pick_idx(x as u32, txs.len());
                txs[i] = twin_of(&txs[i]);
                twin = true;
            }
            Lie::DupTx(x) if !txs.is_empty() => {
                let i = pick_idx(x as u32, txs.len());
                txs.push(txs[i].clone());
            }
            Lie::ExtraTx => txs.push(foreign_tx(salt + 1)),
            Lie::ExtraUncle => uncles.push(self.other_uncle(s, salt)),
            Lie::ForeignUncle(x) if !uncles.is_empty() => {
                let i = pick_idx(x as u32, uncles.len());
                uncles[i] = self.other_uncle(s, salt);
            }
            Lie::UncleOtherProposals(x) if !uncles.is_empty() => {
                let i = pick_idx(x as u32, uncles.len());
                // the genuine header with another proposals list: replaced by a foreign id, stripped,
                // one id dropped, one appended, reversed (a form that changes nothing is an honest reply)
                let mut ids: Vec<packed::ProposalShortId> = uncles[i].data().proposals().into_iter().collect();
                match x % 5 {
                    0 => ids = vec![foreign_tx(salt + 2).proposal_short_id()],
                    1 => ids.clear(),
                    2 => {
                        ids.pop();
                    }
                    3 => ids.push(foreign_tx(salt + 2).proposal_short_id()),
                    _ => ids.reverse(),
                }
                let p = packed::UncleBlock::new_builder()
                    .header(uncles[i].data().header())
                    .proposals(ids)
                    .build();
                uncles[i] = p.into_view();
            }
            Lie::WrongHash => hash = s.block.parent_hash(),
            Lie::Empty => {
                txs.clear();
                uncles.clear();
            }
            Lie::Everything => {
                txs = s.block.transactions().into_iter().skip(1).collect();
                uncles = s.block.uncles().into_iter().collect();
            }
            _ => {}
        }
        let honest = hash == s.block.hash()
            && txs.len() == htx.len()
            && txs.iter().zip(&htx).all(|(a, b)| a.data().as_slice() == b.data().as_slice())
            && uncles.len() == hunc.len()
            && uncles.iter().zip(&hunc).all(|(a, b)| a.data().as_slice() == b.data().as_slice());
        if honest {
            st.label("step:reply:honest");
        } else {
            s.peers[k].liar = true;
            s.peers[k].twin_sent |= twin;
            s.lies += 1;
            let name = format!("{lie:?}");
            st.label(&format!("step:reply:lie:{}", name.split('(').next().unwrap_or("")));
        }
        s.peers[k].snap = self.snapshot(s, k)?;
        trace!("reply by {} lie {lie:?} honest={honest} to request {req:?}: {} txs {} uncles; snapshot {:?}", s.peers[k].idx, txs.len(), uncles.len(), s.peers[k].snap);
        let n_before = s.peers[k].reqs.len();
        s.peers[k].answered = n_before;
        let peer = s.peers[k].idx;
        self.deliver(peer, relay_msg_block_txs(&hash, &txs, &uncles))?;
        self.after_message(s, k, false, st)?;
        if honest && !self.accepted(&s.block.hash()) && s.peers[k].reqs.len() == n_before && self.pending_expectation(&s.block.hash(), peer).is_none() {
            vfail!(
                "honest-reply:relay-finished-without-the-committed-block",
                "peer {peer} answered the request ({:?}, {:?}) item by item; the handler dropped its pending entry for the block (it reconstructed a block and handed it on, or gave the relay up) but nothing was handed to the chain service under the committed hash {} (status {:?}, unverified tip {})",
                req.tx,
                req.unc,
                s.block.hash(),
                self.node.status(&s.block.hash()),
                self.node.shared.get_unverified_tip().hash()
            );
        }
        if honest && !self.accepted(&s.block.hash()) && s.peers[k].reqs.len() == n_before {
            vfail!(
                "honest-reply:neither-completed-nor-re-requested",
                "peer {peer} answered the request ({:?}, {:?}) item by item; the block was not handed to the chain service and no new request was sent (status {:?})",
                req.tx,
                req.unc,
                self.node.status(&s.block.hash())
            );
        }
        Ok(())
    }

    fn unsolicited(&mut self, s: &mut Sess, st: &mut Stats) -> Verdict {
        let peer = PeerIndex::new(s.bi * 100 + 50 + s.peers.len());
        self.connect(peer)?;
        s.peers.push(PeerSt { idx: peer, cb: s.cb.clone(), announced: false, liar: true, banned: false, twin_sent: false, reqs: vec![], answered: 0, snap: Avail::default() });
        let txs: Vec<TransactionView> = s.block.transactions().into_iter().skip(1).collect();
        let uncles: Vec<UncleBlockView> = s.block.uncles().into_iter().collect();
        let k = s.peers.len() - 1;
        s.peers[k].snap = self.snapshot(s, k)?;
        self.deliver(peer, relay_msg_block_txs(&s.block.hash(), &txs, &uncles))?;
        st.label("step:unsolicited-block-transactions");
        self.after_message(s, k, false, st)
    }

    fn change(&mut self, s: &mut Sess, c: Change, st: &mut Stats) -> Verdict {
        let ctl = self.node.shared.tx_pool_controller().clone();
        let txs = s.block.transactions();
        trace!("change {c:?}");
        match c {
            Change::RemoveTx(x) => {
                let cands: Vec<&TransactionView> = txs.iter().skip(1).filter(|t| self.pool_set.contains_key(&h32(&t.hash()))).collect();
                if cands.is_empty() {
                    return Ok(());
                }
                let t = cands[pick_idx(x as u32, cands.len())];
                match ctl.remove_local_tx(t.hash()) {
                    Ok(r) => {
                        self.pool_set.remove(&h32(&t.hash()));
                        s.changes += 1;
                        st.label(if r { "change:tx-removed-from-pool" } else { "change:tx-remove-reported-absent" });
                    }
                    Err(e) => return Err(Violation::new("harness:pool-call", e.to_string())),
                }
            }
            Change::SubmitTx(x) => {
                let cands: Vec<&TransactionView> = txs.iter().skip(1).filter(|t| !self.pool_set.contains_key(&h32(&t.hash()))).collect();
                if cands.is_empty() {
                    return Ok(());
                }
                let t = cands[pick_idx(x as u32, cands.len())];
                match ctl.submit_local_tx(t.clone()) {
                    Ok(Ok(())) => {
                        self.pool_set.insert(h32(&t.hash()), false);
                        s.changes += 1;
                        st.label("change:tx-submitted-to-pool");
                    }
                    Ok(Err(_)) => st.label("change:tx-submit-rejected"),
                    Err(e) => return Err(Violation::new("harness:pool-call", e.to_string())),
                }
            }
            Change::Rival => {
                let Some(r) = self.w.rivals.get(&s.bi).cloned() else { return Ok(()) };
                if self.know.contains_key(&r) {
                    return Ok(());
                }
                self.deliver_stored(&r, st)?;
                self.node.wait_pool_synced()?;
                s.changes += 1;
                st.label("change:rival-block-imported");
            }
            Change::DeliverUncle(x) => {
                let cands: Vec<H> = s
                    .block
                    .uncle_hashes()
                    .into_iter()
                    .filter(|u| matches!(self.know.get(u), None | Some(Know::Header)))
                    .collect();
                if cands.is_empty() {
                    return Ok(());
                }
                let u = cands[pick_idx(x as u32, cands.len())].clone();
                self.deliver_stored(&u, st)?;
                s.changes += 1;
                st.label("change:uncle-imported");
            }
            Change::ReleaseOrphan { stalled } => {
                let Some(u) = s.block.uncle_hashes().into_iter().find(|u| self.know.get(u) == Some(&Know::Orphan)) else {
                    return Ok(());
                };
                let parent = self.side(&u).map(|x| x.parent.clone()).ok_or_else(|| Violation::new("harness:not-a-side-block", format!("{u}")))?;
                if stalled {
                    self.ensure_stalled()?;
                    self.accept_async(&parent);
                    self.wait_orphan(&u, false)?;
                    // every orphan waiting for that parent leaves the pool with it
                    let sibs: Vec<H> = self
                        .w
                        .sides
                        .iter()
                        .filter(|x| x.parent == parent && self.know.get(&x.hash) == Some(&Know::Orphan))
                        .map(|x| x.hash.clone())
                        .collect();
                    for x in sibs {
                        self.wait_orphan(&x, false)?;
                        self.know.insert(x, Know::Transit);
                    }
                    self.know.insert(parent, Know::Transit);
                    s.stalled_release = true;
                    st.label("change:orphan-uncle-left-the-pool(verify-thread-busy)");
                } else {
                    self.deliver_stored(&parent, st)?;
                    st.label("change:orphan-uncle-parent-imported");
                }
                s.changes += 1;
            }
            Change::Unstall => {
                if self.stall.is_some() {
                    self.ensure_unstalled()?;
                    st.label("change:verify-thread-caught-up");
                }
            }
        }
        Ok(())
    }
}


impl<'a> Run<'a> {
    fn new_peer(&mut self, s: &mut Sess, idx: usize) -> Result<usize, Violation> {
        let peer = PeerIndex::new(idx);
        self.connect(peer)?;
        s.peers.push(PeerSt { idx: peer, cb: s.cb.clone(), announced: false, liar: false, banned: false, twin_sent: false, reqs: vec![], answered: 0, snap: Avail::default() });
        Ok(s.peers.len() - 1)
    }

    fn session(&mut self, case: &Case, bi: usize, st: &mut Stats) -> Verdict {
        let sp = &case.blocks[bi - 1].session;
        let block = self.w.tree.get(&self.w.main[bi]).block.clone();
        let hash = block.hash();
        let n_tx = block.transactions().len();
        let mut prefilled: BTreeSet<usize> = BTreeSet::new();
        prefilled.insert(0);
        for pos in 1..n_tx {
            if (sp.prefill >> ((pos - 1) % 16)) & 1 == 1 {
                prefilled.insert(pos);
            }
        }
        let set: HashSet<usize> = prefilled.iter().copied().collect();
        let cb = packed::CompactBlock::build_from_block(&block, &set);
        self.ensure_unstalled()?;
        // the node's own knowledge before the relay starts: tx-pool
        let ctl = self.node.shared.tx_pool_controller().clone();
        for (pos, tx) in block.transactions().iter().enumerate().skip(1) {
            let src = if sp.pool.is_empty() { PoolSrc::Absent } else { sp.pool[(pos - 1) % sp.pool.len()] };
            if src == PoolSrc::Absent || self.pool_set.contains_key(&h32(&tx.hash())) {
                continue;
            }
            let t = if src == PoolSrc::Twin { twin_of(tx) } else { tx.clone() };
            match ctl.submit_local_tx(t) {
                Ok(Ok(())) => {
                    self.pool_set.insert(h32(&tx.hash()), src == PoolSrc::Twin);
                    st.label(if src == PoolSrc::Twin { "setup:pool:twin-submitted" } else { "setup:pool:exact-submitted" });
                }
                Ok(Err(_)) => st.label("setup:pool:submit-rejected"),
                Err(e) => return Err(Violation::new("harness:pool-call", e.to_string())),
            }
        }
        // ... and uncles
        for (j, u) in block.uncle_hashes().into_iter().enumerate() {
            let plan = if sp.uncles.is_empty() { UPlan::Unknown } else { sp.uncles[j % sp.uncles.len()] };
            self.setup_uncle(&u, plan, bi - 1, st)?;
            st.label(&format!(
                "setup:uncle:{}",
                match self.know.get(&u) {
                    None => "unknown",
                    Some(Know::Header) => "header-only",
                    Some(Know::Orphan) => "orphan-pool",
                    Some(Know::Transit) => "in-transit",
                    Some(Know::Stored) => "stored",
                }
            ));
        }
        self.node.barrier(&self.anchor)?;
        self.node.wait_pool_synced()?;
        trace!(
            "=== relay of #{} {hash}: {} txs, prefilled {prefilled:?}, uncles {:?}",
            block.number(),
            n_tx - 1,
            block.uncle_hashes().into_iter().map(|u| format!("{u:#}: level {:?} know {:?} status {:?}", self.side(&u).map(|x| x.level), self.know.get(&u), self.node.status(&u))).collect::<Vec<_>>()
        );
        let tip = self.node.tip();
        if tip != self.tip_model {
            vfail!("session:tip-before-relay-unexpected", "before relaying #{}: tip {tip}, the first-seen heaviest block is {}", block.number(), self.tip_model);
        }
        let mut s = Sess {
            bi,
            block,
            cb,
            prefilled,
            peers: vec![],
            requests: 0,
            changes: 0,
            lies: 0,
            stalled_release: false,
            tampered: None,
            old_tip: self.tip_model.clone(),
            accepted_seen: false,
        };
        let n_peers = sp.peers.clamp(1, 3) as usize;
        for k in 0..n_peers {
            self.new_peer(&mut s, bi * 100 + k + 1)?;
        }
        let r = (|| -> Verdict {
            self.drain(&mut s, st)?;
            // peer 0 announces first, unless the script opens with a liar's announcement
            if !matches!(sp.steps.first(), Some(Step::AnnounceTampered(..))) {
                self.announce(&mut s, 0, st)?;
            }
            for step in &sp.steps {
                match *step {
                    Step::Announce(k) => self.announce(&mut s, k as usize % n_peers, st)?,
                    Step::AnnounceTampered(k, t) => self.announce_tampered(&mut s, k as usize % n_peers, t, st)?,
                    Step::Reply(k, l) => self.reply(&mut s, k as usize % n_peers, l, st)?,
                    Step::Unsolicited => self.unsolicited(&mut s, st)?,
                    Step::Change(c) => {
                        if !self.accepted(&hash) {
                            self.change(&mut s, c, st)?
                        }
                    }
                }
            }
            self.finale(&mut s, st)
        })();
        if let Err(mut v) = r {
            // In a session in which a liar announced the genuine header with another body, the
            // outcome is attributed to that announcement (one signature per kind of change).
            // (a panic is never attributed away: it keeps its own signature)
            let is_panic = v.signature.starts_with("panic:") || v.signature.starts_with("node:thread-panicked");
            if let (Some(t), false) = (s.tampered, v.signature.starts_with("harness:") || is_panic) {
                // two different outcomes: a block other than the committed one is handed on (stored,
                // tip, broadcast), or the relay of the committed block by honest peers is obstructed
                let another_block = [
                    "broadcast:compact-block-of-unknown-block",
                    "broadcast:compact-block-differs",
                    "session:tip-moved-to-a-block-the-model-never-built",
                    "session:tip-moved-to-unexpected-block",
                ]
                .iter()
                .any(|p| v.signature.starts_with(p));
                v.detail = format!("[{}] {}", v.signature, v.detail);
                v.signature = format!(
                    "relay:after-compact-block-with-genuine-header-and-tampered-body:{t:?}:{}",
                    if another_block { "another-block-handed-on" } else { "honest-relay-obstructed" }
                );
            }
            return Err(v);
        }
        // accounting
        st.label(&format!("session:requests:{}", s.requests.min(6)));
        st.label(&format!("session:uncles:{}", s.block.uncle_hashes().len()));
        st.label(&format!("session:committed-txs:{}", (n_tx - 1).min(6)));
        st.label(&format!("session:peers:{n_peers}"));
        st.label(&format!("session:availability-changes:{}", s.changes.min(4)));
        st.label(if s.lies > 0 { "session:with-dishonest-replies" } else { "session:all-honest" });
        if s.stalled_release {
            st.label("session:orphan-uncle-left-pool-between-rounds");
        }
        if s.requests >= 1 {
            st.label("session:nontrivial(>=1 round trip)");
            st.nontrivial(&(serde_json::to_string(case).unwrap_or_default(), bi));
            if st.want_sample() && (s.requests >= 2 || s.changes >= 1) {
                st.sample(|| {
                    json!({
                        "block": s.block.number(),
                        "txs": n_tx - 1,
                        "uncles": s.block.uncle_hashes().len(),
                        "prefilled": s.prefilled,
                        "requests": s.peers.iter().map(|p| json!({"peer": p.idx.value(), "liar": p.liar, "banned": p.banned, "requests": p.reqs.iter().map(|r| json!([r.tx, r.unc])).collect::<Vec<_>>()})).collect::<Vec<_>>(),
                        "session": sp,
                    })
                });
            }
        }
        for tx in s.block.transactions().iter().skip(1) {
            self.pool_set.remove(&h32(&tx.hash()));
        }
        Ok(())
    }

    fn finale(&mut self, s: &mut Sess, st: &mut Stats) -> Verdict {
        let h = s.block.hash();
        self.ensure_unstalled()?;
        self.node.barrier(&self.anchor)?;
        self.drain(s, st)?;
        self.invariants(s, st)?;
        let mut via = if self.accepted(&h) { "script" } else { "" };
        // requests to peers that never lied are answered
        for _ in 0..8 {
            if self.accepted(&h) {
                break;
            }
            let k = s.peers.iter().position(|p| p.announced && !p.liar && !p.banned && p.reqs.len() > p.answered);
            match k {
                Some(k) => self.reply(s, k, Lie::Honest, st)?,
                None => break,
            }
            if self.accepted(&h) {
                via = "finale-earlier-honest-peer";
            }
        }
        if !self.accepted(&h) {
            // nothing changes any more: a fresh honest peer must get the block through
            let k = self.new_peer(s, s.bi * 100 + 90)?;
            self.announce(s, k, st)?;
            for _ in 0..5 {
                if self.accepted(&h) || s.peers[k].reqs.len() == s.peers[k].answered {
                    break;
                }
                self.reply(s, k, Lie::Honest, st)?;
            }
            if !self.accepted(&h) {
                vfail!(
                    "session:honest-relay-did-not-complete",
                    "after the scripted rounds a fresh honest peer announced #{} and answered {} requests {:?} item by item; the block is still not handed to the chain service (status {:?})",
                    s.block.number(),
                    s.peers[k].answered,
                    s.peers[k].reqs,
                    self.node.status(&h)
                );
            }
            via = "finale-fresh-peer";
        }
        st.label(&format!("session:accepted-via:{via}"));
        // let the chain service finish with it
        self.node.barrier(&self.anchor)?;
        let t0 = Instant::now();
        loop {
            let stt = self.node.status(&h);
            if stt.contains(BlockStatus::BLOCK_STORED) || stt == BlockStatus::BLOCK_INVALID {
                break;
            }
            if t0.elapsed() > Duration::from_secs(30) {
                node_panic_violation()?;
                let ext = self.node.shared.store().get_block_ext(&h).map(|e| e.verified);
                let in_header_map = self.node.shared.header_map().contains_key(&h);
                let in_status_map = self.node.shared.block_status_map().get(&h).map(|s| *s.value());
                return Err(Violation::new(
                    "harness:accepted-block-not-processed",
                    format!("{h} status {stt:?} after 30 s; store block_ext.verified {ext:?}, header_map contains it: {in_header_map}, block_status_map entry {in_status_map:?}, tip {}", self.node.tip()),
                ));
            }
            std::thread::sleep(Duration::from_micros(300));
        }
        self.node.barrier(&self.anchor)?;
        self.drain(s, st)?;
        self.invariants(s, st)?;
        if self.node.shared.store().get_block(&h).is_none() {
            vfail!("session:accepted-block-not-stored", "#{} {h} was handed to the chain service, its status is {:?}, store.get_block finds nothing", s.block.number(), self.node.status(&h));
        }
        let tip = self.node.tip();
        if tip != self.tip_model {
            if self.tip_model == h {
                vfail!("session:relayed-block-not-tip", "#{} {h} is valid and the heaviest first-seen block, the tip is {tip}", s.block.number());
            }
            vfail!("session:tip-moved-to-unexpected-block", "tip {tip}, expected {}", self.tip_model);
        }
        self.node.wait_pool_synced()?;
        if self.pending_expectation(&h, s.peers[0].idx).is_some() {
            st.label("session:pending-entry-survives-acceptance");
        }
        Ok(())
    }

    fn execute(&mut self, case: &Case, fin: &BlockView, st: &mut Stats) -> Verdict {
        for i in 1..=2usize {
            let b = self.w.tree.get(&self.w.main[i]).block.clone();
            if let Err(e) = self.node.process(&b) {
                vfail!("import:model-block-refused", "main block #{} refused: {e}", b.number());
            }
            self.tip_model = self.w.main[i].clone();
        }
        for bi in 3..self.w.main.len() {
            self.session(case, bi, st).map_err(|mut v| {
                v.detail = format!("[relay of main block #{bi}] {}", v.detail);
                v
            })?;
        }
        // a plain child of the last relayed block: the whole main chain gets fully verified
        self.ensure_unstalled()?;
        match self.node.process(fin) {
            Ok(_) => {}
            Err(e) => vfail!("final:child-of-relayed-chain-refused", "a valid child #{} of the relayed chain was refused: {e}", fin.number()),
        }
        self.node.barrier(&self.anchor)?;
        node_panic_violation()?;
        if self.node.tip() != fin.hash() {
            vfail!("final:relayed-chain-not-main-chain", "after a child of the last relayed block the tip is {} instead of {}", self.node.tip(), fin.hash());
        }
        for bi in 3..self.w.main.len() {
            let h = &self.w.main[bi];
            if self.node.status(h) != BlockStatus::BLOCK_VALID {
                vfail!("final:relayed-block-not-valid", "relayed main block #{bi} {h} has status {:?} after its descendants became the main chain", self.node.status(h));
            }
        }
        Ok(())
    }
}

fn env() -> &'static Env {
    static E: std::sync::OnceLock<Env> = std::sync::OnceLock::new();
    E.get_or_init(|| {
        build_env(&SpecCfg {
            genesis_epoch_length: 200,
            faucet_cells: 40,
            ..Default::default()
        })
    })
}

pub fn prop(case: &Case, st: &mut Stats) -> Verdict {
    let env = env();
    let mut w = World::new(env, case.salt);
    for p in &case.blocks {
        if w.build_main(p).is_err() {
            st.label("case:unbuildable-block");
            break;
        }
    }
    if w.main.len() < 4 {
        st.label("case:too-short");
        return Ok(());
    }
    let last = w.main.last().unwrap().clone();
    let fs = w.spec(&last, 1, 0, 0);
    let fin = match w.tree.build(&last, &fs, &World::opts()) {
        Ok(b) => b.block,
        Err(_) => {
            st.label("case:unbuildable-final-block");
            return Ok(());
        }
    };
    install_panic_recorder();
    clear_panics();
    let max_ts = w.tree.order.iter().map(|h| w.tree.get(h).block.timestamp()).max().unwrap_or(0).max(fin.timestamp());
    let clock = ckb_systemtime::faketime();
    clock.set_faketime(max_ts + 10_000);
    let node = SNode::start(env).map_err(|e| Violation::new("harness:node-start", e))?;
    if node.shared.is_initial_block_download() {
        node.stop();
        return Err(Violation::new("harness:ibd-not-finished", "clock setting left the node in IBD"));
    }
    let anchor = w.tree.get(&w.main[1]).block.clone();
    let mut run = Run {
        w: &w,
        node,
        know: HashMap::new(),
        pool_set: BTreeMap::new(),
        tip_model: w.tree.genesis.clone(),
        log_pos: 0,
        stall: None,
        anchor,
        side_peer: PeerIndex::new(9),
        fin_hash: fin.hash(),
    };
    let r = run.connect(PeerIndex::new(9)).and_then(|_| run.execute(case, &fin, st));
    if let Some(tx) = run.stall.take() {
        let _ = tx.send(());
    }
    let r = r.and_then(|_| node_panic_violation());
    run.node.stop();
    r
}

pub fn run(ctx: &Ctx, cases: u32) {
    if cases == 0 {
        return;
    }
    let prev = ctx.shrink_iters.get();
    ctx.shrink_iters.set(100);
    ctx.run_prop("relay-session", cases, case_strategy(), prop);
    ctx.shrink_iters.set(prev);
}

pub fn replay(v: &Value, st: &mut Stats) -> Verdict {
    let c: Case = from_case(v)?;
    prop(&c, st)
}

// ------------------------------------------------------------------------------------------------
// the recording protocol context, for other checks that drive a protocol handler (C17 `fetch`)

impl Net {
    pub fn recording(handle: Handle) -> Arc<Net> {
        Arc::new(Net { handle, log: Mutex::new(vec![]), connected: Mutex::new(vec![]) })
    }

    /// reasons of every ban requested so far
    pub fn ban_reasons(&self) -> Vec<String> {
        self.log
            .lock()
            .unwrap()
            .iter()
            .filter_map(|o| match o {
                Out::Ban { peer, reason } => Some(format!("peer {peer}: {reason}")),
                _ => None,
            })
            .collect()
    }
}
