//! Dispatch from molecule schema type names to the generated Rust types (all of
//! `ckb_types::packed`), as plain function pointers.
use ckb_types::packed;
use ckb_types::prelude::*;

pub struct TypeOps {
    pub name: &'static str,
    /// strict decode; Ok(as_slice()) of the decoded entity
    pub from_slice: fn(&[u8]) -> Result<Vec<u8>, String>,
    /// compatible decode; Ok(as_slice())
    pub from_compatible_slice: fn(&[u8]) -> Result<Vec<u8>, String>,
    /// Reader::verify(slice, compatible)
    pub reader_verify: fn(&[u8], bool) -> Result<(), String>,
    /// from_slice -> as_builder() (takes the value apart field by field) -> build() -> as_slice()
    pub rebuild: fn(&[u8]) -> Result<Vec<u8>, String>,
    /// Default::default().as_slice()
    pub default_bytes: fn() -> Vec<u8>,
    /// Display of the strictly decoded entity (walks every accessor)
    pub display: fn(&[u8]) -> Result<String, String>,
}

fn from_slice<T: Entity>(b: &[u8]) -> Result<Vec<u8>, String> {
    T::from_slice(b).map(|e| e.as_slice().to_vec()).map_err(|e| e.to_string())
}

fn from_compatible_slice<T: Entity>(b: &[u8]) -> Result<Vec<u8>, String> {
    T::from_compatible_slice(b).map(|e| e.as_slice().to_vec()).map_err(|e| e.to_string())
}

fn rebuild<T: Entity>(b: &[u8]) -> Result<Vec<u8>, String> {
    let e = T::from_slice(b).map_err(|e| e.to_string())?;
    let built = e.as_builder().build();
    Ok(built.as_slice().to_vec())
}

fn default_bytes<T: Entity>() -> Vec<u8> {
    T::default().as_slice().to_vec()
}

fn display<T: Entity + std::fmt::Display>(b: &[u8]) -> Result<String, String> {
    let e = T::from_slice(b).map_err(|e| e.to_string())?;
    Ok(format!("{e}"))
}

macro_rules! packed_types {
    ($(($name:ident, $reader:ident)),* $(,)?) => {
        pub static ALL: &[TypeOps] = &[
            $(TypeOps {
                name: stringify!($name),
                from_slice: from_slice::<packed::$name>,
                from_compatible_slice: from_compatible_slice::<packed::$name>,
                reader_verify: |b, c| <packed::$reader<'_> as Reader<'_>>::verify(b, c).map_err(|e| e.to_string()),
                rebuild: rebuild::<packed::$name>,
                default_bytes: default_bytes::<packed::$name>,
                display: display::<packed::$name>,
            },)*
        ];
    };
}

packed_types! {
    (Uint32, Uint32Reader),
    (Uint64, Uint64Reader),
    (Uint128, Uint128Reader),
    (Byte32, Byte32Reader),
    (Uint256, Uint256Reader),
    (Bytes, BytesReader),
    (BytesOpt, BytesOptReader),
    (BytesOptVec, BytesOptVecReader),
    (BytesVec, BytesVecReader),
    (Byte32Vec, Byte32VecReader),
    (ScriptOpt, ScriptOptReader),
    (ProposalShortId, ProposalShortIdReader),
    (UncleBlockVec, UncleBlockVecReader),
    (TransactionVec, TransactionVecReader),
    (ProposalShortIdVec, ProposalShortIdVecReader),
    (CellDepVec, CellDepVecReader),
    (CellInputVec, CellInputVecReader),
    (CellOutputVec, CellOutputVecReader),
    (Script, ScriptReader),
    (OutPoint, OutPointReader),
    (CellInput, CellInputReader),
    (CellOutput, CellOutputReader),
    (CellDep, CellDepReader),
    (RawTransaction, RawTransactionReader),
    (Transaction, TransactionReader),
    (RawHeader, RawHeaderReader),
    (Header, HeaderReader),
    (UncleBlock, UncleBlockReader),
    (Block, BlockReader),
    (BlockV1, BlockV1Reader),
    (CellbaseWitness, CellbaseWitnessReader),
    (WitnessArgs, WitnessArgsReader),
    (BoolOpt, BoolOptReader),
    (Byte32Opt, Byte32OptReader),
    (Bool, BoolReader),
    (BeUint32, BeUint32Reader),
    (BeUint64, BeUint64Reader),
    (Uint32Vec, Uint32VecReader),
    (Uint64Vec, Uint64VecReader),
    (Uint256Vec, Uint256VecReader),
    (CellOutputOpt, CellOutputOptReader),
    (HeaderVec, HeaderVecReader),
    (OutPointVec, OutPointVecReader),
    (Uint64VecOpt, Uint64VecOptReader),
    (HeaderDigest, HeaderDigestReader),
    (HeaderView, HeaderViewReader),
    (UncleBlockVecView, UncleBlockVecViewReader),
    (TransactionView, TransactionViewReader),
    (BlockExt, BlockExtReader),
    (BlockExtV1, BlockExtV1Reader),
    (EpochExt, EpochExtReader),
    (TransactionKey, TransactionKeyReader),
    (NumberHash, NumberHashReader),
    (TransactionInfo, TransactionInfoReader),
    (CellEntry, CellEntryReader),
    (CellDataEntry, CellDataEntryReader),
    (RelayMessage, RelayMessageReader),
    (CompactBlock, CompactBlockReader),
    (CompactBlockV1, CompactBlockV1Reader),
    (RelayTransaction, RelayTransactionReader),
    (RelayTransactionVec, RelayTransactionVecReader),
    (RelayTransactions, RelayTransactionsReader),
    (RelayTransactionHashes, RelayTransactionHashesReader),
    (GetRelayTransactions, GetRelayTransactionsReader),
    (GetBlockTransactions, GetBlockTransactionsReader),
    (BlockTransactions, BlockTransactionsReader),
    (GetBlockProposal, GetBlockProposalReader),
    (BlockProposal, BlockProposalReader),
    (IndexTransaction, IndexTransactionReader),
    (IndexTransactionVec, IndexTransactionVecReader),
    (BlockFilterMessage, BlockFilterMessageReader),
    (GetBlockFilters, GetBlockFiltersReader),
    (BlockFilters, BlockFiltersReader),
    (GetBlockFilterHashes, GetBlockFilterHashesReader),
    (BlockFilterHashes, BlockFilterHashesReader),
    (GetBlockFilterCheckPoints, GetBlockFilterCheckPointsReader),
    (BlockFilterCheckPoints, BlockFilterCheckPointsReader),
    (SyncMessage, SyncMessageReader),
    (GetHeaders, GetHeadersReader),
    (GetBlocks, GetBlocksReader),
    (SendHeaders, SendHeadersReader),
    (SendBlock, SendBlockReader),
    (FilteredBlock, FilteredBlockReader),
    (MerkleProof, MerkleProofReader),
    (InIBD, InIBDReader),
    (HeaderDigestVec, HeaderDigestVecReader),
    (VerifiableHeader, VerifiableHeaderReader),
    (VerifiableHeaderVec, VerifiableHeaderVecReader),
    (FilteredBlockVec, FilteredBlockVecReader),
    (LightClientMessage, LightClientMessageReader),
    (GetLastState, GetLastStateReader),
    (SendLastState, SendLastStateReader),
    (GetLastStateProof, GetLastStateProofReader),
    (SendLastStateProof, SendLastStateProofReader),
    (GetBlocksProof, GetBlocksProofReader),
    (SendBlocksProof, SendBlocksProofReader),
    (SendBlocksProofV1, SendBlocksProofV1Reader),
    (GetTransactionsProof, GetTransactionsProofReader),
    (SendTransactionsProof, SendTransactionsProofReader),
    (SendTransactionsProofV1, SendTransactionsProofV1Reader),
    (Time, TimeReader),
    (RawAlert, RawAlertReader),
    (Alert, AlertReader),
    (Identify, IdentifyReader),
    (PingPayload, PingPayloadReader),
    (PingMessage, PingMessageReader),
    (Ping, PingReader),
    (Pong, PongReader),
    (NodeVec, NodeVecReader),
    (Node2Vec, Node2VecReader),
    (Uint16, Uint16Reader),
    (PortOpt, PortOptReader),
    (DiscoveryPayload, DiscoveryPayloadReader),
    (DiscoveryMessage, DiscoveryMessageReader),
    (GetNodes, GetNodesReader),
    (GetNodes2, GetNodes2Reader),
    (Nodes, NodesReader),
    (Nodes2, Nodes2Reader),
    (Node, NodeReader),
    (Node2, Node2Reader),
    (AddressVec, AddressVecReader),
    (Address, AddressReader),
    (IdentifyMessage, IdentifyMessageReader),
    (HolePunchingMessage, HolePunchingMessageReader),
    (ConnectionRequest, ConnectionRequestReader),
    (ConnectionRequestDelivered, ConnectionRequestDeliveredReader),
    (ConnectionSync, ConnectionSyncReader),
}

pub fn find(name: &str) -> Option<&'static TypeOps> {
    ALL.iter().find(|t| t.name == name)
}
