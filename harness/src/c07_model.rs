//! Exact-arithmetic reference model for C07 (RFC 0020 dynamic difficulty adjustment, compact
//! target format, issuance schedule).  Depends on nothing from the repository.
use crate::bignat::BigNat;

pub const TAU: u64 = 2;
pub const MIN_EPOCH_LENGTH: u64 = 300;
pub const MAX_EPOCH_LENGTH: u64 = 1800;

fn n(x: u64) -> BigNat {
    BigNat::from_u64(x)
}

pub fn two256() -> BigNat {
    BigNat::pow2(256)
}

pub fn max256() -> BigNat {
    BigNat::pow2(256).sub(&BigNat::one())
}

// ---------------------------------------------------------------------------------------------
// compact format: N = mantissa * 256^(exponent-3); exponent = most significant 8 bits ("number of
// bytes of N"), mantissa = lower 24 bits.
// ---------------------------------------------------------------------------------------------

/// exact value (floored for exponent < 3) of a compact encoding
pub fn compact_value(c: u32) -> BigNat {
    let e = (c >> 24) as usize;
    let m = n((c & 0x00ff_ffff) as u64);
    if e <= 3 { m.shr(8 * (3 - e)) } else { m.shl(8 * (e - 3)) }
}

/// canonical compact encoding of a 256-bit target
pub fn target_to_compact(t: &BigNat) -> u32 {
    let nbytes = t.bits().div_ceil(8);
    let mant = if nbytes <= 3 {
        t.shl(8 * (3 - nbytes))
    } else {
        t.shr(8 * (nbytes - 3))
    };
    let mant = mant.to_u64().expect("3 bytes") as u32;
    assert!(mant <= 0x00ff_ffff);
    ((nbytes as u32) << 24) | mant
}

/// floor(2^256 / x) saturated to 2^256-1 (x != 0): target <-> difficulty
pub fn hspace_div(x: &BigNat) -> BigNat {
    two256().div(x).min(max256())
}

/// difficulty of a compact encoding: 0 when the target is zero or does not fit 256 bits
pub fn compact_to_difficulty(c: u32) -> BigNat {
    let v = compact_value(c);
    if v.is_zero() || v.bits() > 256 {
        return BigNat::zero();
    }
    hspace_div(&v)
}

pub fn difficulty_to_compact(d: &BigNat) -> u32 {
    assert!(!d.is_zero());
    target_to_compact(&hspace_div(d))
}

// ---------------------------------------------------------------------------------------------
// issuance schedule
// ---------------------------------------------------------------------------------------------

/// primary epoch reward of epoch `number`: cut in half every `interval` epochs
pub fn scheduled_primary(initial: u64, interval: u64, number: u64) -> u64 {
    let halvings = number / interval;
    if halvings >= 64 { 0 } else { initial >> halvings }
}

// ---------------------------------------------------------------------------------------------
// next epoch
// ---------------------------------------------------------------------------------------------

#[derive(Clone, Debug)]
pub struct EpochInput {
    pub difficulty: BigNat,
    pub length: u64,
    pub uncles: u64,
    pub duration_ms: u64,
    pub prev_hash_rate: BigNat,
    pub duration_target: u64,
    pub orphan_target: (u32, u32),
}

#[derive(Clone, Debug)]
pub struct EpochModel {
    pub raw_hash_rate: BigNat,
    pub hash_rate: BigNat,
    /// "prev-zero" | "none" | "lower" | "upper", plus floor_one
    pub hr_clamp: &'static str,
    pub hr_floor_one: bool,
    pub raw_length: Option<BigNat>,
    pub length: u64,
    /// "no-uncles" | "none" | "upper" | "lower"
    pub len_clamp: &'static str,
    pub orphan_recip_nonpositive: bool,
    pub diff_below_one: bool,
    pub difficulty: BigNat,
    pub compact: u32,
    /// [max(MIN, len/2), min(MAX, 2 len)] is non-empty
    pub bounds_satisfiable: bool,
    /// every intermediate product of any evaluation order fits 256 bits (conservative bit count)
    pub fits: bool,
    pub duration_s: u64,
}

pub fn raw_hash_rate(inp: &EpochInput) -> (BigNat, u64) {
    let s = (inp.duration_ms / 1000).max(1);
    (
        inp.difficulty.mul(&n(inp.length + inp.uncles)).div(&n(s)),
        s,
    )
}

pub fn next_epoch(inp: &EpochInput) -> EpochModel {
    let c = inp.length;
    let u = inp.uncles;
    let t = inp.duration_target;
    let (on, od) = (inp.orphan_target.0 as u64, inp.orphan_target.1 as u64);
    // (1) adjusted hash rate estimation
    let (raw_hr, s) = raw_hash_rate(inp);
    let mut hr = raw_hr.clone();
    let mut hr_clamp = "none";
    if inp.prev_hash_rate.is_zero() {
        hr_clamp = "prev-zero";
    } else {
        let lower = inp.prev_hash_rate.div(&n(TAU));
        let upper = inp.prev_hash_rate.mul(&n(TAU));
        if hr < lower {
            hr = lower;
            hr_clamp = "lower";
        } else if hr > upper {
            hr = upper;
            hr_clamp = "upper";
        }
    }
    let hr_floor_one = hr.is_zero();
    if hr_floor_one {
        hr = BigNat::one();
    }
    // (2) next epoch length
    let max_len = MAX_EPOCH_LENGTH.min(c * TAU);
    let min_len = MIN_EPOCH_LENGTH.max(c / TAU);
    let bounds_satisfiable = min_len <= max_len;
    let (length, len_clamp, raw_length) = if u == 0 {
        (max_len, "no-uncles", None)
    } else {
        // o_ideal (1+o_i) L_ideal C / (o_i (1+o_ideal) L_i), o_i = u/c, o_ideal = on/od
        let num = n(on).mul(&n(c + u)).mul(&n(t)).mul(&n(c));
        let den = n(u).mul(&n(on + od)).mul(&n(s));
        let raw = num.div(&den);
        let (l, k) = if raw > n(max_len) {
            (max_len, "upper")
        } else if raw < n(min_len) {
            (min_len, "lower")
        } else {
            (raw.to_u64().unwrap(), "none")
        };
        (l, k, Some(raw))
    };
    // (3) next difficulty = HPS * L_ideal / ((1 + o_{i+1}) * C_{i+1})
    let ht = hr.mul(&n(t));
    let mut orphan_recip_nonpositive = false;
    let (dn, dd) = if u == 0 {
        (ht.clone(), n(length))
    } else if len_clamp == "none" {
        // o_{i+1} = o_ideal
        (ht.mul(&n(od)), n(on + od).mul(&n(length)))
    } else {
        // 1/o_{i+1} = R - 1, R = (1+o_i) L_ideal C / (o_i L_i C_{i+1}) = P/Q
        let p = n(c + u).mul(&n(t)).mul(&n(c));
        let q = n(u).mul(&n(s)).mul(&n(length));
        if p <= q {
            orphan_recip_nonpositive = true;
            (ht.mul(&n(od)), n(on + od).mul(&n(length)))
        } else {
            // 1 + o = R/(R-1) = P/(P-Q)
            (ht.mul(&p.sub(&q)), p.mul(&n(length)))
        }
    };
    let mut difficulty = dn.div(&dd);
    let diff_below_one = difficulty.is_zero();
    if diff_below_one {
        difficulty = BigNat::one();
    }
    // conservative fit predicate: sums of bit lengths of every factor that can meet in a product
    let b = |x: u64| n(x).bits();
    let a_bits = (b(u + c) + b(t) + 2 * b(c)).max(b(od).max(b(on + od)) + b(c));
    let fits = inp.difficulty.bits() + b(c + u) <= 256
        && inp.prev_hash_rate.bits() + 2 <= 256
        && hr.bits() + b(t) + a_bits + 2 <= 256
        && raw_length.as_ref().map(|r| r.bits() <= 64).unwrap_or(true)
        && difficulty.bits() <= 256;
    let compact = if difficulty.bits() <= 256 {
        difficulty_to_compact(&difficulty)
    } else {
        0
    };
    EpochModel {
        raw_hash_rate: raw_hr,
        hash_rate: hr,
        hr_clamp,
        hr_floor_one,
        raw_length,
        length,
        len_clamp,
        orphan_recip_nonpositive,
        diff_below_one,
        difficulty,
        compact,
        bounds_satisfiable,
        fits,
        duration_s: s,
    }
}
