//! C16 part B — `Relayer::reconstruct_block` on a real node, driven through the pre-checks of
//! `CompactBlockProcess` (CompactBlockVerifier, then reconstruction with nothing received) and
//! `BlockTransactionsProcess` (BlockTransactionsVerifier, BlockUnclesVerifier, then
//! reconstruction with the peer's reply), for up to three rounds.
//!
//! Oracle (independent model, no call into the relayer):
//!   * result `Block(b)`  => `b.hash()` is the compact header's hash and the recomputed
//!     transactions root / proposals hash / extra hash of `b` equal the header's, and `b` is
//!     byte-for-byte the block the compact block was built from;
//!   * result `Missing(txs, uncles)` => exactly the positions for which neither the reply nor the
//!     pool / the store has a candidate (model over short ids and uncle states);
//!   * `Missing` iff something is unavailable; `Error(invalid uncle)` iff a non-requested uncle is
//!     marked invalid; `Collided` / `Error(unmatched root)` only when some candidate is a
//!     same-hash-different-witness twin; when every candidate is the exact transaction the result
//!     must be `Block`;
//!   * never a panic (caught, reported with the panic location).
use crate::c16_bytes::guard;
use crate::common::*;
use crate::vfail;
use ckb_app_config::NetworkConfig;
use ckb_chain::{ChainServiceScope, LonelyBlock};
use ckb_network::{Flags, NetworkController, NetworkService, NetworkState, network::TransportType};
use ckb_shared::block_status::BlockStatus;
use ckb_shared::{Shared, SharedBuilder};
use ckb_sync::verif::{
    ReconstructionResult, block_transactions_verify, block_uncles_verify, compact_block_verify,
};
use ckb_sync::{Relayer, SyncShared};
use ckb_tx_pool::{PlugTarget, TxEntry};
use ckb_types::{
    bytes::Bytes,
    core::{self, BlockBuilder, BlockView, Capacity, HeaderBuilder, TransactionBuilder, TransactionView},
    packed::{self, CellInput, CellOutputBuilder, OutPoint},
    prelude::*,
};
use ckb_verification_traits::Switch;
use proptest::prelude::*;
use serde::{Deserialize, Serialize};
use serde_json::{Value, json};
use std::collections::{BTreeSet, HashMap, HashSet};
use std::sync::Arc;

// ------------------------------------------------------------------------------------------------
// scenario

#[derive(Clone, Copy, Debug, PartialEq, Eq, Serialize, Deserialize)]
pub enum Src {
    None,
    Exact,
    /// same raw transaction (same hash, same short id), different witnesses
    Twin,
}

#[derive(Clone, Copy, Debug, PartialEq, Eq, Serialize, Deserialize)]
pub enum Tamper {
    None,
    DupShortId,
    SwapPrefilled,
    IndexOutOfRange,
    NoCellbase,
    PrefilledAlsoShortId,
    /// the last prefilled entry appears twice (same index)
    RepeatPrefilled,
}

#[derive(Clone, Copy, Debug, PartialEq, Eq, Serialize, Deserialize)]
pub enum UState {
    Unknown,
    HeaderValid,
    /// status BLOCK_STORED, block in the store
    Stored,
    /// status BLOCK_VALID, block in the store
    Valid,
    /// status BLOCK_STORED but the block is not in the store
    StoredButAbsent,
    /// really in the orphan pool (status BLOCK_RECEIVED)
    Orphan,
    /// status BLOCK_RECEIVED but not in the orphan pool
    ReceivedButAbsent,
    Invalid,
}

#[derive(Clone, Debug, Serialize, Deserialize)]
pub struct UncleSpec {
    pub state: UState,
    pub proposals: u8,
}

#[derive(Clone, Copy, Debug, PartialEq, Eq, Serialize, Deserialize)]
pub enum RTx {
    Exact,
    Twin,
    Omit,
    Foreign,
    /// another transaction of the same block
    Other(u16),
}

#[derive(Clone, Copy, Debug, PartialEq, Eq, Serialize, Deserialize)]
pub enum RUncle {
    Exact,
    Omit,
    /// another uncle of the same block
    Other(u16),
    Foreign,
    /// same header (same hash), different proposals
    SameHeaderOtherProposals,
    /// same header, proposals stripped (1), last id dropped (2), a foreign id appended (3), reversed (4)
    SameHeaderProposalsForm(u8),
}

#[derive(Clone, Debug, Default, Serialize, Deserialize)]
pub struct Reply {
    /// action for the k-th requested transaction index (beyond the list: Exact)
    pub txs: Vec<RTx>,
    /// action for the k-th requested uncle index (beyond the list: Exact)
    pub uncles: Vec<RUncle>,
    pub extra_txs: u8,
    pub extra_uncles: u8,
}

#[derive(Clone, Debug, Serialize, Deserialize)]
pub struct Scenario {
    pub salt: u64,
    /// witnesses count of each non-cellbase transaction of the block
    pub txs: Vec<u8>,
    pub prefill: Vec<bool>,
    pub tamper: Tamper,
    pub pool: Vec<Src>,
    pub pool_foreign: u8,
    pub pool_proposed: bool,
    pub uncles: Vec<UncleSpec>,
    pub proposals: u8,
    pub extension: Option<Vec<u8>>,
    pub replies: Vec<Reply>,
}

fn rtx() -> impl Strategy<Value = RTx> {
    prop_oneof![
        8 => Just(RTx::Exact),
        3 => Just(RTx::Twin),
        2 => Just(RTx::Omit),
        1 => Just(RTx::Foreign),
        1 => any::<u16>().prop_map(RTx::Other),
    ]
}

fn runcle() -> impl Strategy<Value = RUncle> {
    prop_oneof![
        8 => Just(RUncle::Exact),
        3 => Just(RUncle::Omit),
        1 => any::<u16>().prop_map(RUncle::Other),
        1 => Just(RUncle::Foreign),
        2 => Just(RUncle::SameHeaderOtherProposals),
        3 => (1u8..5).prop_map(RUncle::SameHeaderProposalsForm),
    ]
}

fn reply() -> impl Strategy<Value = Reply> {
    (
        prop_oneof![2 => Just(vec![]), 3 => proptest::collection::vec(rtx(), 0..6)],
        prop_oneof![2 => Just(vec![]), 3 => proptest::collection::vec(runcle(), 0..3)],
        prop_oneof![8 => Just(0u8), 1 => 1u8..3],
        prop_oneof![8 => Just(0u8), 1 => 1u8..3],
    )
        .prop_map(|(txs, uncles, extra_txs, extra_uncles)| Reply { txs, uncles, extra_txs, extra_uncles })
}

fn ustate() -> impl Strategy<Value = UState> {
    prop_oneof![
        4 => Just(UState::Unknown),
        1 => Just(UState::HeaderValid),
        3 => Just(UState::Stored),
        2 => Just(UState::Valid),
        1 => Just(UState::StoredButAbsent),
        1 => Just(UState::Orphan),
        1 => Just(UState::ReceivedButAbsent),
        1 => Just(UState::Invalid),
    ]
}

pub fn scenario() -> impl Strategy<Value = Scenario> {
    (0usize..7).prop_flat_map(|n| {
        (
            (
                any::<u64>(),
                proptest::collection::vec(0u8..3, n),
                proptest::collection::vec(prop_oneof![3 => Just(false), 1 => Just(true)], n),
                prop_oneof![
                    12 => Just(Tamper::None),
                    1 => Just(Tamper::DupShortId),
                    1 => Just(Tamper::SwapPrefilled),
                    1 => Just(Tamper::IndexOutOfRange),
                    1 => Just(Tamper::NoCellbase),
                    1 => Just(Tamper::PrefilledAlsoShortId),
                    1 => Just(Tamper::RepeatPrefilled),
                ],
                proptest::collection::vec(
                    prop_oneof![3 => Just(Src::None), 4 => Just(Src::Exact), 2 => Just(Src::Twin)],
                    n,
                ),
            ),
            (
                0u8..3,
                any::<bool>(),
                proptest::collection::vec((ustate(), 0u8..3).prop_map(|(state, proposals)| UncleSpec { state, proposals }), 0..3),
                0u8..3,
                proptest::option::weighted(0.3, proptest::collection::vec(any::<u8>(), 0..40)),
                proptest::collection::vec(reply(), 0..3),
            ),
        )
            .prop_map(
                |((salt, txs, prefill, tamper, pool), (pool_foreign, pool_proposed, uncles, proposals, extension, replies))| Scenario {
                    salt,
                    txs,
                    prefill,
                    tamper,
                    pool,
                    pool_foreign,
                    pool_proposed,
                    uncles,
                    proposals,
                    extension,
                    replies,
                },
            )
    })
}

// ------------------------------------------------------------------------------------------------
// node

pub struct Node {
    _chain: ChainServiceScope,
    relayer: Relayer,
    shared: Shared,
    rt: tokio::runtime::Runtime,
    _net: NetworkController,
    _tmp: tempfile::TempDir,
}

fn dummy_network(shared: &Shared, dir: &std::path::Path) -> NetworkController {
    let config = NetworkConfig {
        max_peers: 19,
        max_outbound_peers: 5,
        path: dir.to_path_buf(),
        ping_interval_secs: 15,
        ping_timeout_secs: 20,
        connect_outbound_interval_secs: 1,
        discovery_local_address: true,
        bootnode_mode: true,
        reuse_port_on_linux: true,
        ..Default::default()
    };
    let network_state = Arc::new(NetworkState::from_config(config).expect("Init network state failed"));
    NetworkService::new(
        network_state,
        vec![],
        vec![],
        (shared.consensus().identify_name(), "test".to_string(), Flags::COMPATIBILITY),
        TransportType::Tcp,
    )
    .start(shared.async_handle())
    .expect("Start network service failed")
}

impl Node {
    pub fn start() -> Node {
        let tmp = scratch("vc16-");
        let (shared, mut pack) = SharedBuilder::with_temp_db().build().expect("shared");
        let net = dummy_network(&shared, tmp.path());
        pack.take_tx_pool_builder().start(net.clone());
        let chain = ChainServiceScope::new(pack.take_chain_services_builder());
        while chain.chain_controller().is_verifying_unverified_blocks_on_startup() {
            std::thread::sleep(std::time::Duration::from_millis(5));
        }
        let sync_shared = Arc::new(SyncShared::new(shared.clone(), Default::default(), pack.take_relay_tx_receiver()));
        let relayer = Relayer::new(chain.chain_controller().clone(), sync_shared);
        let rt = tokio::runtime::Builder::new_current_thread().enable_all().build().unwrap();
        Node { _chain: chain, relayer, shared, rt, _net: net, _tmp: tmp }
    }

    fn reconstruct(
        &self,
        compact: &packed::CompactBlock,
        received: Vec<TransactionView>,
        uncle_idx: &[u32],
        received_uncles: &[core::UncleBlockView],
    ) -> Result<ReconstructionResult, Violation> {
        guard("reconstruct_block", "call", || {
            self.rt.block_on(self.relayer.reconstruct_block(
                &self.relayer.shared().active_chain(),
                compact,
                received,
                uncle_idx,
                received_uncles,
            ))
        })
    }
}

// ------------------------------------------------------------------------------------------------
// building the block of a scenario

fn h32(salt: u64, tag: &str, i: u64) -> packed::Byte32 {
    let a = fxhash64(&(salt, tag, i, 0u8)).to_le_bytes();
    let b = fxhash64(&(salt, tag, i, 1u8)).to_le_bytes();
    let c = fxhash64(&(salt, tag, i, 2u8)).to_le_bytes();
    let d = fxhash64(&(salt, tag, i, 3u8)).to_le_bytes();
    let mut v = [0u8; 32];
    v[0..8].copy_from_slice(&a);
    v[8..16].copy_from_slice(&b);
    v[16..24].copy_from_slice(&c);
    v[24..32].copy_from_slice(&d);
    packed::Byte32::new(v)
}

fn wits(n: u8, tag: u8) -> Vec<packed::Bytes> {
    (0..n).map(|k| packed::Bytes::from(&[tag, k, 0x5a][..])).collect()
}

fn make_tx(salt: u64, tag: &str, i: u64, n_wit: u8) -> TransactionView {
    TransactionBuilder::default()
        .input(CellInput::new(OutPoint::new(h32(salt, tag, i), 0), 0))
        .output(CellOutputBuilder::default().capacity(Capacity::shannons(1000 + i)).build())
        .output_data(Bytes::new())
        .set_witnesses(wits(n_wit, 1))
        .build()
}

/// same raw transaction, other witnesses
fn twin_of(tx: &TransactionView) -> TransactionView {
    let n = tx.witnesses().len() as u8;
    tx.as_advanced_builder().set_witnesses(wits(n + 1, 2)).build()
}

fn make_uncle(salt: u64, j: u64, spec: &UncleSpec) -> BlockView {
    // the state is part of the hash so that a hash is never reused with another state
    let tag = format!("uncle-{:?}", spec.state);
    let props: Vec<packed::ProposalShortId> = (0..spec.proposals)
        .map(|k| packed::ProposalShortId::from_tx_hash(&h32(salt, "uprop", j * 8 + k as u64)))
        .collect();
    let number = 1 + (fxhash64(&(salt, j)) % 1000);
    BlockBuilder::default()
        .number(number)
        .epoch(core::EpochNumberWithFraction::new(0, number, 1800))
        .parent_hash(h32(salt, &tag, j))
        .timestamp(fxhash64(&(salt, "ts", j)) % 1_000_000)
        .proposals(props)
        .build()
}

pub struct Built {
    block: BlockView,
    compact: packed::CompactBlock,
    txs: Vec<TransactionView>,
    uncles: Vec<BlockView>,
}

fn build(sc: &Scenario) -> Built {
    let cellbase = TransactionBuilder::default()
        .input(CellInput::new_cellbase_input(7))
        .output(CellOutputBuilder::default().capacity(Capacity::shannons(sc.salt % 100_000)).build())
        .output_data(Bytes::new())
        .witness(packed::Bytes::from(&sc.salt.to_le_bytes()[..]))
        .build();
    let mut txs = vec![cellbase];
    for (i, n_wit) in sc.txs.iter().enumerate() {
        txs.push(make_tx(sc.salt, "tx", i as u64, *n_wit));
    }
    let uncles: Vec<BlockView> = sc.uncles.iter().enumerate().map(|(j, u)| make_uncle(sc.salt, j as u64, u)).collect();
    let props: Vec<packed::ProposalShortId> = (0..sc.proposals)
        .map(|k| packed::ProposalShortId::from_tx_hash(&h32(sc.salt, "prop", k as u64)))
        .collect();
    let header = HeaderBuilder::default()
        .number(7)
        .epoch(core::EpochNumberWithFraction::new(0, 7, 1800))
        .parent_hash(h32(sc.salt, "parent", 0))
        .timestamp(sc.salt % 1_000_000_007)
        .nonce(sc.salt as u128)
        .build();
    let block = BlockBuilder::default()
        .header(header)
        .transactions(txs.clone())
        .uncles(uncles.iter().map(|u| u.as_uncle()).collect::<Vec<_>>())
        .proposals(props)
        .extension(sc.extension.as_ref().map(|e| packed::Bytes::from(e.as_slice())))
        .build();
    let prefilled: HashSet<usize> = sc
        .prefill
        .iter()
        .enumerate()
        .filter(|(_, p)| **p)
        .map(|(i, _)| i + 1)
        .collect();
    let cb = packed::CompactBlock::build_from_block(&block, &prefilled);
    let ext = cb.extension();
    let rebuild = |b: packed::CompactBlockBuilder| -> packed::CompactBlock {
        // keep the extension field when the tampered compact block is rebuilt
        let cb = b.build();
        match &ext {
            None => cb,
            Some(e) => packed::CompactBlockV1::new_builder()
                .header(cb.header())
                .short_ids(cb.short_ids())
                .prefilled_transactions(cb.prefilled_transactions())
                .uncles(cb.uncles())
                .proposals(cb.proposals())
                .extension(e.clone())
                .build()
                .as_v0(),
        }
    };
    let compact = match sc.tamper {
        Tamper::None => cb,
        Tamper::DupShortId if !cb.short_ids().is_empty() => {
            let mut ids: Vec<_> = cb.short_ids().into_iter().collect();
            ids.push(ids[ids.len() / 2].clone());
            rebuild(cb.as_builder().short_ids(ids))
        }
        Tamper::SwapPrefilled if cb.prefilled_transactions().len() >= 3 => {
            let mut p: Vec<_> = cb.prefilled_transactions().into_iter().collect();
            let l = p.len();
            p.swap(l - 1, l - 2);
            rebuild(cb.as_builder().prefilled_transactions(p))
        }
        Tamper::IndexOutOfRange if cb.prefilled_transactions().len() >= 2 => {
            let mut p: Vec<_> = cb.prefilled_transactions().into_iter().collect();
            let l = p.len();
            let total = cb.txs_len();
            p[l - 1] = p[l - 1].clone().as_builder().index(total + (sc.salt % 3) as usize).build();
            rebuild(cb.as_builder().prefilled_transactions(p))
        }
        Tamper::RepeatPrefilled => {
            let mut p: Vec<_> = cb.prefilled_transactions().into_iter().collect();
            if let Some(last) = p.last().cloned() {
                p.push(last);
            }
            rebuild(cb.as_builder().prefilled_transactions(p))
        }
        Tamper::NoCellbase => {
            let p: Vec<_> = cb.prefilled_transactions().into_iter().skip(1).collect();
            rebuild(cb.as_builder().prefilled_transactions(p))
        }
        Tamper::PrefilledAlsoShortId if cb.prefilled_transactions().len() >= 2 => {
            let last = cb.prefilled_transactions().into_iter().last().unwrap();
            let mut ids: Vec<_> = cb.short_ids().into_iter().collect();
            ids.push(last.transaction().proposal_short_id());
            rebuild(cb.as_builder().short_ids(ids))
        }
        _ => cb,
    };
    Built { block, compact, txs, uncles }
}

/// independent statement of the compact-block well-formedness rules (RFC 0004 / StatusCodes 4xx):
/// Some(class) when malformed
fn model_compact_malformed(cb: &packed::CompactBlock) -> Option<&'static str> {
    let idx: Vec<usize> = cb.prefilled_transactions().into_iter().map(|p| p.index().into()).collect();
    let total = idx.len() + cb.short_ids().len();
    if idx.first() != Some(&0) {
        return Some("cellbase-not-prefilled");
    }
    if idx.windows(2).any(|w| w[0] >= w[1]) {
        return Some("prefilled-out-of-order");
    }
    if idx.iter().any(|i| *i >= total) {
        return Some("prefilled-index-out-of-range");
    }
    let ids: Vec<packed::ProposalShortId> = cb.short_ids().into_iter().collect();
    let set: HashSet<&packed::ProposalShortId> = ids.iter().collect();
    if set.len() != ids.len() {
        return Some("duplicated-short-ids");
    }
    if cb
        .prefilled_transactions()
        .into_iter()
        .skip(1)
        .any(|p| set.contains(&p.transaction().proposal_short_id()))
    {
        return Some("prefilled-also-short-id");
    }
    None
}

// ------------------------------------------------------------------------------------------------
// the property

struct Local {
    pool: HashMap<packed::ProposalShortId, TransactionView>,
    ustate: Vec<UState>,
}

fn setup(node: &Node, sc: &Scenario, b: &Built) -> Result<Local, Violation> {
    let tpc = node.shared.tx_pool_controller();
    tpc.clear_pool(Arc::clone(&node.shared.snapshot()))
        .map_err(|e| Violation::new("harness:clear-pool", format!("{e}")))?;
    let mut pool: HashMap<packed::ProposalShortId, TransactionView> = HashMap::new();
    let mut entries = vec![];
    for (i, src) in sc.pool.iter().enumerate() {
        let tx = &b.txs[i + 1];
        let t = match src {
            Src::None => continue,
            Src::Exact => tx.clone(),
            Src::Twin => twin_of(tx),
        };
        pool.insert(t.proposal_short_id(), t.clone());
        entries.push(TxEntry::dummy_resolve(t, 0, Capacity::shannons(0), 0));
    }
    for k in 0..sc.pool_foreign {
        let t = make_tx(sc.salt, "pool-foreign", k as u64, 1);
        pool.insert(t.proposal_short_id(), t.clone());
        entries.push(TxEntry::dummy_resolve(t, 0, Capacity::shannons(0), 0));
    }
    if !entries.is_empty() {
        let target = if sc.pool_proposed { PlugTarget::Proposed } else { PlugTarget::Pending };
        tpc.plug_entry(entries, target)
            .map_err(|e| Violation::new("harness:plug-entry", format!("{e}")))?;
    }
    // uncles
    let mut ustate = vec![];
    for (u, spec) in b.uncles.iter().zip(&sc.uncles) {
        let hash = u.hash();
        let in_store = matches!(spec.state, UState::Stored | UState::Valid);
        if in_store {
            let txn = node.shared.store().begin_transaction();
            txn.insert_block(u).map_err(|e| Violation::new("harness:insert-block", format!("{e}")))?;
            txn.commit().map_err(|e| Violation::new("harness:insert-block", format!("{e}")))?;
        }
        match spec.state {
            UState::Unknown => node.shared.remove_block_status(&hash),
            UState::HeaderValid => node.shared.insert_block_status(hash, BlockStatus::HEADER_VALID),
            UState::Stored | UState::StoredButAbsent => node.shared.insert_block_status(hash, BlockStatus::BLOCK_STORED),
            UState::Valid => node.shared.insert_block_status(hash, BlockStatus::BLOCK_VALID),
            UState::ReceivedButAbsent => node.shared.insert_block_status(hash, BlockStatus::BLOCK_RECEIVED),
            UState::Invalid => node.shared.insert_block_status(hash, BlockStatus::BLOCK_INVALID),
            UState::Orphan => {
                let chain = node.relayer_chain();
                if chain.get_orphan_block(node.shared.store(), &hash).is_none() {
                    chain.asynchronous_process_lonely_block(LonelyBlock {
                        block: Arc::new(u.clone()),
                        switch: Some(Switch::DISABLE_ALL),
                        verify_callback: None,
                    });
                    let t0 = std::time::Instant::now();
                    while chain.get_orphan_block(node.shared.store(), &hash).is_none() {
                        if t0.elapsed().as_secs() > 20 {
                            return Err(Violation::new("harness:orphan-not-registered", format!("{hash}")));
                        }
                        std::thread::sleep(std::time::Duration::from_micros(200));
                    }
                }
                node.shared.insert_block_status(hash, BlockStatus::BLOCK_RECEIVED);
            }
        }
        ustate.push(spec.state);
    }
    Ok(Local { pool, ustate })
}

impl Node {
    fn relayer_chain(&self) -> &ckb_chain::ChainController {
        self._chain.chain_controller()
    }
}

fn cleanup(node: &Node, b: &Built, sc: &Scenario) {
    for (u, spec) in b.uncles.iter().zip(&sc.uncles) {
        node.shared.remove_block_status(&u.hash());
        if matches!(spec.state, UState::Stored | UState::Valid) {
            let txn = node.shared.store().begin_transaction();
            let _ = txn.delete_block(u);
            let _ = txn.commit();
        }
    }
}

#[derive(Debug, PartialEq, Eq)]
enum Expect {
    /// must be Block(original)
    Block,
    /// Block(original) or Collided or Error(unmatched root)
    BlockOrCollision,
    Missing(Vec<usize>, Vec<usize>),
    InvalidUncle,
}

/// Model of one reconstruction call.
fn expect(
    b: &Built,
    local: &Local,
    received: &[TransactionView],
    uncle_idx: &[u32],
    received_uncles: &[core::UncleBlockView],
) -> Expect {
    let cb = &b.compact;
    // candidates per short id
    let ids: HashSet<packed::ProposalShortId> = cb.short_ids().into_iter().collect();
    let mut by_reply: HashMap<packed::ProposalShortId, Vec<&TransactionView>> = HashMap::new();
    for t in received {
        let id = t.proposal_short_id();
        if ids.contains(&id) {
            by_reply.entry(id).or_default().push(t);
        }
    }
    // positions
    let prefilled: HashMap<usize, packed::Transaction> = cb
        .prefilled_transactions()
        .into_iter()
        .map(|p| (p.index().into(), p.transaction()))
        .collect();
    let total = cb.txs_len();
    let mut short_iter = cb.short_ids().into_iter();
    let mut missing_tx = vec![];
    let mut ambiguous = false;
    // the witness hash each position must have
    let want_wh: Vec<packed::Byte32> = b.txs.iter().map(|t| t.witness_hash()).collect();
    for pos in 0..total {
        if prefilled.contains_key(&pos) {
            continue;
        }
        let Some(id) = short_iter.next() else { break };
        let mut cands: Vec<&TransactionView> = vec![];
        if let Some(v) = by_reply.get(&id) {
            cands.extend(v.iter().copied());
        }
        if let Some(t) = local.pool.get(&id) {
            cands.push(t);
        }
        if cands.is_empty() {
            missing_tx.push(pos);
        } else if cands.iter().any(|t| want_wh.get(pos) != Some(&t.witness_hash())) {
            ambiguous = true;
        }
    }
    let mut missing_uncles = vec![];
    let mut invalid = false;
    let mut k = 0usize;
    for (j, st) in local.ustate.iter().enumerate() {
        if uncle_idx.contains(&(j as u32)) {
            // supplied by the peer (k-th received uncle)
            if let Some(u) = received_uncles.get(k) {
                if u.data().as_slice() != b.uncles[j].as_uncle().data().as_slice() {
                    ambiguous = true;
                }
            }
            k += 1;
            continue;
        }
        match st {
            UState::Unknown | UState::HeaderValid | UState::StoredButAbsent | UState::ReceivedButAbsent => {
                missing_uncles.push(j)
            }
            UState::Stored | UState::Valid | UState::Orphan => {}
            UState::Invalid => {
                invalid = true;
                break;
            }
        }
    }
    if invalid {
        return Expect::InvalidUncle;
    }
    if !missing_tx.is_empty() || !missing_uncles.is_empty() {
        return Expect::Missing(missing_tx, missing_uncles);
    }
    if ambiguous { Expect::BlockOrCollision } else { Expect::Block }
}

fn describe(r: &ReconstructionResult) -> String {
    match r {
        ReconstructionResult::Block(b) => format!("Block({})", b.hash()),
        ReconstructionResult::Missing(a, b) => format!("Missing({a:?}, {b:?})"),
        ReconstructionResult::Collided => "Collided".into(),
        ReconstructionResult::Error(s) => format!("Error({s})"),
    }
}

fn check_result(b: &Built, exp: &Expect, res: &ReconstructionResult, round: usize) -> Verdict {
    let cb = &b.compact;
    // clause 1: a returned block is exactly the committed block
    if let ReconstructionResult::Block(blk) = res {
        let hdr = cb.header().into_view();
        if blk.hash() != hdr.hash() {
            vfail!(
                "reconstruct:block-hash-differs-from-compact-header",
                "round {round}: returned block {} for compact header {}",
                blk.hash(),
                hdr.hash()
            );
        }
        if blk.calc_transactions_root() != hdr.transactions_root() {
            vfail!("reconstruct:block-transactions-root-not-committed", "round {round}: recomputed {} header {}", blk.calc_transactions_root(), hdr.transactions_root());
        }
        if blk.calc_proposals_hash() != hdr.proposals_hash() {
            vfail!("reconstruct:block-proposals-hash-not-committed", "round {round}: recomputed {} header {}", blk.calc_proposals_hash(), hdr.proposals_hash());
        }
        if blk.calc_extra_hash().extra_hash() != hdr.extra_hash() {
            vfail!("reconstruct:block-extra-hash-not-committed", "round {round}: recomputed {} header {}", blk.calc_extra_hash().extra_hash(), hdr.extra_hash());
        }
        if blk.data().as_slice() != b.block.data().as_slice() {
            // which part differs
            let part = if blk.data().transactions().as_slice() != b.block.data().transactions().as_slice() {
                "transactions"
            } else if blk.data().uncles().as_slice() != b.block.data().uncles().as_slice() {
                "uncles"
            } else {
                "other"
            };
            vfail!(
                format!("reconstruct:different-block-returned:{part}"),
                "round {round}: the returned block has the committed header hash {} but its {part} differ from the block the compact block was built from",
                blk.hash()
            );
        }
    }
    let ok = match (exp, res) {
        (Expect::Block, ReconstructionResult::Block(_)) => true,
        (Expect::BlockOrCollision, ReconstructionResult::Block(_)) => true,
        (Expect::BlockOrCollision, ReconstructionResult::Collided) => true,
        (Expect::BlockOrCollision, ReconstructionResult::Error(s)) => {
            s.code() == ckb_sync::StatusCode::CompactBlockHasUnmatchedTransactionRootWithReconstructedBlock
        }
        (Expect::Missing(t, u), ReconstructionResult::Missing(rt, ru)) => t == rt && u == ru,
        (Expect::InvalidUncle, ReconstructionResult::Error(s)) => {
            s.code() == ckb_sync::StatusCode::CompactBlockHasInvalidUncle
        }
        _ => false,
    };
    if !ok {
        let sig = match (exp, res) {
            (Expect::Missing(..), ReconstructionResult::Missing(..)) => "reconstruct:missing-report-imprecise".to_string(),
            (Expect::Missing(..), _) => "reconstruct:missing-not-reported".to_string(),
            (_, ReconstructionResult::Missing(..)) => "reconstruct:missing-reported-but-all-available".to_string(),
            (Expect::Block, ReconstructionResult::Collided) => "reconstruct:collision-verdict-without-twin".to_string(),
            (Expect::Block, ReconstructionResult::Error(_)) => "reconstruct:error-verdict-on-available-honest-block".to_string(),
            (Expect::InvalidUncle, _) => "reconstruct:invalid-uncle-not-reported".to_string(),
            _ => "reconstruct:unexpected-result".to_string(),
        };
        vfail!(sig, "round {round}: model expects {exp:?}, reconstruct_block returned {}", describe(res));
    }
    Ok(())
}

pub fn prop(node: &Node, sc: &Scenario, st: &mut Stats) -> Verdict {
    let b = build(sc);
    let r = prop_inner(node, sc, &b, st);
    cleanup(node, &b, sc);
    r
}

fn prop_inner(node: &Node, sc: &Scenario, b: &Built, st: &mut Stats) -> Verdict {
    let local = setup(node, sc, b)?;
    let cb = &b.compact;
    let malformed = model_compact_malformed(cb);
    let status = guard("CompactBlockVerifier", "verify", || compact_block_verify(cb))?;
    match malformed {
        Some(class) => {
            st.label(&format!("recon:compact-malformed:{class}"));
            if !status.is_ok() {
                st.label("recon:compact-malformed:rejected-by-verifier");
                return Ok(());
            }
            // the pre-check let it through: the reconstruction oracle still applies below
            st.label("recon:compact-malformed:ACCEPTED-by-verifier");
        }
        None => {
            if !status.is_ok() {
                vfail!(
                    "compact-verifier:rejects-build_from_block-output",
                    "CompactBlockVerifier returned {status} for an untampered CompactBlock::build_from_block result"
                );
            }
        }
    }
    let has_twin = sc.pool.iter().any(|s| *s == Src::Twin)
        || sc.replies.iter().any(|r| r.txs.iter().any(|t| *t == RTx::Twin));
    if has_twin {
        st.label("recon:has-twin");
    }
    if sc.extension.is_some() {
        st.label("recon:has-extension");
    }
    for u in &sc.uncles {
        st.label(&format!("recon:uncle-state:{:?}", u.state));
    }
    if sc.pool.iter().any(|s| *s != Src::None) {
        st.label(if sc.pool_proposed { "recon:pool:proposed" } else { "recon:pool:pending" });
    }
    if sc.prefill.iter().any(|p| *p) {
        st.label("recon:extra-prefilled");
    }
    let mut nontrivial = has_twin;

    // round 0: CompactBlockProcess
    let mut round = 0usize;
    let mut exp_tx: Vec<u32> = vec![];
    let mut exp_uncles: Vec<u32> = vec![];
    let exp = expect(b, &local, &[], &[], &[]);
    let mut res = node.reconstruct(cb, vec![], &[], &[])?;
    if label_result(&res, 0, st) {
        nontrivial = true;
    }
    check_result(b, &exp, &res, 0)?;

    for reply in &sc.replies {
        // what BlockTransactionsProcess would have recorded as expected indexes
        match &res {
            ReconstructionResult::Block(_) | ReconstructionResult::Error(_) => break,
            ReconstructionResult::Missing(t, u) => {
                let mut nt: Vec<u32> = t.iter().map(|i| *i as u32).chain(exp_tx.iter().copied()).collect();
                let mut nu: Vec<u32> = u.iter().map(|i| *i as u32).chain(exp_uncles.iter().copied()).collect();
                if round == 0 {
                    nt = t.iter().map(|i| *i as u32).collect();
                    nu = u.iter().map(|i| *i as u32).collect();
                }
                nt.sort_unstable();
                nu.sort_unstable();
                exp_tx = nt;
                exp_uncles = nu;
            }
            ReconstructionResult::Collided => {
                exp_tx = cb.short_id_indexes().into_iter().map(|i| i as u32).collect();
                exp_uncles = vec![];
            }
        }
        round += 1;
        // the peer's reply
        let mut txs: Vec<TransactionView> = vec![];
        for (k, idx) in exp_tx.iter().enumerate() {
            let orig = b.txs.get(*idx as usize);
            match (reply.txs.get(k).copied().unwrap_or(RTx::Exact), orig) {
                (RTx::Omit, _) | (_, None) => {}
                (RTx::Exact, Some(t)) => txs.push(t.clone()),
                (RTx::Twin, Some(t)) => txs.push(twin_of(t)),
                (RTx::Foreign, _) => txs.push(make_tx(sc.salt, "reply-foreign", (round * 100 + k) as u64, 1)),
                (RTx::Other(sel), _) => txs.push(b.txs[pick_idx(sel as u32, b.txs.len())].clone()),
            }
        }
        for k in 0..reply.extra_txs {
            txs.push(make_tx(sc.salt, "reply-extra", (round * 100) as u64 + k as u64, 0));
        }
        let mut uncles: Vec<core::UncleBlockView> = vec![];
        for (k, idx) in exp_uncles.iter().enumerate() {
            let orig = b.uncles.get(*idx as usize);
            match (reply.uncles.get(k).copied().unwrap_or(RUncle::Exact), orig) {
                (RUncle::Omit, _) | (_, None) => {}
                (RUncle::Exact, Some(u)) => uncles.push(u.as_uncle()),
                (RUncle::Other(sel), _) => uncles.push(b.uncles[pick_idx(sel as u32, b.uncles.len())].as_uncle()),
                (RUncle::Foreign, _) => uncles.push(
                    make_uncle(sc.salt ^ 0x55aa, (round * 10 + k) as u64, &UncleSpec { state: UState::Unknown, proposals: 1 }).as_uncle(),
                ),
                (RUncle::SameHeaderOtherProposals, Some(u)) => {
                    let p = packed::UncleBlock::new_builder()
                        .header(u.data().header())
                        .proposals(vec![packed::ProposalShortId::from_tx_hash(&h32(sc.salt, "tampered", k as u64))])
                        .build();
                    uncles.push(p.into_view());
                }
                (RUncle::SameHeaderProposalsForm(form), Some(u)) => {
                    let mut ids: Vec<packed::ProposalShortId> = u.data().proposals().into_iter().collect();
                    match form {
                        1 => ids.clear(),
                        2 => {
                            ids.pop();
                        }
                        3 => ids.push(packed::ProposalShortId::from_tx_hash(&h32(sc.salt, "tampered", k as u64))),
                        _ => ids.reverse(),
                    }
                    let p = packed::UncleBlock::new_builder().header(u.data().header()).proposals(ids).build();
                    uncles.push(p.into_view());
                }
            }
        }
        for k in 0..reply.extra_uncles {
            uncles.push(
                make_uncle(sc.salt ^ 0xaa55, (round * 10) as u64 + k as u64, &UncleSpec { state: UState::Unknown, proposals: 0 }).as_uncle(),
            );
        }
        if uncles.len() < exp_uncles.len() {
            st.label("recon:reply-fewer-uncles-than-requested");
        }
        if uncles.len() > exp_uncles.len() {
            st.label("recon:reply-more-uncles-than-requested");
        }
        if txs.len() != exp_tx.len() {
            st.label("recon:reply-tx-count-differs");
        }
        // pre-checks of BlockTransactionsProcess, same order
        let s1 = guard("BlockTransactionsVerifier", "verify", || block_transactions_verify(cb, &exp_tx, &txs))?;
        if !s1.is_ok() {
            st.label("recon:reply-rejected-by-txs-verifier");
            break;
        }
        let s2 = guard("BlockUnclesVerifier", "verify", || block_uncles_verify(cb, &exp_uncles, &uncles))?;
        if !s2.is_ok() {
            st.label("recon:reply-rejected-by-uncles-verifier");
            break;
        }
        st.label("recon:reply-accepted-by-pre-checks");
        let exp = expect(b, &local, &txs, &exp_uncles, &uncles);
        res = match node.reconstruct(cb, txs, &exp_uncles, &uncles) {
            Ok(r) => r,
            Err(mut v) => {
                if uncles.len() < exp_uncles.len() {
                    v.signature = format!("{}:reply-has-fewer-uncles-than-requested", v.signature);
                }
                v.detail = format!(
                    "round {round}: requested uncle indexes {exp_uncles:?}, reply carried {} uncles and passed BlockUnclesVerifier; {}",
                    uncles.len(),
                    v.detail
                );
                return Err(v);
            }
        };
        if label_result(&res, round, st) {
            nontrivial = true;
        }
        check_result(b, &exp, &res, round)?;
    }
    if nontrivial {
        st.nontrivial(&serde_json::to_string(sc).unwrap_or_default());
        if st.want_sample() && round > 0 {
            st.sample(|| json!({"scenario": sc, "rounds": round + 1, "last_result": describe(&res)}));
        }
    }
    Ok(())
}

/// labels the result; true when it is a Missing report
fn label_result(res: &ReconstructionResult, round: usize, st: &mut Stats) -> bool {
    match res {
        ReconstructionResult::Block(_) => st.label(&format!("recon:round{round}:Block")),
        ReconstructionResult::Missing(t, u) => {
            st.label(&format!("recon:round{round}:Missing"));
            if !t.is_empty() {
                st.label("recon:missing-txs");
            }
            if !u.is_empty() {
                st.label("recon:missing-uncles");
            }
            return true;
        }
        ReconstructionResult::Collided => st.label(&format!("recon:round{round}:Collided")),
        ReconstructionResult::Error(_) => st.label(&format!("recon:round{round}:Error")),
    }
    false
}

pub fn run(ctx: &Ctx, cases: u32) {
    if cases == 0 {
        return;
    }
    let node = Node::start();
    ctx.run_prop("reconstruct", cases, scenario(), |sc, st| prop(&node, sc, st));
    // a node that is dropped takes seconds to join its services; the worker exits right after
    std::mem::forget(node);
}

pub fn replay(v: &Value, st: &mut Stats) -> Verdict {
    let sc: Scenario = from_case(v)?;
    let node = Node::start();
    let r = prop(&node, &sc, st);
    std::mem::forget(node);
    r
}

#[allow(dead_code)]
fn _unused(_: BTreeSet<u8>) {}
