//! C18: run one concrete `Query` against the real `IndexerHandle` and compare it with the model.
use crate::c18_model::*;
use crate::common::{Stats, Verdict, Violation};
use ckb_indexer::IndexerHandle;
use ckb_jsonrpc_types::{
    IndexerCell, IndexerCellType, IndexerOrder, IndexerRange, IndexerScriptType, IndexerSearchKey,
    IndexerSearchKeyFilter, IndexerSearchMode, IndexerTx, JsonBytes,
};
use ckb_types::{packed, prelude::*};
use std::collections::BTreeMap;

pub const SIG_PREFIX_FP: &str = "prefix-search:false-positive search-script-extends-cell-script-by-leading-bytes-of-BE-position";
pub const SIG_CAP_LEN_RANGE: &str = "get_cells_capacity:script_len_range-upper-bound-inclusive";

pub const BIG_LIMIT: u32 = 1_000_000;

#[derive(Clone, Debug, PartialEq, Eq, PartialOrd, Ord)]
pub struct CellAns {
    pub tx_hash: H32,
    pub index: u32,
    pub block_number: u64,
    pub tx_index: u32,
    pub output: Vec<u8>,
    pub data: Option<Vec<u8>>,
}

#[derive(Clone, Debug, PartialEq, Eq, PartialOrd, Ord)]
pub struct TxAns {
    pub tx_hash: H32,
    pub block_number: u64,
    pub tx_index: u32,
    pub io_index: u32,
    pub is_output: bool,
}

#[derive(Clone, Debug, PartialEq, Eq)]
pub struct GroupAns {
    pub tx_hash: H32,
    pub block_number: u64,
    pub tx_index: u32,
    pub cells: Vec<(bool, u32)>,
}

pub fn search_key(q: &Query) -> IndexerSearchKey {
    let script = script_of_raw(&unhex(&q.script));
    let filter = q.filter.as_ref().map(|f| IndexerSearchKeyFilter {
        script: f.script.as_ref().map(|s| script_of_raw(&unhex(s)).into()),
        script_len_range: f.script_len_range.map(|(a, b)| IndexerRange::new(a, b)),
        output_data: f.output_data.as_ref().map(|(d, _)| JsonBytes::from_vec(unhex(d))),
        output_data_filter_mode: f.output_data.as_ref().and_then(|(_, m)| mode_of(*m)),
        output_data_len_range: f.data_len_range.map(|(a, b)| IndexerRange::new(a, b)),
        output_capacity_range: f.capacity_range.map(|(a, b)| IndexerRange::new(a, b)),
        block_range: f.block_range.map(|(a, b)| IndexerRange::new(a, b)),
    });
    IndexerSearchKey {
        script: script.into(),
        script_type: if q.stype == 0 { IndexerScriptType::Lock } else { IndexerScriptType::Type },
        script_search_mode: mode_of(q.mode),
        filter,
        with_data: q.with_data,
        group_by_transaction: if q.kind == KIND_TXS_GROUPED { Some(true) } else { None },
    }
}

pub fn mode_of(m: u8) -> Option<IndexerSearchMode> {
    match m {
        MODE_PREFIX => Some(IndexerSearchMode::Prefix),
        MODE_EXACT => Some(IndexerSearchMode::Exact),
        MODE_PARTIAL => Some(IndexerSearchMode::Partial),
        _ => None,
    }
}

pub fn order_of(desc: bool) -> IndexerOrder {
    if desc { IndexerOrder::Desc } else { IndexerOrder::Asc }
}

pub fn cell_ans(c: IndexerCell) -> CellAns {
    let output: packed::CellOutput = c.output.into();
    CellAns {
        tx_hash: c.out_point.tx_hash.0,
        index: c.out_point.index.value(),
        block_number: c.block_number.value(),
        tx_index: c.tx_index.value(),
        output: output.as_slice().to_vec(),
        data: c.output_data.map(|d| d.into_bytes().to_vec()),
    }
}

pub fn is_out(t: &IndexerCellType) -> bool {
    matches!(t, IndexerCellType::Output)
}

/// all pages of get_cells with page size `limit`; Err(msg) if the call failed
pub fn run_cells(h: &IndexerHandle, q: &Query, desc: bool, limit: u32, max_pages: usize) -> Result<Vec<Vec<CellAns>>, String> {
    let mut pages = vec![];
    let mut cursor: Option<JsonBytes> = None;
    loop {
        let r = h
            .get_cells(search_key(q), order_of(desc), limit.into(), cursor.clone())
            .map_err(|e| e.to_string())?;
        let n = r.objects.len();
        pages.push(r.objects.into_iter().map(cell_ans).collect::<Vec<_>>());
        if n == 0 || pages.len() >= max_pages {
            break;
        }
        cursor = Some(r.last_cursor);
    }
    Ok(pages)
}

pub enum TxPages {
    Ungrouped(Vec<Vec<TxAns>>),
    Grouped(Vec<Vec<GroupAns>>),
}

pub fn run_txs(h: &IndexerHandle, q: &Query, desc: bool, limit: u32, max_pages: usize) -> Result<TxPages, String> {
    let grouped = q.kind == KIND_TXS_GROUPED;
    let mut up = vec![];
    let mut gp = vec![];
    let mut cursor: Option<JsonBytes> = None;
    loop {
        let r = h
            .get_transactions(search_key(q), order_of(desc), limit.into(), cursor.clone())
            .map_err(|e| e.to_string())?;
        let n = r.objects.len();
        let mut u = vec![];
        let mut g = vec![];
        for o in r.objects {
            match o {
                IndexerTx::Ungrouped(t) => u.push(TxAns {
                    tx_hash: t.tx_hash.0,
                    block_number: t.block_number.value(),
                    tx_index: t.tx_index.value(),
                    io_index: t.io_index.value(),
                    is_output: is_out(&t.io_type),
                }),
                IndexerTx::Grouped(t) => g.push(GroupAns {
                    tx_hash: t.tx_hash.0,
                    block_number: t.block_number.value(),
                    tx_index: t.tx_index.value(),
                    cells: t.cells.iter().map(|(ty, i)| (is_out(ty), i.value())).collect(),
                }),
            }
        }
        if grouped && !u.is_empty() || !grouped && !g.is_empty() {
            return Err("harness-visible: wrong object kind for group_by_transaction".into());
        }
        up.push(u);
        gp.push(g);
        if n == 0 || up.len() >= max_pages {
            break;
        }
        cursor = Some(r.last_cursor);
    }
    Ok(if grouped { TxPages::Grouped(gp) } else { TxPages::Ungrouped(up) })
}

pub struct Tol<'a> {
    /// is this signature registered as a known finding (and tolerated in this run)?
    pub known: &'a dyn Fn(&str) -> bool,
}

fn known_hit(st: &mut Stats, sig: &str) {
    if !st.is_frozen() {
        *st.known_hits.entry(sig.to_string()).or_insert(0) += 1;
    }
    st.label(&format!("known:{}", sig.split(' ').next().unwrap_or(sig)));
}

pub fn vio(sig: &str, q: &Query, at: &str, msg: String) -> Violation {
    Violation::new(sig.to_string(), format!("{at}: {}: {msg}", q.show()))
}

pub fn model_cell_ans(c: &MCell, with_data: bool) -> CellAns {
    CellAns {
        tx_hash: c.tx_hash,
        index: c.index,
        block_number: c.block_number,
        tx_index: c.tx_index,
        output: c.output.as_slice().to_vec(),
        data: if with_data { Some(c.data.clone()) } else { None },
    }
}

pub fn model_tx_ans(e: &MEntry) -> TxAns {
    TxAns {
        tx_hash: e.tx_hash,
        block_number: e.block_number,
        tx_index: e.tx_index,
        io_index: e.io_index,
        is_output: e.is_output,
    }
}

pub fn short(h: &H32) -> String {
    hexs(&h[0..4])
}

pub fn show_cell(c: &CellAns) -> String {
    let o = packed::CellOutput::from_slice(&c.output).ok();
    let (l, t) = match &o {
        Some(o) => (
            show_raw(&raw_of(&o.lock())),
            o.type_().to_opt().map(|t| show_raw(&raw_of(&t))).unwrap_or_else(|| "-".into()),
        ),
        None => ("?".into(), "?".into()),
    };
    format!("{}:{}@{}.{} lock={l} type={t}", short(&c.tx_hash), c.index, c.block_number, c.tx_index)
}

pub fn show_tx(t: &TxAns) -> String {
    format!(
        "{}@{}.{} {}{}",
        short(&t.tx_hash),
        t.block_number,
        t.tx_index,
        if t.is_output { "out" } else { "in" },
        t.io_index
    )
}

/// multiset difference rendered for the violation detail
pub fn diff<T: Ord + Clone, F: Fn(&T) -> String>(actual: &[T], expected: &[T], show: F) -> (Vec<String>, Vec<String>) {
    let mut a: Vec<T> = actual.to_vec();
    let mut e: Vec<T> = expected.to_vec();
    a.sort();
    e.sort();
    let mut extra = vec![];
    let mut missing = vec![];
    let (mut i, mut j) = (0, 0);
    while i < a.len() || j < e.len() {
        if j >= e.len() || (i < a.len() && a[i] < e[j]) {
            extra.push(show(&a[i]));
            i += 1;
        } else if i >= a.len() || e[j] < a[i] {
            missing.push(show(&e[j]));
            j += 1;
        } else {
            i += 1;
            j += 1;
        }
    }
    (extra, missing)
}

pub fn same_multiset<T: Ord + Clone>(a: &[T], b: &[T]) -> bool {
    let mut a = a.to_vec();
    let mut b = b.to_vec();
    a.sort();
    b.sort();
    a == b
}

/// per searched script: positions must ascend in chain order
pub fn check_cells_order(actual_asc: &[CellAns], stype: u8) -> Result<(), String> {
    let mut last: BTreeMap<Vec<u8>, (u64, u32, u32)> = BTreeMap::new();
    for c in actual_asc {
        let o = packed::CellOutput::from_slice(&c.output).map_err(|e| e.to_string())?;
        let s = if stype == 0 { Some(raw_of(&o.lock())) } else { o.type_().to_opt().map(|t| raw_of(&t)) };
        let s = s.unwrap_or_default();
        let pos = (c.block_number, c.tx_index, c.index);
        if let Some(p) = last.get(&s) {
            if *p >= pos {
                return Err(format!("cells of script {} not in ascending chain order: {:?} then {:?}", show_raw(&s), p, pos));
            }
        }
        last.insert(s, pos);
    }
    Ok(())
}

pub fn check_query(h: &IndexerHandle, m: &MState, q: &Query, at: &str, tol: &Tol, st: &mut Stats) -> Verdict {
    // script_search_mode = partial is documented as unsupported by the RocksDB indexer
    if q.mode == MODE_PARTIAL {
        let r = match q.kind {
            KIND_CELLS => run_cells(h, q, q.desc, 10, 1).map(|_| ()),
            KIND_CAPACITY => h.get_cells_capacity(search_key(q)).map(|_| ()).map_err(|e| e.to_string()),
            _ => run_txs(h, q, q.desc, 10, 1).map(|_| ()),
        };
        return match r {
            Err(e) if e.contains("partial") => Ok(()),
            Err(e) => Err(vio("partial-mode:wrong-error", q, at, format!("error does not mention partial mode: {e}"))),
            Ok(()) => Err(vio("partial-mode:not-rejected", q, at, "script_search_mode=partial was answered instead of rejected".into())),
        };
    }
    match q.kind {
        KIND_CELLS => check_cells(h, m, q, at, tol, st),
        KIND_CAPACITY => check_capacity(h, m, q, at, tol, st),
        _ => check_txs(h, m, q, at, tol, st),
    }
}

fn check_cells(h: &IndexerHandle, m: &MState, q: &Query, at: &str, tol: &Tol, st: &mut Stats) -> Verdict {
    let with_data = q.with_data.unwrap_or(true);
    let (yes, fp) = expect_cells(m, q, false);
    let strict: Vec<CellAns> = yes.iter().map(|c| model_cell_ans(c, with_data)).collect();
    let asc = run_cells(h, q, false, BIG_LIMIT, 2)
        .map_err(|e| vio("get_cells:error", q, at, e))?
        .into_iter()
        .next()
        .unwrap_or_default();
    if !same_multiset(&asc, &strict) {
        let mut tolerant = strict.clone();
        tolerant.extend(fp.iter().map(|c| model_cell_ans(c, with_data)));
        if !fp.is_empty() && same_multiset(&asc, &tolerant) {
            if (tol.known)(SIG_PREFIX_FP) {
                known_hit(st, SIG_PREFIX_FP);
            } else {
                let (extra, _) = diff(&asc, &strict, show_cell);
                return Err(vio(SIG_PREFIX_FP, q, at, format!("get_cells returned cells whose script does not start with the search script: {extra:?}")));
            }
        } else {
            let (extra, missing) = diff(&asc, &strict, show_cell);
            let sig = if !missing.is_empty() && extra.is_empty() {
                "get_cells:missing-live-cell"
            } else if missing.is_empty() {
                "get_cells:unexpected-cell"
            } else {
                "get_cells:wrong-cells"
            };
            return Err(vio(sig, q, at, format!("extra={extra:?} missing={missing:?} (expected {} cells, got {})", strict.len(), asc.len())));
        }
    }
    check_cells_order(&asc, q.stype).map_err(|e| vio("get_cells:order", q, at, e))?;
    if q.mode == MODE_EXACT {
        // one script: the whole answer is ordered by (block, tx, output)
        let mut sorted = asc.clone();
        sorted.sort_by_key(|c| (c.block_number, c.tx_index, c.index));
        if sorted != asc {
            return Err(vio("get_cells:order", q, at, "exact search not in ascending chain order".into()));
        }
    }
    if q.desc || q.limit > 0 {
        let desc = run_cells(h, q, true, BIG_LIMIT, 2)
            .map_err(|e| vio("get_cells:error", q, at, e))?
            .into_iter()
            .next()
            .unwrap_or_default();
        let mut rev = asc.clone();
        rev.reverse();
        if desc != rev {
            let (extra, missing) = diff(&desc, &rev, show_cell);
            return Err(vio("get_cells:desc-not-reverse-of-asc", q, at, format!("extra={extra:?} missing={missing:?} asc={} desc={}", asc.len(), desc.len())));
        }
    }
    if q.limit > 0 {
        let full = if q.desc {
            let mut r = asc.clone();
            r.reverse();
            r
        } else {
            asc.clone()
        };
        let max_pages = full.len() / q.limit as usize + 3;
        let pages = run_cells(h, q, q.desc, q.limit, max_pages).map_err(|e| vio("get_cells:error", q, at, e))?;
        if pages.iter().any(|p| p.len() > q.limit as usize) {
            return Err(vio("get_cells:page-exceeds-limit", q, at, "a page has more objects than limit".into()));
        }
        let cat: Vec<CellAns> = pages.iter().flatten().cloned().collect();
        if cat != full || !pages.last().map(|p| p.is_empty()).unwrap_or(false) {
            let (extra, missing) = diff(&cat, &full, show_cell);
            let sig = if !missing.is_empty() {
                "get_cells:pagination-omits"
            } else if !extra.is_empty() {
                "get_cells:pagination-duplicates"
            } else {
                "get_cells:pagination-order"
            };
            return Err(vio(sig, q, at, format!("pages {:?} concatenated differ from the one-shot answer ({}): extra={extra:?} missing={missing:?}", pages.iter().map(|p| p.len()).collect::<Vec<_>>(), full.len())));
        }
    }
    Ok(())
}

fn check_capacity(h: &IndexerHandle, m: &MState, q: &Query, at: &str, tol: &Tol, st: &mut Stats) -> Verdict {
    let r = h
        .get_cells_capacity(search_key(q))
        .map_err(|e| vio("get_cells_capacity:error", q, at, e.to_string()))?;
    let r = match (r, &m.tip) {
        (None, None) => return Ok(()),
        (Some(r), Some(_)) => r,
        (a, b) => {
            return Err(vio("get_cells_capacity:tip", q, at, format!("answer present={} but model tip={:?}", a.is_some(), b.map(|t| t.0))));
        }
    };
    let tip = m.tip.unwrap();
    if r.block_number.value() != tip.0 || r.block_hash.0 != tip.1 {
        return Err(vio("get_cells_capacity:tip", q, at, format!("tip {} {} but chain tip is {} {}", r.block_number.value(), short(&r.block_hash.0), tip.0, short(&tip.1))));
    }
    let actual: u64 = r.capacity.value();
    let sum = |v: &[&MCell]| v.iter().map(|c| c.capacity as u128).sum::<u128>();
    let (yes, fp) = expect_cells(m, q, false);
    if actual as u128 == sum(&yes) {
        return Ok(());
    }
    // known deviations, alone or combined
    let (yes_i, fp_i) = expect_cells(m, q, true);
    let cands: [(u128, bool, bool); 3] = [
        (sum(&yes) + sum(&fp), true, false),
        (sum(&yes_i), false, true),
        (sum(&yes_i) + sum(&fp_i), true, true),
    ];
    for (v, uses_fp, uses_len) in cands {
        if v == actual as u128 {
            let need: Vec<&str> = [(uses_fp, SIG_PREFIX_FP), (uses_len, SIG_CAP_LEN_RANGE)]
                .iter()
                .filter(|x| x.0)
                .map(|x| x.1)
                .collect();
            if let Some(unk) = need.iter().find(|s| !(tol.known)(s)) {
                return Err(vio(unk, q, at, format!("capacity {actual} but the documented semantics give {} (matches the deviation {need:?})", sum(&yes))));
            }
            for s in need {
                known_hit(st, s);
            }
            return Ok(());
        }
    }
    Err(vio("get_cells_capacity:wrong-sum", q, at, format!("capacity {actual}, expected {} over {} cells", sum(&yes), yes.len())))
}

pub fn flatten(groups: &[GroupAns]) -> Vec<TxAns> {
    groups
        .iter()
        .flat_map(|g| {
            g.cells.iter().map(move |(o, i)| TxAns {
                tx_hash: g.tx_hash,
                block_number: g.block_number,
                tx_index: g.tx_index,
                io_index: *i,
                is_output: *o,
            })
        })
        .collect()
}

fn check_txs(h: &IndexerHandle, m: &MState, q: &Query, at: &str, tol: &Tol, st: &mut Stats) -> Verdict {
    let (yes, fp) = expect_entries(m, q);
    let strict: Vec<TxAns> = yes.iter().map(|e| model_tx_ans(e)).collect();
    // the ungrouped one-shot answer is the reference for order and pagination
    let mut uq = q.clone();
    uq.kind = KIND_TXS;
    let asc = match run_txs(h, &uq, false, BIG_LIMIT, 2).map_err(|e| vio("get_transactions:error", q, at, e))? {
        TxPages::Ungrouped(p) => p.into_iter().next().unwrap_or_default(),
        _ => unreachable!(),
    };
    if !same_multiset(&asc, &strict) {
        let mut tolerant = strict.clone();
        tolerant.extend(fp.iter().map(|e| model_tx_ans(e)));
        if !fp.is_empty() && same_multiset(&asc, &tolerant) {
            if (tol.known)(SIG_PREFIX_FP) {
                known_hit(st, SIG_PREFIX_FP);
            } else {
                let (extra, _) = diff(&asc, &strict, show_tx);
                return Err(vio(SIG_PREFIX_FP, q, at, format!("get_transactions returned entries whose script does not start with the search script: {extra:?}")));
            }
        } else {
            let (extra, missing) = diff(&asc, &strict, show_tx);
            let sig = if !missing.is_empty() && extra.is_empty() {
                "get_transactions:missing-entry"
            } else if missing.is_empty() {
                "get_transactions:unexpected-entry"
            } else {
                "get_transactions:wrong-entries"
            };
            return Err(vio(sig, q, at, format!("extra={extra:?} missing={missing:?} (expected {} entries, got {})", strict.len(), asc.len())));
        }
    }
    if q.mode == MODE_EXACT {
        let mut sorted = asc.clone();
        sorted.sort_by_key(|t| (t.block_number, t.tx_index));
        if sorted != asc {
            return Err(vio("get_transactions:order", q, at, "exact search not ordered by (block_number, tx_index)".into()));
        }
    }
    let desc_full = {
        let d = match run_txs(h, &uq, true, BIG_LIMIT, 2).map_err(|e| vio("get_transactions:error", q, at, e))? {
            TxPages::Ungrouped(p) => p.into_iter().next().unwrap_or_default(),
            _ => unreachable!(),
        };
        let mut rev = asc.clone();
        rev.reverse();
        if d != rev {
            let (extra, missing) = diff(&d, &rev, show_tx);
            return Err(vio("get_transactions:desc-not-reverse-of-asc", q, at, format!("extra={extra:?} missing={missing:?}")));
        }
        d
    };
    let full = if q.desc { desc_full } else { asc.clone() };
    if q.kind == KIND_TXS {
        if q.limit > 0 {
            let max_pages = full.len() / q.limit as usize + 3;
            let pages = match run_txs(h, q, q.desc, q.limit, max_pages).map_err(|e| vio("get_transactions:error", q, at, e))? {
                TxPages::Ungrouped(p) => p,
                _ => unreachable!(),
            };
            if pages.iter().any(|p| p.len() > q.limit as usize) {
                return Err(vio("get_transactions:page-exceeds-limit", q, at, "a page has more objects than limit".into()));
            }
            let cat: Vec<TxAns> = pages.iter().flatten().cloned().collect();
            if cat != full || !pages.last().map(|p| p.is_empty()).unwrap_or(false) {
                let (extra, missing) = diff(&cat, &full, show_tx);
                let sig = if !missing.is_empty() {
                    "get_transactions:pagination-omits"
                } else if !extra.is_empty() {
                    "get_transactions:pagination-duplicates"
                } else {
                    "get_transactions:pagination-order"
                };
                return Err(vio(sig, q, at, format!("pages {:?} differ from the one-shot answer ({}): extra={extra:?} missing={missing:?}", pages.iter().map(|p| p.len()).collect::<Vec<_>>(), full.len())));
            }
        }
        return Ok(());
    }
    // grouped
    let one = match run_txs(h, q, q.desc, BIG_LIMIT, 2).map_err(|e| vio("get_transactions:error", q, at, e))? {
        TxPages::Grouped(p) => p.into_iter().next().unwrap_or_default(),
        _ => unreachable!(),
    };
    if flatten(&one) != full {
        let (extra, missing) = diff(&flatten(&one), &full, show_tx);
        return Err(vio("get_transactions:grouped-differs-from-ungrouped", q, at, format!("extra={extra:?} missing={missing:?}")));
    }
    if one.iter().any(|g| g.cells.is_empty()) {
        return Err(vio("get_transactions:grouped-empty-group", q, at, "a group without cells".into()));
    }
    if q.mode == MODE_EXACT {
        // a transaction appears once
        for w in one.windows(2) {
            if w[0].tx_hash == w[1].tx_hash {
                return Err(vio("get_transactions:grouped-split-group", q, at, format!("transaction {} appears as two adjacent groups", short(&w[0].tx_hash))));
            }
        }
        let mut seen = std::collections::BTreeSet::new();
        for g in &one {
            if !seen.insert(g.tx_hash) {
                return Err(vio("get_transactions:grouped-split-group", q, at, format!("transaction {} appears in two groups", short(&g.tx_hash))));
            }
        }
    }
    if q.limit > 0 {
        // In exact mode a transaction is one group and the pages are the one-shot groups cut every
        // `limit`.  In prefix mode the records of one transaction under two matching scripts are not
        // adjacent keys: the one-shot answer merges them when everything in between is filtered out,
        // a page boundary in between does not, so paging may legitimately return more (smaller)
        // groups; every page still carries at least one cell.
        let max_pages = if q.mode == MODE_EXACT { one.len() } else { flatten(&one).len() } / q.limit as usize + 3;
        let pages = match run_txs(h, q, q.desc, q.limit, max_pages).map_err(|e| vio("get_transactions:error", q, at, e))? {
            TxPages::Grouped(p) => p,
            _ => unreachable!(),
        };
        if pages.iter().any(|p| p.len() > q.limit as usize) {
            return Err(vio("get_transactions:page-exceeds-limit", q, at, "a grouped page has more objects than limit".into()));
        }
        let cat: Vec<GroupAns> = pages.iter().flatten().cloned().collect();
        let ok = if q.mode == MODE_EXACT { cat == one } else { flatten(&cat) == full };
        if !ok || !pages.last().map(|p| p.is_empty()).unwrap_or(false) {
            let (extra, missing) = diff(&flatten(&cat), &full, show_tx);
            let sig = if !missing.is_empty() {
                "get_transactions:grouped-pagination-omits"
            } else if !extra.is_empty() {
                "get_transactions:grouped-pagination-duplicates"
            } else {
                "get_transactions:grouped-pagination-regroups"
            };
            return Err(vio(sig, q, at, format!("grouped pages {:?} differ from the one-shot answer ({} groups): extra={extra:?} missing={missing:?}", pages.iter().map(|p| p.len()).collect::<Vec<_>>(), one.len())));
        }
    }
    Ok(())
}

pub fn check_tip(h: &IndexerHandle, m: &MState, at: &str) -> Verdict {
    let t = h
        .get_indexer_tip()
        .map_err(|e| Violation::new("get_indexer_tip:error", format!("{at}: {e}")))?;
    let a = t.map(|t| (t.block_number.value(), t.block_hash.0));
    if a != m.tip {
        return Err(Violation::new(
            "get_indexer_tip:differs-from-chain-tip",
            format!("{at}: indexer tip {:?} but the chain followed so far has tip {:?}", a.map(|x| (x.0, short(&x.1))), m.tip.map(|x| (x.0, short(&x.1)))),
        ));
    }
    Ok(())
}

pub fn render_cell(c: &CellAns) -> String {
    format!("{} cap={} data={:?}", show_cell(c), packed::CellOutput::from_slice(&c.output).map(|o| { let v: u64 = o.capacity().into(); v }).unwrap_or(0), c.data.as_ref().map(|d| hexs(d)))
}

/// all answers of a fixed battery rendered to one string each (rollback-inverse comparison)
pub fn render_answers(h: &IndexerHandle, battery: &[Query]) -> Vec<String> {
    battery
        .iter()
        .map(|q| match q.kind {
            KIND_CELLS => match run_cells(h, q, q.desc, if q.limit > 0 { q.limit } else { BIG_LIMIT }, 64) {
                Ok(p) => format!("{:?}", p.iter().map(|pg| pg.iter().map(render_cell).collect::<Vec<_>>()).collect::<Vec<_>>()),
                Err(e) => format!("err {e}"),
            },
            KIND_CAPACITY => match h.get_cells_capacity(search_key(q)) {
                Ok(Some(c)) => format!("cap {} {} {}", c.capacity.value(), c.block_number.value(), short(&c.block_hash.0)),
                Ok(None) => "cap none".into(),
                Err(e) => format!("cap err {e}"),
            },
            _ => match run_txs(h, q, q.desc, if q.limit > 0 { q.limit } else { BIG_LIMIT }, 64) {
                Ok(TxPages::Ungrouped(p)) => format!("{:?}", p.iter().map(|pg| pg.iter().map(show_tx).collect::<Vec<_>>()).collect::<Vec<_>>()),
                Ok(TxPages::Grouped(p)) => format!(
                    "{:?}",
                    p.iter()
                        .map(|pg| pg.iter().map(|g| format!("{}@{}.{} {:?}", short(&g.tx_hash), g.block_number, g.tx_index, g.cells)).collect::<Vec<_>>())
                        .collect::<Vec<_>>()
                ),
                Err(e) => format!("err {e}"),
            },
        })
        .collect()
}
