//! C18 sub-properties `rich` and `rich-node`: the rich-indexer (`ckb-rich-indexer`, sqlite through
//! sqlx) against the brute-force chain model.
//!
//! * `rich`: the real `RichIndexer` (hook `ckb-rich-indexer/verif-hooks`: the `IndexerSync`
//!   implementation the node's sync service drives, over a fresh sqlite database) is driven with
//!   append / rollback along the C18 main-chain walks (same generator as `direct`: script universe
//!   with shared code hashes, args that are prefixes of one another, empty / 0x00 / 0xff args,
//!   optional type scripts, in-block create+consume, re-committed transactions after a reorg),
//!   extended with uncles, proposals, cell deps and header deps (they fill the association tables
//!   that a rollback has to clean).  After every step a query battery is compared with the model,
//!   with the semantics documented for the rich-indexer (`rpc/src/module/rich_indexer.rs`,
//!   `util/jsonrpc-types/src/indexer.rs`): `partial` search mode is supported, every cell filter
//!   also applies to `get_transactions`, there is no retention bound.
//! * `rich-node`: a real node receives consensus-valid blocks built by the reference model and
//!   the rich-indexer follows it through the real sync loop step
//!   (`IndexerSyncService::try_loop_sync` over a `SecondaryDB`).
use crate::c18_check::{
    BIG_LIMIT, CellAns, GroupAns, TxAns, TxPages, cell_ans, check_cells_order, diff, is_out, model_cell_ans, model_tx_ans,
    order_of, render_cell, same_multiset, search_key, short, show_cell, show_tx,
};
use crate::c18_model::*;
use crate::checks::c18::{
    BlockPlan, Case, Op, OutPlan, QSel, Seen, case_strategy, clip, node_block_step, node_build_tx, node_env, node_spendable,
    output_of, qsel_strategy, resolve_query,
};
use crate::common::*;
use crate::model::{H, cell_key};
use crate::node::{Node, NodeCfg};
use crate::plan::{Interp, TreePlan};
use crate::vfail;
use ckb_app_config::{DBConfig, IndexerSyncConfig, RichIndexerConfig};
use ckb_async_runtime::{Handle, new_global_runtime};
use ckb_indexer_sync::{Error as SyncError, IndexerSync, IndexerSyncService, PoolService, new_secondary_db};
use ckb_jsonrpc_types::{IndexerTx, JsonBytes};
use ckb_rich_indexer::{AsyncRichIndexerHandle, verif::VerifRichIndexer};
use ckb_store::ChainStore;
use ckb_types::{
    H256,
    bytes::Bytes,
    core::{
        BlockBuilder, BlockNumber, BlockView, DepType, EpochNumberWithFraction, HeaderBuilder, TransactionBuilder, TransactionView,
        UncleBlockView,
    },
    packed::{Byte32, CellDep, CellInput, OutPoint, ProposalShortId},
    prelude::*,
};
use proptest::prelude::*;
use serde::{Deserialize, Serialize};
use serde_json::json;
use std::collections::{BTreeMap, BTreeSet};
use std::sync::atomic::{AtomicU32, Ordering};
use std::sync::{Arc, Mutex};

pub const SUB_RICH: &str = "rich";
pub const SUB_RICH_NODE: &str = "rich-node";
/// fixed work (quick, thorough)
pub const RICH_CASES: (u64, u64) = (400, 8000);
pub const RICH_NODE_CASES: (u64, u64) = (96, 1920);

// ------------------------------------------------------------------------------------------------
// case data

/// what the C18 block plans do not carry: uncles / proposals (rows of `block`,
/// `block_association_uncle`, `block_association_proposal`) and transaction dependencies (rows
/// of `tx_association_cell_dep`, `tx_association_header_dep`)
#[derive(Clone, Debug, Serialize, Deserialize, Hash)]
pub struct BlockExtra {
    pub uncles: u8,
    pub proposals: u8,
    /// selectors over the out points created so far (live or spent); odd values of the low bit of
    /// the first selector ask for an out point that never existed
    pub cell_deps: Vec<u16>,
    /// selectors over the blocks of the chain so far / their uncles / an unknown hash
    pub header_deps: Vec<u16>,
}

#[derive(Clone, Debug, Serialize, Deserialize, Hash)]
pub struct RichCase {
    /// genesis, operations and generated queries of the C18 walk (`keep_num` / `prune_interval`
    /// have no meaning for the rich-indexer: rollback works from the database itself, any depth)
    pub base: Case,
    /// per planned block, cycled
    pub extra: Vec<BlockExtra>,
    /// 0: in-memory sqlite (one connection), 1: sqlite file (connection pool)
    pub db: u8,
    /// depth multiplier for reorganisations (1: as generated, 2: doubled; no retention bound)
    pub deep: u8,
}

fn extra_strategy() -> impl Strategy<Value = BlockExtra> {
    (
        prop_oneof![3 => Just(0u8), 2 => 1u8..=2],
        prop_oneof![2 => Just(0u8), 1 => 1u8..=3],
        prop_oneof![2 => Just(vec![]), 1 => proptest::collection::vec(any::<u16>(), 1..=3)],
        prop_oneof![2 => Just(vec![]), 1 => proptest::collection::vec(any::<u16>(), 1..=2)],
    )
        .prop_map(|(uncles, proposals, cell_deps, header_deps)| BlockExtra {
            uncles,
            proposals,
            cell_deps,
            header_deps,
        })
}

/// the C18 query selector with `partial` mode as frequent as the other modes
pub fn rich_qsel_strategy() -> impl Strategy<Value = QSel> {
    (qsel_strategy(), 0u8..10).prop_map(|(mut q, m)| {
        if m < 3 {
            q.mode = MODE_PARTIAL;
        }
        q
    })
}

/// every output plan of the case, in a fixed order
fn for_each_out(c: &mut Case, f: &mut dyn FnMut(&mut OutPlan)) {
    for o in c.genesis.iter_mut() {
        f(o);
    }
    let in_block = |b: &mut BlockPlan, f: &mut dyn FnMut(&mut OutPlan)| {
        for o in b.cellbase.iter_mut() {
            f(o);
        }
        for t in b.txs.iter_mut() {
            for o in t.outputs.iter_mut() {
                f(o);
            }
        }
    };
    for op in c.ops.iter_mut() {
        match op {
            Op::Append { block, .. } => in_block(block, f),
            Op::Reorg { blocks, .. } => {
                for b in blocks.iter_mut() {
                    in_block(b, f);
                }
            }
        }
    }
}

pub fn rich_case_strategy(max_ops: usize) -> impl Strategy<Value = RichCase> {
    (
        case_strategy(max_ops),
        proptest::collection::vec(rich_qsel_strategy(), 4..=16),
        proptest::collection::vec(extra_strategy(), 1..=6),
        prop_oneof![3 => Just(0u8), 1 => Just(1u8)],
        prop_oneof![2 => Just(1u8), 1 => Just(2u8)],
        // moves some scripts to the part of the universe only these sub-checks draw from (args
        // 16..20: prefixes ending in 0xff; hash type data2): 0 = leave as generated
        proptest::collection::vec(prop_oneof![5 => Just(0u8), 3 => 1u8..=5], 1..=12),
    )
        .prop_map(|(mut base, queries, extra, db, deep, remap)| {
            base.queries = queries;
            let mut i = 0usize;
            for_each_out(&mut base, &mut |o: &mut OutPlan| {
                let r = remap[i % remap.len()];
                i += 1;
                match r {
                    0 => {}
                    1..=4 => {
                        o.lock.args = 15 + r;
                        if let Some(t) = &mut o.type_ {
                            t.args = 16 + (r + 1) % 4;
                        }
                    }
                    _ => {
                        o.lock.ht = 3;
                        if let Some(t) = &mut o.type_ {
                            t.ht = 3;
                        }
                    }
                }
            });
            RichCase { base, extra, db, deep }
        })
}

// ------------------------------------------------------------------------------------------------
// runtime and database

fn runtime() -> Handle {
    static RT: std::sync::OnceLock<(Handle, Mutex<Option<tokio::runtime::Runtime>>)> = std::sync::OnceLock::new();
    RT.get_or_init(|| {
        let (handle, _stop_rx, rt) = new_global_runtime(Some(2));
        (handle, Mutex::new(Some(rt)))
    })
    .0
    .clone()
}

pub const MEMORY_DB: &str = "sqlite://?mode=memory";

pub struct RichDb {
    pub idx: VerifRichIndexer,
    pub h: RichH,
    _dir: Option<tempfile::TempDir>,
}

pub fn open_rich(file: bool) -> Result<RichDb, Violation> {
    let rt = runtime();
    let (dir, store) = if file {
        let d = scratch("c18r-");
        let p = d.path().join("rich.db");
        (Some(d), p)
    } else {
        (None, MEMORY_DB.into())
    };
    let cfg = RichIndexerConfig {
        store,
        ..Default::default()
    };
    let idx = VerifRichIndexer::open(&cfg, rt.clone(), None, None).map_err(|e| Violation::new("harness:rich-db-open", e))?;
    let h = RichH {
        h: idx.async_handle(usize::MAX),
        rt,
    };
    Ok(RichDb { idx, h, _dir: dir })
}

/// the query side: `AsyncRichIndexerHandle` (what the RPC module calls) driven to completion
pub struct RichH {
    pub h: AsyncRichIndexerHandle,
    pub rt: Handle,
}

impl RichH {
    pub fn tip(&self) -> Result<Option<(u64, H32)>, String> {
        self.rt
            .block_on(self.h.get_indexer_tip())
            .map(|t| t.map(|t| (t.block_number.value(), t.block_hash.0)))
            .map_err(|e| e.to_string())
    }

    /// all pages of get_cells with page size `limit`
    pub fn cells(&self, q: &Query, desc: bool, limit: u32, max_pages: usize) -> Result<Vec<Vec<CellAns>>, String> {
        let mut pages = vec![];
        let mut cursor: Option<JsonBytes> = None;
        loop {
            let r = self
                .rt
                .block_on(self.h.get_cells(search_key(q), order_of(desc), limit.into(), cursor.clone()))
                .map_err(|e| e.to_string())?;
            let n = r.objects.len();
            pages.push(r.objects.into_iter().map(cell_ans).collect::<Vec<_>>());
            if n == 0 || pages.len() >= max_pages {
                break;
            }
            cursor = Some(r.last_cursor);
        }
        Ok(pages)
    }

    pub fn txs(&self, q: &Query, desc: bool, limit: u32, max_pages: usize) -> Result<TxPages, String> {
        let grouped = q.kind == KIND_TXS_GROUPED;
        let mut up = vec![];
        let mut gp = vec![];
        let mut cursor: Option<JsonBytes> = None;
        loop {
            let r = self
                .rt
                .block_on(self.h.get_transactions(search_key(q), order_of(desc), limit.into(), cursor.clone()))
                .map_err(|e| e.to_string())?;
            let n = r.objects.len();
            let mut u = vec![];
            let mut g = vec![];
            for o in r.objects {
                match o {
                    IndexerTx::Ungrouped(t) => u.push(TxAns {
                        tx_hash: t.tx_hash.0,
                        block_number: t.block_number.value(),
                        tx_index: t.tx_index.value(),
                        io_index: t.io_index.value(),
                        is_output: is_out(&t.io_type),
                    }),
                    IndexerTx::Grouped(t) => g.push(GroupAns {
                        tx_hash: t.tx_hash.0,
                        block_number: t.block_number.value(),
                        tx_index: t.tx_index.value(),
                        cells: t.cells.iter().map(|(ty, i)| (is_out(ty), i.value())).collect(),
                    }),
                }
            }
            if grouped && !u.is_empty() || !grouped && !g.is_empty() {
                return Err("wrong object kind for group_by_transaction".into());
            }
            up.push(u);
            gp.push(g);
            if n == 0 || up.len() >= max_pages {
                break;
            }
            cursor = Some(r.last_cursor);
        }
        Ok(if grouped { TxPages::Grouped(gp) } else { TxPages::Ungrouped(up) })
    }

    /// (capacity, tip number, tip hash)
    pub fn capacity(&self, q: &Query) -> Result<Option<(u64, u64, H32)>, String> {
        self.rt
            .block_on(self.h.get_cells_capacity(search_key(q)))
            .map(|r| r.map(|c| (c.capacity.value(), c.block_number.value(), c.block_hash.0)))
            .map_err(|e| e.to_string())
    }
}

// ------------------------------------------------------------------------------------------------
// the oracle (documented semantics of the rich-indexer)

/// code_hash and hash_type always match exactly; the search mode is about the args
pub fn rich_script_hit(mode: u8, key: &[u8], script: Option<&Vec<u8>>) -> bool {
    let s = match script {
        Some(s) => s,
        None => return false,
    };
    if key.len() < 33 || s.len() < 33 || s[..33] != key[..33] {
        return false;
    }
    let (a, k) = (&s[33..], &key[33..]);
    match mode {
        MODE_EXACT => a == k,
        MODE_PARTIAL => contains(a, k),
        _ => a.starts_with(k),
    }
}

fn empty_filter() -> Filter {
    Filter {
        script: None,
        script_len_range: None,
        output_data: None,
        data_len_range: None,
        capacity_range: None,
        block_range: None,
    }
}

pub fn rich_expect_cells<'a>(m: &'a MState, q: &Query) -> Vec<&'a MCell> {
    let key = unhex(&q.script);
    let e = empty_filter();
    let f = q.filter.as_ref().unwrap_or(&e);
    m.live
        .values()
        .filter(|c| {
            let s = if q.stype == 0 { Some(&c.lock_raw) } else { c.type_raw.as_ref() };
            rich_script_hit(q.mode, &key, s) && cell_filter_match(c, q.stype, f, false)
        })
        .collect()
}

/// `get_transactions`: every filter is "filter cells by ..." of the created / consumed cell;
/// `block_range` is about the block of the transaction.  `filter.script` is documented as
/// "filter cells by type script, and vice versa" for this RPC and as "by type script prefix" on
/// the shared filter type: `script_exact` selects which of the two readings is evaluated.
pub fn rich_entry_filter_match(e: &MEntry, stype: u8, f: &Filter, script_exact: bool) -> bool {
    let other: Option<&Vec<u8>> = if stype == 0 { e.type_raw.as_ref() } else { Some(&e.lock_raw) };
    if let Some(p) = &f.script {
        let p = unhex(p);
        match other {
            Some(o) if (script_exact && *o == p) || (!script_exact && o.starts_with(&p)) => {}
            _ => return false,
        }
    }
    if f.script_len_range.is_some() {
        let len = other.map(|o| o.len() as u64).unwrap_or(0);
        if !in_range(&f.script_len_range, len) {
            return false;
        }
    }
    if let Some((d, mode)) = &f.output_data {
        let d = unhex(d);
        let ok = match *mode {
            MODE_EXACT => e.data == d,
            MODE_PARTIAL => contains(&e.data, &d),
            _ => e.data.starts_with(&d),
        };
        if !ok {
            return false;
        }
    }
    in_range(&f.data_len_range, e.data.len() as u64) && in_range(&f.capacity_range, e.capacity) && in_range(&f.block_range, e.block_number)
}

pub fn rich_expect_entries<'a>(m: &'a MState, q: &Query, script_exact: bool) -> Vec<&'a MEntry> {
    let key = unhex(&q.script);
    let e = empty_filter();
    let f = q.filter.as_ref().unwrap_or(&e);
    m.entries
        .iter()
        .filter(|en| {
            let s = if q.stype == 0 { Some(&en.lock_raw) } else { en.type_raw.as_ref() };
            rich_script_hit(q.mode, &key, s) && rich_entry_filter_match(en, q.stype, f, script_exact)
        })
        .collect()
}

fn rvio(sig: &str, q: &Query, at: &str, msg: String) -> Violation {
    Violation::new(format!("rich:{sig}"), format!("{at}: {}: {msg}", q.show()))
}

/// structural trigger of a prefix-range miss: a prefix key (search args, filter script args or
/// output_data prefix) that ends in 0xff (or is empty), whose exclusive upper bound cannot be
/// formed by incrementing the last byte
fn ff_trigger(q: &Query) -> &'static str {
    let all_ff = |b: &[u8]| !b.is_empty() && b.iter().all(|x| *x == 0xff);
    let mut t = "";
    if q.mode != MODE_EXACT && q.mode != MODE_PARTIAL {
        let k = unhex(&q.script);
        if k.len() >= 33 && all_ff(&k[33..]) {
            t = " prefix-args-all-0xff";
        }
    }
    if let Some(f) = &q.filter {
        if let Some(s) = &f.script {
            let k = unhex(s);
            if k.len() >= 33 && all_ff(&k[33..]) {
                t = " prefix-args-all-0xff";
            }
        }
        if let Some((d, m)) = &f.output_data {
            if *m != MODE_EXACT && *m != MODE_PARTIAL && all_ff(&unhex(d)) {
                t = " prefix-data-all-0xff";
            }
        }
    }
    t
}

pub fn rich_check_tip(h: &RichH, m: &MState, at: &str) -> Verdict {
    let a = h.tip().map_err(|e| Violation::new("rich:get_indexer_tip:error", format!("{at}: {e}")))?;
    if a != m.tip {
        return Err(Violation::new(
            "rich:get_indexer_tip:differs-from-chain-tip",
            format!("{at}: indexer tip {:?} but the chain followed so far has tip {:?}", a.map(|x| (x.0, short(&x.1))), m.tip.map(|x| (x.0, short(&x.1)))),
        ));
    }
    Ok(())
}

pub fn rich_check_query(h: &RichH, m: &MState, q: &Query, at: &str, st: &mut Stats) -> Verdict {
    match q.kind {
        KIND_CELLS => check_cells(h, m, q, at, st),
        KIND_CAPACITY => check_capacity(h, m, q, at, st),
        _ => check_txs(h, m, q, at, st),
    }
}

fn check_cells(h: &RichH, m: &MState, q: &Query, at: &str, _st: &mut Stats) -> Verdict {
    let with_data = q.with_data.unwrap_or(true);
    let strict: Vec<CellAns> = rich_expect_cells(m, q).iter().map(|c| model_cell_ans(c, with_data)).collect();
    let asc = h
        .cells(q, false, BIG_LIMIT, 1)
        .map_err(|e| rvio("get_cells:error", q, at, e))?
        .into_iter()
        .next()
        .unwrap_or_default();
    if !same_multiset(&asc, &strict) {
        let (extra, missing) = diff(&asc, &strict, show_cell);
        let sig = if !missing.is_empty() && extra.is_empty() {
            format!("get_cells:missing-live-cell{}", ff_trigger(q))
        } else if missing.is_empty() {
            "get_cells:unexpected-cell".to_string()
        } else {
            "get_cells:wrong-cells".to_string()
        };
        return Err(rvio(&sig, q, at, format!("extra={extra:?} missing={missing:?} (expected {} cells, got {})", strict.len(), asc.len())));
    }
    check_cells_order(&asc, q.stype).map_err(|e| rvio("get_cells:order", q, at, e))?;
    if q.mode == MODE_EXACT {
        let mut sorted = asc.clone();
        sorted.sort_by_key(|c| (c.block_number, c.tx_index, c.index));
        if sorted != asc {
            return Err(rvio("get_cells:order", q, at, "exact search not in ascending chain order".into()));
        }
    }
    if q.desc || q.limit > 0 {
        let desc = h
            .cells(q, true, BIG_LIMIT, 1)
            .map_err(|e| rvio("get_cells:error", q, at, e))?
            .into_iter()
            .next()
            .unwrap_or_default();
        let mut rev = asc.clone();
        rev.reverse();
        if desc != rev {
            let (extra, missing) = diff(&desc, &rev, show_cell);
            return Err(rvio("get_cells:desc-not-reverse-of-asc", q, at, format!("extra={extra:?} missing={missing:?} asc={} desc={}", asc.len(), desc.len())));
        }
    }
    if q.limit > 0 {
        let full = if q.desc {
            let mut r = asc.clone();
            r.reverse();
            r
        } else {
            asc.clone()
        };
        let max_pages = full.len() / q.limit as usize + 3;
        let pages = h.cells(q, q.desc, q.limit, max_pages).map_err(|e| rvio("get_cells:error", q, at, e))?;
        if pages.iter().any(|p| p.len() > q.limit as usize) {
            return Err(rvio("get_cells:page-exceeds-limit", q, at, "a page has more objects than limit".into()));
        }
        let cat: Vec<CellAns> = pages.iter().flatten().cloned().collect();
        if cat != full || !pages.last().map(|p| p.is_empty()).unwrap_or(false) {
            let (extra, missing) = diff(&cat, &full, show_cell);
            let sig = if !missing.is_empty() {
                "get_cells:pagination-omits"
            } else if !extra.is_empty() {
                "get_cells:pagination-duplicates"
            } else {
                "get_cells:pagination-order"
            };
            return Err(rvio(sig, q, at, format!("pages {:?} concatenated differ from the one-shot answer ({}): extra={extra:?} missing={missing:?}", pages.iter().map(|p| p.len()).collect::<Vec<_>>(), full.len())));
        }
    }
    Ok(())
}

fn check_capacity(h: &RichH, m: &MState, q: &Query, at: &str, st: &mut Stats) -> Verdict {
    let r = h.capacity(q).map_err(|e| rvio("get_cells_capacity:error", q, at, e))?;
    let yes = rich_expect_cells(m, q);
    let sum: u128 = yes.iter().map(|c| c.capacity as u128).sum();
    let (cap, bn, bh) = match (r, &m.tip) {
        (None, None) => return Ok(()),
        (None, Some(_)) => {
            // the RPC returns an optional object and does not say when it is absent: the
            // rich-indexer answers null when no live cell matches (an empty sum)
            if yes.is_empty() {
                st.label("rich:capacity:null-for-no-matching-cell");
                return Ok(());
            }
            return Err(rvio(&format!("get_cells_capacity:null-although-cells-match{}", ff_trigger(q)), q, at, format!("null, expected {sum} over {} cells", yes.len())));
        }
        (Some(_), None) => return Err(rvio("get_cells_capacity:tip", q, at, "an answer although nothing is indexed".into())),
        (Some(r), Some(_)) => r,
    };
    let tip = m.tip.unwrap();
    if bn != tip.0 || bh != tip.1 {
        return Err(rvio("get_cells_capacity:tip", q, at, format!("tip {} {} but chain tip is {} {}", bn, short(&bh), tip.0, short(&tip.1))));
    }
    if cap as u128 != sum {
        let sig = if (cap as u128) < sum { format!("get_cells_capacity:wrong-sum:too-low{}", ff_trigger(q)) } else { "get_cells_capacity:wrong-sum:too-high".to_string() };
        return Err(rvio(&sig, q, at, format!("capacity {cap}, expected {sum} over {} cells", yes.len())));
    }
    Ok(())
}

/// canonical form of a transaction list: consecutive runs of one transaction, each run's cells
/// sorted (the order of the cells inside one transaction is not documented)
#[derive(Clone, Debug, PartialEq, Eq)]
struct Run {
    tx_hash: H32,
    block_number: u64,
    tx_index: u32,
    cells: Vec<(bool, u32)>,
}

fn runs_of(list: &[TxAns]) -> Vec<Run> {
    let mut out: Vec<Run> = vec![];
    for t in list {
        match out.last_mut() {
            Some(r) if r.tx_hash == t.tx_hash && r.block_number == t.block_number && r.tx_index == t.tx_index => r.cells.push((t.is_output, t.io_index)),
            _ => out.push(Run {
                tx_hash: t.tx_hash,
                block_number: t.block_number,
                tx_index: t.tx_index,
                cells: vec![(t.is_output, t.io_index)],
            }),
        }
    }
    for r in &mut out {
        r.cells.sort();
    }
    out
}

fn runs_of_groups(gs: &[GroupAns]) -> Vec<Run> {
    gs.iter()
        .map(|g| {
            let mut cells = g.cells.clone();
            cells.sort();
            Run {
                tx_hash: g.tx_hash,
                block_number: g.block_number,
                tx_index: g.tx_index,
                cells,
            }
        })
        .collect()
}

fn flatten_runs(rs: &[Run]) -> Vec<TxAns> {
    rs.iter()
        .flat_map(|g| {
            g.cells.iter().map(move |(o, i)| TxAns {
                tx_hash: g.tx_hash,
                block_number: g.block_number,
                tx_index: g.tx_index,
                io_index: *i,
                is_output: *o,
            })
        })
        .collect()
}

fn ungrouped(h: &RichH, q: &Query, desc: bool, limit: u32, max_pages: usize, at: &str) -> Result<Vec<Vec<TxAns>>, Violation> {
    let mut uq = q.clone();
    uq.kind = KIND_TXS;
    match h.txs(&uq, desc, limit, max_pages).map_err(|e| rvio("get_transactions:error", q, at, e))? {
        TxPages::Ungrouped(p) => Ok(p),
        _ => unreachable!(),
    }
}

fn check_txs(h: &RichH, m: &MState, q: &Query, at: &str, st: &mut Stats) -> Verdict {
    let asc = ungrouped(h, q, false, BIG_LIMIT, 1, at)?.into_iter().next().unwrap_or_default();
    let strict_p: Vec<TxAns> = rich_expect_entries(m, q, false).iter().map(|e| model_tx_ans(e)).collect();
    if !same_multiset(&asc, &strict_p) {
        let has_fscript = q.filter.as_ref().map(|f| f.script.is_some()).unwrap_or(false);
        let strict_e: Vec<TxAns> = if has_fscript { rich_expect_entries(m, q, true).iter().map(|e| model_tx_ans(e)).collect() } else { vec![] };
        if has_fscript && same_multiset(&asc, &strict_e) {
            st.label("rich:txs:filter-script-evaluated-as-exact");
        } else {
            let (extra, missing) = diff(&asc, &strict_p, show_tx);
            let sig = if !missing.is_empty() && extra.is_empty() {
                format!("get_transactions:missing-entry{}", ff_trigger(q))
            } else if missing.is_empty() {
                "get_transactions:unexpected-entry".to_string()
            } else {
                "get_transactions:wrong-entries".to_string()
            };
            return Err(rvio(&sig, q, at, format!("extra={extra:?} missing={missing:?} (expected {} entries, got {})", strict_p.len(), asc.len())));
        }
    }
    // a list over the transaction history: transactions in chain order, each transaction once
    let asc_runs = runs_of(&asc);
    for w in asc_runs.windows(2) {
        if (w[0].block_number, w[0].tx_index) >= (w[1].block_number, w[1].tx_index) {
            return Err(rvio(
                "get_transactions:order",
                q,
                at,
                format!("transactions not in ascending chain order (or one transaction split): {}@{}.{} then {}@{}.{}", short(&w[0].tx_hash), w[0].block_number, w[0].tx_index, short(&w[1].tx_hash), w[1].block_number, w[1].tx_index),
            ));
        }
    }
    let desc_one = ungrouped(h, q, true, BIG_LIMIT, 1, at)?.into_iter().next().unwrap_or_default();
    let mut rev_runs = asc_runs.clone();
    rev_runs.reverse();
    if runs_of(&desc_one) != rev_runs {
        let (extra, missing) = diff(&desc_one, &asc, show_tx);
        return Err(rvio("get_transactions:desc-not-reverse-of-asc", q, at, format!("extra={extra:?} missing={missing:?} asc={} desc={}", asc.len(), desc_one.len())));
    }
    let full_runs = if q.desc { rev_runs } else { asc_runs };
    let full = flatten_runs(&full_runs);
    if q.kind == KIND_TXS {
        if q.limit > 0 {
            let max_pages = full.len() / q.limit as usize + 3;
            let pages = ungrouped(h, q, q.desc, q.limit, max_pages, at)?;
            if pages.iter().any(|p| p.len() > q.limit as usize) {
                return Err(rvio("get_transactions:page-exceeds-limit", q, at, "a page has more objects than limit".into()));
            }
            let cat: Vec<TxAns> = pages.iter().flatten().cloned().collect();
            if runs_of(&cat) != full_runs || !pages.last().map(|p| p.is_empty()).unwrap_or(false) {
                let (extra, missing) = diff(&cat, &full, show_tx);
                let max_per_tx = full_runs.iter().map(|r| r.cells.len()).max().unwrap_or(0);
                let sig = if !extra.is_empty() && max_per_tx > 1 {
                    // structural trigger: one transaction contributes several cells and a page
                    // boundary falls inside it
                    "get_transactions:pagination-repeats page-boundary-inside-transaction"
                } else if !missing.is_empty() {
                    "get_transactions:pagination-omits"
                } else if !extra.is_empty() {
                    "get_transactions:pagination-duplicates"
                } else if !pages.last().map(|p| p.is_empty()).unwrap_or(false) {
                    "get_transactions:pagination-does-not-end"
                } else {
                    "get_transactions:pagination-order"
                };
                return Err(rvio(sig, q, at, format!("pages {:?} differ from the one-shot answer ({}; at most {max_per_tx} cells per transaction): extra={extra:?} missing={missing:?}", pages.iter().map(|p| p.len()).collect::<Vec<_>>(), full.len())));
            }
        }
        return Ok(());
    }
    // grouped
    let grouped_pages = |limit: u32, max_pages: usize| -> Result<Vec<Vec<GroupAns>>, Violation> {
        match h.txs(q, q.desc, limit, max_pages).map_err(|e| rvio("get_transactions:error", q, at, e))? {
            TxPages::Grouped(p) => Ok(p),
            _ => unreachable!(),
        }
    };
    let one = grouped_pages(BIG_LIMIT, 1)?.into_iter().next().unwrap_or_default();
    if one.iter().any(|g| g.cells.is_empty()) {
        return Err(rvio("get_transactions:grouped-empty-group", q, at, "a group without cells".into()));
    }
    let one_runs = runs_of_groups(&one);
    if !same_multiset(&flatten_runs(&one_runs), &full) {
        let (extra, missing) = diff(&flatten_runs(&one_runs), &full, show_tx);
        return Err(rvio("get_transactions:grouped-differs-from-ungrouped", q, at, format!("extra={extra:?} missing={missing:?}")));
    }
    let exact = q.mode == MODE_EXACT;
    if exact {
        // documented for exact search: grouped by transaction = every transaction once, in the
        // order of the ungrouped list
        if one_runs != full_runs {
            return Err(rvio("get_transactions:grouped-split-or-misordered-group", q, at, format!("groups {:?} but the ungrouped list has the transactions {:?}", one_runs.iter().map(|r| short(&r.tx_hash)).collect::<Vec<_>>(), full_runs.iter().map(|r| short(&r.tx_hash)).collect::<Vec<_>>())));
        }
    }
    if q.limit > 0 {
        let max_pages = if exact { one.len() } else { full.len() } / q.limit as usize + 3;
        let pages = grouped_pages(q.limit, max_pages)?;
        if pages.iter().any(|p| p.len() > q.limit as usize) {
            return Err(rvio("get_transactions:page-exceeds-limit", q, at, "a grouped page has more objects than limit".into()));
        }
        let cat: Vec<GroupAns> = pages.iter().flatten().cloned().collect();
        let cat_runs = runs_of_groups(&cat);
        let ok = if exact { cat_runs == one_runs } else { same_multiset(&flatten_runs(&cat_runs), &full) };
        if !ok || !pages.last().map(|p| p.is_empty()).unwrap_or(false) {
            let (extra, missing) = diff(&flatten_runs(&cat_runs), &full, show_tx);
            let sig = if !missing.is_empty() {
                "get_transactions:grouped-pagination-omits"
            } else if !extra.is_empty() {
                "get_transactions:grouped-pagination-duplicates"
            } else {
                "get_transactions:grouped-pagination-regroups"
            };
            return Err(rvio(sig, q, at, format!("grouped pages {:?} differ from the one-shot answer ({} groups): extra={extra:?} missing={missing:?}", pages.iter().map(|p| p.len()).collect::<Vec<_>>(), one.len())));
        }
    }
    Ok(())
}

/// all answers of a fixed battery rendered to one string each (rollback-inverse comparison);
/// cells of one transaction are rendered sorted
pub fn rich_render_answers(h: &RichH, battery: &[Query]) -> Vec<String> {
    battery
        .iter()
        .map(|q| {
            let limit = if q.limit > 0 { q.limit } else { BIG_LIMIT };
            match q.kind {
                KIND_CELLS => match h.cells(q, q.desc, limit, 24) {
                    Ok(p) => format!("{:?}", p.iter().map(|pg| pg.iter().map(render_cell).collect::<Vec<_>>()).collect::<Vec<_>>()),
                    Err(e) => format!("err {e}"),
                },
                KIND_CAPACITY => match h.capacity(q) {
                    Ok(Some(c)) => format!("cap {} {} {}", c.0, c.1, short(&c.2)),
                    Ok(None) => "cap none".into(),
                    Err(e) => format!("cap err {e}"),
                },
                _ => {
                    let show_run = |r: &Run| format!("{}@{}.{} {:?}", short(&r.tx_hash), r.block_number, r.tx_index, r.cells);
                    match h.txs(q, q.desc, limit, 24) {
                        Ok(TxPages::Ungrouped(p)) => format!("{:?}", p.iter().map(|pg| runs_of(pg).iter().map(show_run).collect::<Vec<_>>()).collect::<Vec<_>>()),
                        Ok(TxPages::Grouped(p)) => format!("{:?}", p.iter().map(|pg| runs_of_groups(pg).iter().map(show_run).collect::<Vec<_>>()).collect::<Vec<_>>()),
                        Err(e) => format!("err {e}"),
                    }
                }
            }
        })
        .collect()
}

// ------------------------------------------------------------------------------------------------
// table dump (rollback inverse over the whole database)

/// The dump of the hook with script ids replaced by the script they name (ids of scripts first
/// seen in one transaction are handed out in hash-set order) and the script table as a set.
pub fn canonical_dump(idx: &VerifRichIndexer) -> Result<Vec<(String, Vec<String>)>, Violation> {
    let raw = idx.dump().map_err(|e| Violation::new("harness:rich-dump", e))?;
    let field = |row: &str, name: &str| -> Option<String> { row.split(' ').find_map(|kv| kv.strip_prefix(&format!("{name}=")).map(|v| v.to_string())) };
    let mut scripts: BTreeMap<String, String> = BTreeMap::new();
    for (t, rows) in &raw {
        if t == "script" {
            for r in rows {
                let id = field(r, "id").unwrap_or_default();
                let body: Vec<&str> = r.split(' ').filter(|kv| !kv.starts_with("id=")).collect();
                scripts.insert(id, body.join(","));
            }
        }
    }
    let mut out = vec![];
    for (t, rows) in raw {
        let mut rows: Vec<String> = match t.as_str() {
            "script" => rows.iter().map(|r| r.split(' ').filter(|kv| !kv.starts_with("id=")).collect::<Vec<_>>().join(" ")).collect(),
            "output" => rows
                .iter()
                .map(|r| {
                    r.split(' ')
                        .map(|kv| match kv.split_once('=') {
                            Some((k @ ("lock_script_id" | "type_script_id"), v)) if v != "NULL" => format!("{k}=<{}>", scripts.get(v).cloned().unwrap_or_else(|| format!("dangling:{v}"))),
                            _ => kv.to_string(),
                        })
                        .collect::<Vec<_>>()
                        .join(" ")
                })
                .collect(),
            _ => rows,
        };
        if t == "script" {
            rows.sort();
        }
        out.push((t, rows));
    }
    Ok(out)
}

pub fn dump_diff(a: &[(String, Vec<String>)], b: &[(String, Vec<String>)]) -> Option<(String, String)> {
    for ((ta, ra), (tb, rb)) in a.iter().zip(b.iter()) {
        if ta != tb {
            return Some(("tables".into(), format!("table list differs: {ta} / {tb}")));
        }
        if ra != rb {
            let sa: BTreeSet<&String> = ra.iter().collect();
            let sb: BTreeSet<&String> = rb.iter().collect();
            let lost: Vec<&&String> = sa.difference(&sb).take(3).collect();
            let left: Vec<&&String> = sb.difference(&sa).take(3).collect();
            let kind = if lost.is_empty() && !left.is_empty() {
                "rows-left-behind"
            } else if left.is_empty() && !lost.is_empty() {
                "rows-lost"
            } else if lost.is_empty() {
                "row-order"
            } else {
                "rows-changed"
            };
            return Some((format!("{ta}:{kind}"), format!("table {ta}: {} rows before, {} after; only before: {lost:?}; only after: {left:?}", ra.len(), rb.len())));
        }
    }
    if a.len() != b.len() {
        return Some(("tables".into(), "number of tables differs".into()));
    }
    None
}

// ------------------------------------------------------------------------------------------------
// block building (direct walk)

fn build_rich_block(number: u64, parent: &Byte32, salt: u64, cellbase: &[OutPlan], txs: Vec<TransactionView>, extra: &BlockExtra) -> BlockView {
    let mut cb = TransactionBuilder::default()
        .input(CellInput::new_cellbase_input(number))
        .witness(Bytes::from(salt.to_le_bytes().to_vec()).pack());
    for p in cellbase {
        let (o, d) = output_of(p);
        cb = cb.output(o).output_data(d.pack());
    }
    let mut bb = BlockBuilder::default()
        .number(number)
        .parent_hash(parent.clone())
        .timestamp(1_600_000_000_000u64 + number * 8000 + salt % 1000)
        .epoch(EpochNumberWithFraction::new(number / 1000, number % 1000, 1000))
        .transaction(cb.build());
    for tx in txs {
        bb = bb.transaction(tx);
    }
    let short_id = |a: u64, b: u64| {
        let mut v = [0u8; 10];
        v[..8].copy_from_slice(&(a.wrapping_mul(0x9e37_79b9).wrapping_add(b)).to_le_bytes());
        v[8] = b as u8;
        ProposalShortId::new(v)
    };
    if number > 0 {
        for j in 0..extra.proposals as u64 {
            bb = bb.proposal(short_id(salt, j));
        }
        for u in 0..extra.uncles as u64 {
            let uh = HeaderBuilder::default()
                .number(number.saturating_sub(1).max(1))
                .parent_hash(parent.clone())
                .timestamp(1_500_000_000_000u64 + salt * 16 + u)
                .epoch(EpochNumberWithFraction::new(number / 1000, number % 1000, 1000))
                .build();
            let mut ub = BlockBuilder::default().header(uh);
            for j in 0..((extra.proposals as u64 + u) % 3) {
                ub = ub.proposal(short_id(salt ^ 0xffff, 16 * u + j));
            }
            let uncle: UncleBlockView = ub.build_unchecked().as_uncle();
            bb = bb.uncle(uncle);
        }
    }
    bb.build()
}

/// attach the generated cell deps / header deps to the freshly planned transactions of a block
/// (re-committed transactions keep theirs): `created` = every out point created so far on any
/// branch, `headers` = hashes of the chain's blocks and their uncles
fn with_deps(txs: Vec<TransactionView>, fresh_from: usize, extra: &BlockExtra, created: &[(H32, u32)], headers: &[Byte32]) -> Vec<TransactionView> {
    if extra.cell_deps.is_empty() && extra.header_deps.is_empty() {
        return txs;
    }
    let n_fresh = txs.len() - fresh_from;
    if n_fresh == 0 {
        return txs;
    }
    let mut cds: Vec<Vec<CellDep>> = vec![vec![]; n_fresh];
    let mut hds: Vec<Vec<Byte32>> = vec![vec![]; n_fresh];
    for (j, sel) in extra.cell_deps.iter().enumerate() {
        let op = if sel & 7 == 7 || created.is_empty() {
            OutPoint::new(Byte32::new([0xee; 32]), (*sel >> 3) as u32)
        } else {
            let k = created[pick_idx(*sel as u32, created.len())];
            OutPoint::new(Byte32::from_slice(&k.0).unwrap(), k.1)
        };
        let dt = if sel & 1 == 0 { DepType::Code } else { DepType::DepGroup };
        cds[j % n_fresh].push(CellDep::new_builder().out_point(op).dep_type(dt).build());
    }
    for (j, sel) in extra.header_deps.iter().enumerate() {
        let hh = if sel & 7 == 7 || headers.is_empty() { Byte32::new([0xdd; 32]) } else { headers[pick_idx(*sel as u32, headers.len())].clone() };
        hds[j % n_fresh].push(hh);
    }
    txs.into_iter()
        .enumerate()
        .map(|(i, tx)| {
            if i < fresh_from {
                return tx;
            }
            let k = i - fresh_from;
            if cds[k].is_empty() && hds[k].is_empty() {
                return tx;
            }
            tx.as_advanced_builder().cell_deps(cds[k].clone()).header_deps(hds[k].clone()).build()
        })
        .collect()
}

/// like `checks::c18::build_txs` (same plan data, same choices), with dependencies attached to
/// the fresh transactions *before* later transactions of the block pick their outputs
fn build_rich_txs(
    state: &MState,
    plan: &BlockPlan,
    orphans: &[TransactionView],
    extra: &BlockExtra,
    created: &[(H32, u32)],
    headers: &[Byte32],
    labels: &mut BTreeMap<&'static str, u64>,
) -> Vec<TransactionView> {
    let mut avail: BTreeMap<(H32, u32), Option<u64>> = state.live.keys().map(|k| (*k, Some(state.live[k].block_number))).collect();
    let committed: BTreeSet<H32> = state.entries.iter().map(|e| e.tx_hash).collect();
    let mut in_block: BTreeSet<H32> = BTreeSet::new();
    let mut txs = vec![];
    for sel in &plan.replay {
        let cands: Vec<&TransactionView> = orphans
            .iter()
            .filter(|tx| {
                let h = h32(&tx.hash());
                !committed.contains(&h)
                    && !in_block.contains(&h)
                    && tx.inputs().into_iter().all(|i| {
                        let op = i.previous_output();
                        let idx: u32 = op.index().into();
                        avail.contains_key(&(h32(&op.tx_hash()), idx))
                    })
            })
            .collect();
        if cands.is_empty() {
            break;
        }
        let tx = cands[pick_idx(*sel as u32, cands.len())].clone();
        for i in tx.inputs().into_iter() {
            let op = i.previous_output();
            let idx: u32 = op.index().into();
            avail.remove(&(h32(&op.tx_hash()), idx));
        }
        let h = h32(&tx.hash());
        for j in 0..tx.outputs().len() {
            avail.insert((h, j as u32), None);
        }
        in_block.insert(h);
        *labels.entry("tx:re-committed-after-rollback").or_insert(0) += 1;
        txs.push(tx);
    }
    let n_plans = plan.txs.len().max(1);
    for (pi, tp) in plan.txs.iter().enumerate() {
        if avail.is_empty() {
            break;
        }
        let mut tb = TransactionBuilder::default();
        let mut n_in = 0;
        let mut same_block = false;
        for sel in &tp.inputs {
            if avail.is_empty() {
                break;
            }
            let k = *avail.keys().nth(pick_idx(*sel as u32, avail.len())).unwrap();
            let born = avail.remove(&k).unwrap();
            same_block |= born.is_none();
            tb = tb.input(CellInput::new(OutPoint::new(Byte32::from_slice(&k.0).unwrap(), k.1), 0));
            n_in += 1;
        }
        if n_in == 0 {
            break;
        }
        for p in &tp.outputs {
            let (o, d) = output_of(p);
            tb = tb.output(o).output_data(d.pack());
        }
        // dependencies of this transaction (dep j goes to plan j mod number of plans)
        let one = BlockExtra {
            uncles: 0,
            proposals: 0,
            cell_deps: extra.cell_deps.iter().enumerate().filter(|(j, _)| j % n_plans == pi).map(|(_, s)| *s).collect(),
            header_deps: extra.header_deps.iter().enumerate().filter(|(j, _)| j % n_plans == pi).map(|(_, s)| *s).collect(),
        };
        let tx = with_deps(vec![tb.build()], 0, &one, created, headers).pop().unwrap();
        if !one.cell_deps.is_empty() {
            *labels.entry("tx:with-cell-deps").or_insert(0) += 1;
        }
        if !one.header_deps.is_empty() {
            *labels.entry("tx:with-header-deps").or_insert(0) += 1;
        }
        let h = h32(&tx.hash());
        if committed.contains(&h) || in_block.contains(&h) {
            continue;
        }
        if same_block {
            *labels.entry("tx:spends-cell-created-in-same-block").or_insert(0) += 1;
        }
        for j in 0..tx.outputs().len() {
            avail.insert((h, j as u32), None);
        }
        in_block.insert(h);
        txs.push(tx);
    }
    txs
}

// ------------------------------------------------------------------------------------------------
// queries

/// resolve a generated query for the rich-indexer: every cell filter also applies to the
/// transaction RPC, and `partial` keys are slices of the args of a script that occurs
pub fn resolve_rich(qs: &QSel, seen: &Seen, m: &MState) -> Query {
    let mut q = resolve_query(qs, seen, m);
    if q.kind == KIND_TXS || q.kind == KIND_TXS_GROUPED {
        let mut as_cells = qs.clone();
        as_cells.kind = KIND_CELLS;
        q.filter = resolve_query(&as_cells, seen, m).filter;
    }
    if q.mode == MODE_PARTIAL {
        let raw = unhex(&q.script);
        if raw.len() > 34 && qs.edit < 6 {
            let args = &raw[33..];
            let i = pick_idx(qs.fsel[2] as u32, args.len());
            let j = i + 1 + pick_idx(qs.fsel[3] as u32, args.len() - i);
            let mut r = raw[..33].to_vec();
            r.extend_from_slice(&args[i..j.min(args.len())]);
            q.script = hexs(&r);
        }
    }
    q
}

/// The systematic battery: scripts touched by the last block (created or consumed there) plus
/// a rotating window of the others; per script the key itself and one derived key (one-byte
/// truncation / 0x00 extension / 0xff extension / inner slice for partial search).
pub fn rich_battery(seen: &Seen, touched: &BTreeSet<Vec<u8>>, rot: usize, full: bool) -> Vec<Query> {
    let mut out = vec![];
    let all: Vec<&Vec<u8>> = seen.scripts.iter().collect();
    let n = all.len();
    let mut pick: Vec<(usize, &Vec<u8>)> = vec![];
    for (i, s) in all.iter().enumerate() {
        let in_window = n > 0 && ((i + n - (rot * 3) % n) % n) < 3;
        if full || touched.contains(*s) || in_window {
            pick.push((i, s));
        }
    }
    for (i, s) in pick {
        let r = i + rot;
        let mut trunc = s.clone();
        if trunc.len() > 33 {
            trunc.pop();
        }
        let mut ext0 = s.clone();
        ext0.push(0);
        let mut extff = s.clone();
        extff.push(0xff);
        let inner = {
            let args = &s[33..];
            let mut k = s[..33].to_vec();
            if args.len() >= 2 {
                let a = r % (args.len() - 1);
                k.extend_from_slice(&args[a..a + 1 + (r / 3) % (args.len() - a)]);
            } else {
                k.extend_from_slice(args);
            }
            k
        };
        // (key, mode)
        let mut keys: Vec<(Vec<u8>, u8)> = vec![(s.clone(), MODE_DEFAULT), (s.clone(), MODE_EXACT)];
        let derived: Vec<(Vec<u8>, u8)> = vec![(trunc.clone(), MODE_PREFIX), (inner, MODE_PARTIAL), (ext0, MODE_DEFAULT), (trunc, MODE_PARTIAL), (extff, MODE_EXACT)];
        if full {
            keys.extend(derived);
        } else {
            keys.push(derived[r % derived.len()].clone());
            keys.push(derived[(r + 1 + rot % 3) % derived.len()].clone());
        }
        for (ki, (k, mode)) in keys.iter().enumerate() {
            for stype in 0..2u8 {
                let kinds: &[u8] = if full {
                    &[KIND_CELLS, KIND_TXS, KIND_TXS_GROUPED, KIND_CAPACITY]
                } else {
                    match (r + ki + stype as usize) % 3 {
                        0 => &[KIND_CELLS, KIND_CAPACITY],
                        1 => &[KIND_TXS, KIND_CELLS],
                        _ => &[KIND_TXS_GROUPED, KIND_CAPACITY],
                    }
                };
                for kind in kinds {
                    out.push(Query::simple(*kind, k, stype, *mode));
                }
            }
        }
    }
    out
}

fn touched_scripts(b: &BlockView, before: &MState) -> BTreeSet<Vec<u8>> {
    let mut t = BTreeSet::new();
    for (ti, tx) in b.transactions().iter().enumerate() {
        for (o, _) in tx.outputs_with_data_iter() {
            t.insert(raw_of(&o.lock()));
            if let Some(ty) = o.type_().to_opt() {
                t.insert(raw_of(&ty));
            }
        }
        if ti > 0 {
            for i in tx.inputs().into_iter() {
                let op = i.previous_output();
                let idx: u32 = op.index().into();
                if let Some(c) = before.live.get(&(h32(&op.tx_hash()), idx)) {
                    t.insert(c.lock_raw.clone());
                    if let Some(ty) = &c.type_raw {
                        t.insert(ty.clone());
                    }
                }
            }
        }
    }
    t
}

fn label_query(q: &Query, st: &mut Stats) {
    let kind = ["cells", "txs", "txs-grouped", "capacity"][q.kind as usize & 3];
    let mode = ["default", "prefix", "exact", "partial"][q.mode as usize & 3];
    st.label(&format!("rich:q:{kind}:{mode}"));
    if let Some(f) = &q.filter {
        let tx = q.kind == KIND_TXS || q.kind == KIND_TXS_GROUPED;
        let w = if tx { "txs" } else { "cells" };
        if f.script.is_some() {
            st.label(&format!("rich:filter:{w}:script"));
        }
        if f.script_len_range.is_some() {
            st.label(&format!("rich:filter:{w}:script_len_range"));
        }
        if let Some((_, m)) = &f.output_data {
            st.label(&format!("rich:filter:{w}:output_data:{}", ["default", "prefix", "exact", "partial"][*m as usize & 3]));
        }
        if f.data_len_range.is_some() {
            st.label(&format!("rich:filter:{w}:data_len_range"));
        }
        if f.capacity_range.is_some() {
            st.label(&format!("rich:filter:{w}:capacity_range"));
        }
        if f.block_range.is_some() {
            st.label(&format!("rich:filter:{w}:block_range"));
        }
    }
    if q.limit > 0 && q.kind != KIND_CAPACITY {
        st.label(&format!("rich:paged:{kind}:{}", if q.desc { "desc" } else { "asc" }));
    }
}

// ------------------------------------------------------------------------------------------------
// the walk

pub struct RichWalk {
    pub db: RichDb,
    pub chain: Vec<BlockView>,
    pub states: Vec<MState>,
    /// canonical table dump recorded when the chain had this length (sparse)
    pub dumps: BTreeMap<usize, Vec<(String, Vec<String>)>>,
    pub orphans: Vec<TransactionView>,
    pub seen: Seen,
    pub touched: BTreeSet<Vec<u8>>,
    pub created: Vec<(H32, u32)>,
    pub labels: BTreeMap<&'static str, u64>,
    pub salt: u64,
    pub step: usize,
    pub planned: usize,
    pub deep_consume_rolled_back: bool,
    pub nontrivial_query_after: bool,
    pub queries_run: u64,
}

impl RichWalk {
    pub fn new(file: bool) -> Result<RichWalk, Violation> {
        Ok(RichWalk {
            db: open_rich(file)?,
            chain: vec![],
            states: vec![],
            dumps: BTreeMap::new(),
            orphans: vec![],
            seen: Seen::default(),
            touched: BTreeSet::new(),
            created: vec![],
            labels: BTreeMap::new(),
            salt: 0,
            step: 0,
            planned: 0,
            deep_consume_rolled_back: false,
            nontrivial_query_after: false,
            queries_run: 0,
        })
    }

    fn state(&self) -> MState {
        self.states.last().cloned().unwrap_or_default()
    }

    fn lab(&mut self, l: &'static str) {
        *self.labels.entry(l).or_insert(0) += 1;
    }

    pub fn plan_block(&mut self, plan: &BlockPlan, cellbase: &[OutPlan], extras: &[BlockExtra]) -> BlockView {
        let st = self.state();
        let number = self.chain.len() as u64;
        let parent = self.chain.last().map(|b| b.hash()).unwrap_or_else(Byte32::zero);
        let none = BlockExtra {
            uncles: 0,
            proposals: 0,
            cell_deps: vec![],
            header_deps: vec![],
        };
        let extra = if extras.is_empty() || number == 0 { &none } else { &extras[self.planned % extras.len()] };
        self.planned += 1;
        let mut headers: Vec<Byte32> = vec![];
        for b in &self.chain {
            headers.push(b.hash());
            for u in b.uncles().into_iter() {
                headers.push(u.hash());
            }
        }
        let txs = if number == 0 { vec![] } else { build_rich_txs(&st, plan, &self.orphans, extra, &self.created, &headers, &mut self.labels) };
        self.salt += 1;
        if extra.uncles > 0 {
            self.lab("block:with-uncles");
        }
        if extra.proposals > 0 {
            self.lab("block:with-proposals");
        }
        build_rich_block(number, &parent, self.salt, cellbase, txs, extra)
    }

    fn append_raw(&mut self, b: &BlockView) -> Verdict {
        let before = self.state();
        let st = before.apply(b).map_err(|e| Violation::new("harness:model", e))?;
        self.db
            .idx
            .append(b)
            .map_err(|e| Violation::new("rich:append:error", format!("append of block {} failed: {e}", b.number())))?;
        self.seen.note_block(b);
        self.touched = touched_scripts(b, &before);
        for tx in b.transactions() {
            let h = h32(&tx.hash());
            for j in 0..tx.outputs().len() {
                if self.created.len() < 4096 {
                    self.created.push((h, j as u32));
                }
            }
        }
        self.chain.push(b.clone());
        self.states.push(st);
        Ok(())
    }

    fn rollback_raw(&mut self, reorg: bool) -> Verdict {
        let b = self.chain.pop().expect("non-empty chain");
        self.states.pop().unwrap();
        let before = self.state();
        for tx in b.transactions().iter().skip(1) {
            for i in tx.inputs().into_iter() {
                let op = i.previous_output();
                let idx: u32 = op.index().into();
                if let Some(c) = before.live.get(&(h32(&op.tx_hash()), idx)) {
                    if reorg && c.block_number + 2 <= b.number() {
                        self.deep_consume_rolled_back = true;
                    }
                }
            }
            self.orphans.push(tx.clone());
        }
        self.touched = touched_scripts(&b, &before);
        self.db
            .idx
            .rollback()
            .map_err(|e| Violation::new("rich:rollback:error", format!("rollback of block {} failed: {e}", b.number())))?;
        Ok(())
    }

    pub fn check_here(&mut self, at: &str, extra: &[QSel], st: &mut Stats, full: bool) -> Verdict {
        let m = self.state();
        rich_check_tip(&self.db.h, &m, at)?;
        let mut qs = rich_battery(&self.seen, &self.touched, self.step, full);
        for q in extra {
            let q = resolve_rich(q, &self.seen, &m);
            label_query(&q, st);
            qs.push(q);
        }
        for q in &qs {
            rich_check_query(&self.db.h, &m, q, at, st)?;
            self.queries_run += 1;
            if self.deep_consume_rolled_back && (q.mode == MODE_DEFAULT || q.mode == MODE_PREFIX) && self.seen.strict_prefix_of_another(&unhex(&q.script)) {
                self.nontrivial_query_after = true;
            }
        }
        Ok(())
    }

    fn record_dump(&mut self) -> Verdict {
        let d = canonical_dump(&self.db.idx)?;
        self.dumps.insert(self.chain.len(), d);
        Ok(())
    }

    /// the whole database must be what it was when the chain last had this length
    fn compare_dump(&mut self, at: &str, clause: &str) -> Verdict {
        if let Some(old) = self.dumps.get(&self.chain.len()) {
            let now = canonical_dump(&self.db.idx)?;
            if let Some((what, detail)) = dump_diff(old, &now) {
                vfail!(format!("rich:{clause}:tables-differ {what}"), "{at}: {detail}");
            }
            self.lab("dump:compared");
        }
        Ok(())
    }

    /// append with the rollback-inverse probe
    pub fn append(&mut self, b: &BlockView, probe: bool, extra: &[QSel], st: &mut Stats) -> Verdict {
        self.step += 1;
        let at = format!("step {} after append of block {}", self.step, b.number());
        if !probe {
            self.append_raw(b)?;
            // the recorded dumps above this height belong to a branch that is gone
            let len = self.chain.len();
            self.dumps.retain(|k, _| *k < len);
            return self.check_here(&at, extra, st, false);
        }
        let m0 = self.state();
        let mut touched_next = touched_scripts(b, &m0);
        touched_next.extend(self.touched.iter().cloned());
        let mut bat = rich_battery(&self.seen, &touched_next, self.step, false);
        for q in extra {
            bat.push(resolve_rich(q, &self.seen, &m0));
        }
        let before = rich_render_answers(&self.db.h, &bat);
        self.record_dump()?;
        self.append_raw(b)?;
        let len = self.chain.len();
        self.dumps.retain(|k, _| *k < len);
        self.check_here(&at, extra, st, false)?;
        let post = rich_render_answers(&self.db.h, &bat);
        let dump_post = canonical_dump(&self.db.idx)?;
        self.rollback_raw(false)?;
        self.orphans.truncate(self.orphans.len() - (b.transactions().len() - 1));
        let at2 = format!("step {} after append+rollback of block {}", self.step, b.number());
        rich_check_tip(&self.db.h, &self.state(), &at2)?;
        let after = rich_render_answers(&self.db.h, &bat);
        for (i, q) in bat.iter().enumerate() {
            if before[i] != after[i] {
                vfail!("rich:rollback-inverse:answer-differs-after-append-rollback", "{at2}: {}: before append: {} / after rollback: {}", q.show(), clip(&before[i]), clip(&after[i]));
            }
        }
        self.compare_dump(&at2, "rollback-inverse")?;
        self.lab("probe:append-rollback-append");
        self.append_raw(b)?;
        let at3 = format!("step {} after append+rollback+append of block {}", self.step, b.number());
        let again = rich_render_answers(&self.db.h, &bat);
        for (i, q) in bat.iter().enumerate() {
            if post[i] != again[i] {
                vfail!("rich:rollback-inverse:re-append-differs", "{at3}: {}: first append: {} / re-append: {}", q.show(), clip(&post[i]), clip(&again[i]));
            }
        }
        if let Some((what, detail)) = dump_diff(&dump_post, &canonical_dump(&self.db.idx)?) {
            vfail!(format!("rich:rollback-inverse:re-append-tables-differ {what}"), "{at3}: {detail}");
        }
        rich_check_tip(&self.db.h, &self.state(), &at3)
    }

    pub fn rollback(&mut self, extra: &[QSel], st: &mut Stats, last: bool) -> Verdict {
        self.step += 1;
        let n = self.chain.len() - 1;
        self.rollback_raw(true)?;
        let at = format!("step {} after rollback of block {}", self.step, n);
        self.check_here(&at, extra, st, false)?;
        if last {
            self.compare_dump(&at, "reorg-rollback")?;
        }
        Ok(())
    }
}

pub fn prop_rich(_ctx: &Ctx, c: &RichCase, st: &mut Stats) -> Verdict {
    install_panic_recorder();
    // development aid (never part of a verdict): VERIF_C18_RICH_TIMING=1 prints the cost of a case
    let t0 = std::time::Instant::now();
    let r = prop_rich_inner(c, st);
    if std::env::var_os("VERIF_C18_RICH_TIMING").is_some() {
        eprintln!("rich case: {:?} ops={} db={} ok={}", t0.elapsed(), c.base.ops.len(), c.db, r.is_ok());
    }
    r
}

fn prop_rich_inner(c: &RichCase, st: &mut Stats) -> Verdict {
    let mut w = RichWalk::new(c.db == 1)?;
    let base = &c.base;
    let g = w.plan_block(&BlockPlan { cellbase: vec![], txs: vec![], replay: vec![] }, &base.genesis, &[]);
    w.append(&g, false, &[], st)?;
    let nq = base.queries.len().max(1);
    let mut reorgs = 0u64;
    let mut max_depth = 0u64;
    for (oi, op) in base.ops.iter().enumerate() {
        let lo = (oi * 3) % nq;
        let extra: Vec<QSel> = base.queries.iter().cycle().skip(lo).take(3.min(base.queries.len())).cloned().collect();
        match op {
            Op::Append { block, probe } => {
                let b = w.plan_block(block, &block.cellbase, &c.extra);
                w.append(&b, *probe, &extra, st)?;
            }
            Op::Reorg { depth, blocks } => {
                // no retention bound: any depth down to (not including) the genesis block
                let tip = w.chain.len() as u64 - 1;
                let d = (*depth as u64 * c.deep.max(1) as u64).min(tip);
                if d > 0 {
                    reorgs += 1;
                    max_depth = max_depth.max(d);
                    // remember the database at the fork point's height if this walk passed there
                    // without a probe: only heights recorded earlier are compared
                }
                for k in 0..d {
                    w.rollback(&extra, st, k + 1 == d)?;
                }
                for bp in blocks {
                    let b = w.plan_block(bp, &bp.cellbase, &c.extra);
                    w.append(&b, false, &extra, st)?;
                }
            }
        }
        // record the database every few steps so that later reorganisations can be compared
        if oi % 2 == 0 {
            w.record_dump()?;
        }
    }
    let tq = std::time::Instant::now();
    let q0 = w.queries_run;
    w.check_here("final state", &base.queries, st, true)?;
    if std::env::var_os("VERIF_C18_RICH_TIMING").is_some() {
        eprintln!("rich final battery: {} queries in {:?}; before: {} queries, {} steps, {} dumps", w.queries_run - q0, tq.elapsed(), q0, w.step, w.labels.get("dump:compared").copied().unwrap_or(0));
    }
    st.label_n("rich:queries-run", w.queries_run);
    for (l, n) in &w.labels {
        st.label_n(&format!("rich:{l}"), *n);
    }
    st.label(&format!("rich:reorgs:{}", reorgs.min(4)));
    st.label(&format!("rich:max-rollback-depth:{}", match max_depth { 0..=6 => format!("{max_depth}"), 7..=9 => "7-9".into(), _ => "10+".into() }));
    st.label(if c.db == 1 { "rich:db:file" } else { "rich:db:memory" });
    if w.deep_consume_rolled_back {
        st.label("rich:rolled-back-block-consumed-cell-2+-blocks-old");
    }
    let m = w.state();
    st.label(&format!("rich:final-live-cells:{}", match m.live.len() { 0..=9 => "<10", 10..=29 => "10-29", _ => "30+" }));
    if w.deep_consume_rolled_back && w.nontrivial_query_after {
        st.nontrivial(&("rich", c));
    }
    if st.want_sample() {
        st.sample(|| json!({"sub": "rich", "db": if c.db == 1 { "file" } else { "memory" }, "ops": base.ops.len(), "tip": m.tip.map(|t| t.0), "live_cells": m.live.len(), "entries": m.entries.len(), "scripts_seen": w.seen.scripts.len(), "queries_run": w.queries_run, "reorgs": reorgs, "max_depth": max_depth}));
    }
    Ok(())
}

// ------------------------------------------------------------------------------------------------
// rich-node: real node + real sync loop step

#[derive(Clone, Debug, Serialize, Deserialize)]
pub struct RichNodeCase {
    pub plan: TreePlan,
    pub queries: Vec<QSel>,
    pub db: u8,
}

/// Block steps arranged so that reorganisations are the rule: stretches on the best tip, then a
/// fork from a recent block that is extended (`parent_mode` 1 with the last selector = the leaf
/// created last) until it may overtake the main chain; some steps stay as generated.
pub fn rich_node_case_strategy(max_blocks: usize) -> impl Strategy<Value = RichNodeCase> {
    (
        proptest::collection::vec((node_block_step(), prop_oneof![3 => Just(0u8), 1 => 1u8..=2], any::<u16>(), 0u8..10), 8..=max_blocks),
        proptest::collection::vec(rich_qsel_strategy(), 4..=16),
        prop_oneof![1 => Just(0u8), 1 => Just(1u8)],
    )
        .prop_map(|(steps, queries, db)| {
            let mut rival_left = 0u16;
            RichNodeCase {
                plan: TreePlan {
                    steps: steps
                        .into_iter()
                        .map(|(mut s, uncles, sel, ctl)| {
                            s.uncles = uncles;
                            s.uncle_sel = sel;
                            if rival_left > 0 {
                                rival_left -= 1;
                                s.parent_mode = 1;
                                s.parent = 0xffff;
                            } else {
                                match ctl {
                                    0..=4 => s.parent_mode = 0,
                                    5..=7 => {
                                        s.parent_mode = 2;
                                        s.parent = sel.rotate_left(5);
                                        rival_left = (sel >> 3) % 6 + 1;
                                    }
                                    _ => {}
                                }
                            }
                            s
                        })
                        .collect(),
                },
                queries,
                db,
            }
        })
}

/// `try_loop_sync` retries a failing append for ever: the adapter turns the third consecutive
/// failure into a panic that the check reports with the error text
#[derive(Clone)]
struct Guarded {
    inner: VerifRichIndexer,
    fails: Arc<AtomicU32>,
    last_err: Arc<Mutex<Option<String>>>,
}

impl IndexerSync for Guarded {
    fn tip(&self) -> Result<Option<(BlockNumber, Byte32)>, SyncError> {
        let r = IndexerSync::tip(&self.inner);
        if let Err(e) = &r {
            *self.last_err.lock().unwrap() = Some(format!("tip: {e}"));
            if self.fails.fetch_add(1, Ordering::SeqCst) >= 2 {
                panic!("verif: indexer tip keeps failing");
            }
        }
        r
    }
    fn append(&self, block: &BlockView) -> Result<(), SyncError> {
        let r = IndexerSync::append(&self.inner, block);
        match &r {
            Ok(()) => self.fails.store(0, Ordering::SeqCst),
            Err(e) => {
                *self.last_err.lock().unwrap() = Some(format!("append of block {}: {e}", block.number()));
                if self.fails.fetch_add(1, Ordering::SeqCst) >= 2 {
                    panic!("verif: indexer append keeps failing");
                }
            }
        }
        r
    }
    fn rollback(&self) -> Result<(), SyncError> {
        let r = IndexerSync::rollback(&self.inner);
        if let Err(e) = &r {
            *self.last_err.lock().unwrap() = Some(format!("rollback: {e}"));
        }
        r
    }
    fn get_identity(&self) -> &str {
        self.inner.get_identity()
    }
    fn set_init_tip(&self, n: u64, h: &H256) {
        self.inner.set_init_tip(n, h)
    }
}

pub fn prop_rich_node(_ctx: &Ctx, c: &RichNodeCase, st: &mut Stats) -> Verdict {
    let env = node_env();
    let mut interp = Interp::new(env);
    interp.tx_builder = Some(node_build_tx);
    interp.spendable_filter = Some(node_spendable);
    let built = interp.run(&c.plan);
    let tree = &built.tree;
    install_panic_recorder();
    clear_panics();
    let dir = scratch("c18rn-");
    let node = Node::start(
        env,
        NodeCfg {
            dir: Some(dir.path().join("node")),
            ..Default::default()
        },
    )
    .map_err(|e| Violation::new("harness:node-start", e))?;
    let sync_cfg = IndexerSyncConfig {
        secondary_path: dir.path().join("secondary"),
        poll_interval: 2,
        index_tx_pool: false,
    };
    let db_cfg = DBConfig {
        path: node.dir.join("db"),
        ..Default::default()
    };
    let sdb = new_secondary_db(&db_cfg, &sync_cfg);
    let sync = IndexerSyncService::new(sdb, PoolService::new(false, node.handle.clone()), &sync_cfg, node.handle.clone(), None);
    let db = open_rich(c.db == 1)?;
    let guarded = Guarded {
        inner: db.idx.clone(),
        fails: Arc::new(AtomicU32::new(0)),
        last_err: Arc::new(Mutex::new(None)),
    };

    let mut states: BTreeMap<H32, MState> = BTreeMap::new();
    let genesis = tree.get(&tree.genesis).block.clone();
    states.insert(h32(&tree.genesis), MState::default().apply(&genesis).map_err(|e| Violation::new("harness:model", e))?);
    let mut seen = Seen::default();
    seen.note_block(&genesis);
    let mut touched: BTreeSet<Vec<u8>> = BTreeSet::new();
    let mut queries_run = 0u64;
    let mut deep = false;
    let mut nontrivial_q = false;
    let mut reorgs = 0u64;
    let mut max_depth = 0u64;
    let mut behind = 0u64;
    let mut uncles_indexed = 0u64;
    let nq = c.queries.len().max(1);
    let mut last_tip: Option<H> = None;
    for (bi, h) in built.blocks.iter().enumerate() {
        let mb = tree.get(h);
        let pst = states.get(&h32(&mb.parent)).cloned().ok_or_else(|| Violation::new("harness:model", "parent state missing"))?;
        states.insert(h32(h), pst.apply(&mb.block).map_err(|e| Violation::new("harness:model", e))?);
        seen.note_block(&mb.block);
        match node.process(&mb.block) {
            Ok(_) => {}
            Err(e) => vfail!("harness:node-rejected-model-block", "block {} #{}: {e}", h, mb.number),
        }
        let old_tip = db.idx.tip().map_err(|e| Violation::new("rich:tip:error", e.to_string()))?;
        let node_tip = node.shared.snapshot().tip_hash();
        touched.clear();
        if let Some((_, oh)) = &old_tip {
            if !tree.is_ancestor(oh, &node_tip) && *oh != node_tip {
                let mut cur: H = oh.clone();
                let mut d = 0u64;
                while !(tree.is_ancestor(&cur, &node_tip) || cur == node_tip) {
                    let b = tree.get(&cur);
                    let before = &states[&h32(&b.parent)];
                    for tx in b.block.transactions().iter().skip(1) {
                        for i in tx.inputs().into_iter() {
                            if let Some(cell) = before.live.get(&cell_key(&i.previous_output())) {
                                if cell.block_number + 2 <= b.number {
                                    deep = true;
                                }
                            }
                        }
                    }
                    touched.extend(touched_scripts(&b.block, before));
                    d += 1;
                    cur = b.parent.clone();
                }
                reorgs += 1;
                max_depth = max_depth.max(d);
            }
        }
        let r = std::panic::catch_unwind(std::panic::AssertUnwindSafe(|| sync.verif_try_loop_sync(guarded.clone())));
        if r.is_err() {
            let e = guarded.last_err.lock().unwrap().clone().unwrap_or_default();
            if e.is_empty() {
                vfail!("rich:sync-loop:panicked", "try_loop_sync panicked after block {} #{}", h, mb.number);
            }
            vfail!("rich:sync-loop:indexer-call-keeps-failing", "after block {} #{}: {e}", h, mb.number);
        }
        node_panic_violation()?;
        let itip = db.idx.tip().map_err(|e| Violation::new("rich:tip:error", e.to_string()))?;
        let (in_, ih) = match itip {
            Some(t) => t,
            None => vfail!("rich:sync-loop:no-tip-after-sync", "indexer has no tip after a sync step"),
        };
        let at = format!("after block {} (#{} created {bi}) node tip #{} indexer tip #{}", h, mb.number, tree.get(&node_tip).number, in_);
        if ih != node_tip {
            let nt = tree.get(&node_tip).number;
            if nt > in_ {
                vfail!("rich:sync-loop:not-caught-up", "{at}: node tip is higher but the sync step stopped");
            }
            if node.shared.snapshot().get_block_hash(in_ + 1).is_some() {
                vfail!("rich:sync-loop:not-caught-up", "{at}: main chain has block {} but the sync step stopped", in_ + 1);
            }
            behind += 1;
        }
        let m = match states.get(&h32(&ih)) {
            Some(m) => m.clone(),
            None => vfail!("rich:sync-loop:tip-unknown-block", "{at}: indexer tip is not a block of the tree"),
        };
        if last_tip.as_ref() != Some(&ih) {
            let b = tree.get(&ih);
            touched.extend(touched_scripts(&b.block, &states[&h32(&b.parent)]));
            uncles_indexed += b.block.uncles().hashes().len() as u64;
            last_tip = Some(ih.clone());
        }
        rich_check_tip(&db.h, &m, &at)?;
        let mut qs = rich_battery(&seen, &touched, bi, false);
        let lo = (bi * 2) % nq;
        for q in c.queries.iter().cycle().skip(lo).take(2.min(c.queries.len())) {
            let q = resolve_rich(q, &seen, &m);
            label_query(&q, st);
            qs.push(q);
        }
        for q in &qs {
            rich_check_query(&db.h, &m, q, &at, st)?;
            queries_run += 1;
            if deep && (q.mode == MODE_DEFAULT || q.mode == MODE_PREFIX) && seen.strict_prefix_of_another(&unhex(&q.script)) {
                nontrivial_q = true;
            }
        }
    }
    if let Some((_, ih)) = db.idx.tip().map_err(|e| Violation::new("rich:tip:error", e.to_string()))? {
        let m = states[&h32(&ih)].clone();
        let mut qs = rich_battery(&seen, &BTreeSet::new(), 0, true);
        for q in &c.queries {
            qs.push(resolve_rich(q, &seen, &m));
        }
        for q in &qs {
            rich_check_query(&db.h, &m, q, "final state", st)?;
            queries_run += 1;
        }
        st.label(&format!("rich-node:final-live-cells:{}", match m.live.len() { 0..=39 => "<40", 40..=79 => "40-79", _ => "80+" }));
    }
    drop(sync);
    node.stop();
    st.label_n("rich-node:queries-run", queries_run);
    st.label(&format!("rich-node:reorgs:{}", reorgs.min(4)));
    st.label(&format!("rich-node:max-rollback-depth:{}", match max_depth { 0..=6 => format!("{max_depth}"), _ => "7+".into() }));
    st.label_n("rich-node:indexer-behind-not-longer-heavier-chain", behind);
    st.label_n("rich-node:uncles-of-indexed-blocks", uncles_indexed);
    st.label(if c.db == 1 { "rich-node:db:file" } else { "rich-node:db:memory" });
    for (l, n) in &built.labels {
        if l.starts_with("block:with-commits") || l.starts_with("step:") {
            st.label_n(&format!("rich-node:{l}"), *n);
        }
    }
    if deep {
        st.label("rich-node:rolled-back-block-consumed-cell-2+-blocks-old");
    }
    if deep && nontrivial_q {
        st.nontrivial(&("rich-node", serde_json::to_string(c).unwrap_or_default()));
    }
    if st.want_sample() {
        st.sample(|| json!({"sub": "rich-node", "db": c.db, "blocks": built.blocks.len(), "reorgs": reorgs, "max_depth": max_depth, "queries_run": queries_run, "scripts_seen": seen.scripts.len()}));
    }
    Ok(())
}
