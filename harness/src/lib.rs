pub mod checks;
pub mod common;
pub mod plan;
pub mod model;
pub mod node;
