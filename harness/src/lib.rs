pub mod checks;
pub mod common;
