//! Replay-consistency oracle (C02, reused by others): the node's canonical-chain view inside one
//! `Snapshot` must equal the reference model's replay of that snapshot's main chain — both
//! directions (nothing missing, nothing extra) through full column scans.
use crate::common::*;
use crate::model::*;
use crate::vfail;
use ckb_db::iter::IteratorMode;
use ckb_db_schema::{
    COLUMN_CELL, COLUMN_CELL_DATA, COLUMN_CELL_DATA_HASH, COLUMN_INDEX, COLUMN_META, COLUMN_TRANSACTION_INFO,
    COLUMN_UNCLES, Col, META_CURRENT_EPOCH_KEY, META_TIP_HEADER_KEY,
};
use ckb_snapshot::Snapshot;
use ckb_store::ChainStore;
use ckb_types::{core::HeaderView, packed, prelude::*};
use std::collections::BTreeMap;

pub fn scan<S: ChainStore>(s: &S, col: Col) -> BTreeMap<Vec<u8>, Vec<u8>> {
    s.get_iter(col, IteratorMode::Start)
        .map(|(k, v)| (k.to_vec(), v.to_vec()))
        .collect()
}

fn cell_key_bytes(k: &CellKey) -> Vec<u8> {
    let mut v = k.0.to_vec();
    v.extend_from_slice(&k.1.to_be_bytes());
    v
}

/// Compare one snapshot with the model state of its own tip.  `where_` names the observation point.
pub fn check_snapshot(snap: &Snapshot, tree: &Tree, where_: &str, st: &mut Stats) -> Verdict {
    let tip = snap.tip_hash();
    let Some(mtip) = tree.blocks.get(&tip) else {
        vfail!("state:tip-unknown-to-model", "{where_}: snapshot tip {tip} is not a block of the generated tree");
    };
    // --- snapshot self-consistency.  `Snapshot` answers get_tip_header / get_current_epoch_ext
    // from its own fields, so the persisted records (what the next start loads) are read raw.
    let stored_tip = snap
        .get(COLUMN_META, META_TIP_HEADER_KEY)
        .map(|raw| packed::Byte32Reader::from_slice_should_be_ok(raw.as_ref()).to_entity());
    if stored_tip != Some(tip.clone()) {
        vfail!(
            "snapshot:tip-header-differs-from-stored-tip",
            "{where_}: snapshot.tip_header() = {tip} but the stored tip record is {:?}",
            stored_tip
        );
    }
    let ext = snap.get_block_ext(&tip);
    if ext.as_ref().map(|e| &e.total_difficulty) != Some(snap.total_difficulty()) {
        vfail!(
            "snapshot:total-difficulty-differs-from-tip-ext",
            "{where_}: snapshot TD {:#x} vs ext {:?}",
            snap.total_difficulty(),
            ext.map(|e| e.total_difficulty)
        );
    }
    let stored_epoch: Option<ckb_types::core::EpochExt> = snap
        .get(COLUMN_META, META_CURRENT_EPOCH_KEY)
        .map(|raw| packed::EpochExtReader::from_slice_should_be_ok(raw.as_ref()).into());
    if stored_epoch.as_ref() != Some(snap.epoch_ext()) {
        vfail!(
            "snapshot:epoch-ext-differs-from-stored-current-epoch",
            "{where_}: snapshot.epoch_ext() = {:?} but the stored current-epoch record is {:?}",
            snap.epoch_ext(),
            stored_epoch
        );
    }
    if snap.epoch_ext() != &mtip.epoch {
        vfail!(
            "state:current-epoch-ext",
            "{where_}: current epoch ext {:?} but the model's epoch of tip #{} is {:?}",
            snap.epoch_ext(),
            mtip.number,
            mtip.epoch
        );
    }
    if snap.total_difficulty() != &mtip.td {
        vfail!("state:total-difficulty", "{where_}: TD {:#x} vs model {:#x}", snap.total_difficulty(), mtip.td);
    }
    let path = tree.path(&tip);
    let state = &mtip.state;

    // --- number <-> hash index: exactly the main chain
    let index = scan(snap, COLUMN_INDEX);
    let mut want_index: BTreeMap<Vec<u8>, Vec<u8>> = BTreeMap::new();
    for b in &path {
        let n: packed::Uint64 = b.number.into();
        want_index.insert(n.as_slice().to_vec(), b.hash.as_slice().to_vec());
        want_index.insert(b.hash.as_slice().to_vec(), n.as_slice().to_vec());
    }
    diff_maps("index", &index, &want_index, where_)?;

    // --- live cells
    let cells = scan(snap, COLUMN_CELL);
    let datas = scan(snap, COLUMN_CELL_DATA);
    let hashes = scan(snap, COLUMN_CELL_DATA_HASH);
    let mut want_cells = BTreeMap::new();
    let mut want_datas = BTreeMap::new();
    let mut want_hashes = BTreeMap::new();
    for (k, c) in state.live.iter() {
        let key = cell_key_bytes(k);
        let entry = packed::CellEntryBuilder::default()
            .output(c.output.clone())
            .block_hash(c.block_hash.clone())
            .block_number(c.block_number)
            .block_epoch(c.block_epoch)
            .index(c.tx_index)
            .data_size(c.data.len() as u64)
            .build();
        want_cells.insert(key.clone(), entry.as_slice().to_vec());
        if c.data.is_empty() {
            want_datas.insert(key.clone(), vec![]);
            want_hashes.insert(key, vec![]);
        } else {
            let dh = packed::CellOutput::calc_data_hash(&c.data);
            let de = packed::CellDataEntryBuilder::default()
                .output_data(c.data.clone())
                .output_data_hash(dh.clone())
                .build();
            want_datas.insert(key.clone(), de.as_slice().to_vec());
            want_hashes.insert(key, dh.as_slice().to_vec());
        }
    }
    diff_maps("live-cells", &cells, &want_cells, where_)?;
    diff_maps("cell-data", &datas, &want_datas, where_)?;
    diff_maps("cell-data-hash", &hashes, &want_hashes, where_)?;

    // --- transaction location index
    let infos = scan(snap, COLUMN_TRANSACTION_INFO);
    let mut want_infos = BTreeMap::new();
    for (txh, (bh, bn, idx)) in state.tx_index.iter() {
        let epoch = tree.get(bh).block.epoch();
        let key = packed::TransactionKey::new_builder()
            .block_hash(bh.clone())
            .index(*idx)
            .build();
        let info = packed::TransactionInfo::new_builder()
            .key(key)
            .block_number(*bn)
            .block_epoch(epoch)
            .build();
        want_infos.insert(txh.to_vec(), info.as_slice().to_vec());
    }
    diff_maps("tx-info", &infos, &want_infos, where_)?;

    // --- included uncles
    let uncles = scan(snap, COLUMN_UNCLES);
    let mut want_uncles = BTreeMap::new();
    for b in &path {
        for u in b.block.uncles().into_iter() {
            let hv: packed::HeaderView = u.header().into();
            want_uncles.insert(u.hash().as_slice().to_vec(), hv.as_slice().to_vec());
        }
    }
    diff_maps("uncles", &uncles, &want_uncles, where_)?;

    // --- per-block records on the main chain
    for b in &path {
        let Some(e) = snap.get_block_ext(&b.hash) else {
            vfail!("state:block-ext-missing", "{where_}: main-chain block #{} has no ext", b.number);
        };
        if b.number > 0 {
            if e.verified != Some(true) {
                vfail!("state:block-ext-not-verified", "{where_}: main-chain block #{} verified={:?}", b.number, e.verified);
            }
            let fees: Vec<u64> = e.txs_fees.iter().map(|c| c.as_u64()).collect();
            if fees != b.txs_fees {
                vfail!("state:block-ext-fees", "{where_}: block #{} txs_fees {:?} vs model {:?}", b.number, fees, b.txs_fees);
            }
            let sizes: Vec<u64> = b
                .block
                .transactions()
                .iter()
                .map(|t| t.data().serialized_size_in_block() as u64)
                .collect();
            if e.txs_sizes.as_ref() != Some(&sizes) {
                vfail!("state:block-ext-sizes", "{where_}: block #{} txs_sizes {:?} vs model {:?}", b.number, e.txs_sizes, sizes);
            }
            match &e.cycles {
                Some(c) if c.len() == b.txs_fees.len() => {}
                other => vfail!("state:block-ext-cycles", "{where_}: block #{} cycles {:?} for {} txs", b.number, other, b.txs_fees.len()),
            }
        }
        if e.total_difficulty != b.td || e.total_uncles_count != b.total_uncles {
            vfail!(
                "state:block-ext-accumulators",
                "{where_}: block #{} ext TD {:#x} uncles {} vs model TD {:#x} uncles {}",
                b.number,
                e.total_difficulty,
                e.total_uncles_count,
                b.td,
                b.total_uncles
            );
        }
        let ep = snap
            .get_block_epoch_index(&b.hash)
            .and_then(|i| snap.get_epoch_ext(&i));
        if ep.as_ref() != Some(&b.epoch) {
            vfail!("state:block-epoch-record", "{where_}: block #{} epoch record {:?} vs model {:?}", b.number, ep, b.epoch);
        }
    }

    // --- chain-root MMR up to the tip
    let root = snap
        .chain_root_mmr(mtip.number)
        .get_root()
        .map_err(|e| Violation::new("state:mmr-root-unavailable", format!("{where_}: {e}")))?;
    let peaks: Vec<(u32, packed::HeaderDigest)> = mtip
        .mmr_peaks
        .iter()
        .map(|d| {
            let s: u64 = d.start_number().into();
            let e: u64 = d.end_number().into();
            ((e - s + 1).trailing_zeros(), d.clone())
        })
        .collect();
    let want_root = mmr_root(&peaks).unwrap();
    if root.as_slice() != want_root.as_slice() {
        vfail!("state:mmr-root", "{where_}: chain root MMR over 0..={} differs from the model's", mtip.number);
    }
    st.label("state-check:full-scan");
    Ok(())
}

fn diff_maps(what: &str, got: &BTreeMap<Vec<u8>, Vec<u8>>, want: &BTreeMap<Vec<u8>, Vec<u8>>, where_: &str) -> Verdict {
    for (k, v) in want {
        match got.get(k) {
            None => vfail!(
                format!("state:{what}:missing-entry"),
                "{where_}: {what}: entry {} of the main-chain replay is missing in the store",
                hex(&k[..k.len().min(36)])
            ),
            Some(g) if g != v => vfail!(
                format!("state:{what}:wrong-value"),
                "{where_}: {what}: entry {} differs: store {} model {}",
                hex(&k[..k.len().min(36)]),
                hex(&g[..g.len().min(48)]),
                hex(&v[..v.len().min(48)])
            ),
            _ => {}
        }
    }
    for k in got.keys() {
        if !want.contains_key(k) {
            vfail!(
                format!("state:{what}:extra-entry"),
                "{where_}: {what}: store has entry {} that the main-chain replay does not produce",
                hex(&k[..k.len().min(36)])
            );
        }
    }
    Ok(())
}

/// raw equality of the canonical-chain columns of two stores (reorged node vs linear replay)
pub fn compare_stores(a: &Snapshot, b: &Snapshot, tree: &Tree, where_: &str) -> Verdict {
    for (name, col) in [
        ("index", COLUMN_INDEX),
        ("live-cells", COLUMN_CELL),
        ("cell-data", COLUMN_CELL_DATA),
        ("cell-data-hash", COLUMN_CELL_DATA_HASH),
        ("tx-info", COLUMN_TRANSACTION_INFO),
        ("uncles", COLUMN_UNCLES),
    ] {
        let ma = scan(a, col);
        let mb = scan(b, col);
        if ma != mb {
            diff_maps(&format!("twin:{name}"), &ma, &mb, where_)?;
        }
    }
    let tip = a.tip_hash();
    if tip != b.tip_hash() {
        vfail!("twin:tip", "{where_}: tips differ {} vs {}", tip, b.tip_hash());
    }
    for (name, key) in [("tip-record", META_TIP_HEADER_KEY), ("current-epoch-record", META_CURRENT_EPOCH_KEY)] {
        let ra = a.get(COLUMN_META, key).map(|v| v.as_ref().to_vec());
        let rb = b.get(COLUMN_META, key).map(|v| v.as_ref().to_vec());
        if ra != rb {
            vfail!(
                format!("twin:{name}"),
                "{where_}: persisted {name} differs between the reorged node and the linear replay: {:?} vs {:?}",
                ra.map(|v| hex(&v)),
                rb.map(|v| hex(&v))
            );
        }
    }
    for blk in tree.path(&tip) {
        let ea = a.get_block_ext(&blk.hash);
        let eb = b.get_block_ext(&blk.hash);
        let strip = |e: Option<ckb_types::core::BlockExt>| {
            e.map(|e| (e.total_difficulty, e.total_uncles_count, e.verified, e.txs_fees, e.cycles, e.txs_sizes))
        };
        if strip(ea.clone()) != strip(eb.clone()) {
            vfail!(
                "twin:block-ext",
                "{where_}: block #{} ext differs between the reorged node and the linear replay: {:?} vs {:?}",
                blk.number,
                ea,
                eb
            );
        }
    }
    let n = tree.get(&tip).number;
    let ra = a.chain_root_mmr(n).get_root().ok();
    let rb = b.chain_root_mmr(n).get_root().ok();
    if ra.as_ref().map(|r| r.as_slice().to_vec()) != rb.as_ref().map(|r| r.as_slice().to_vec()) {
        vfail!("twin:mmr-root", "{where_}: chain root differs between the reorged node and the linear replay");
    }
    Ok(())
}

#[allow(dead_code)]
fn _unused(_: HeaderView) {}
