//! vcheck <ID> [--tier quick|thorough] [--replay FILE] [--worker k/n --out FILE]
use serde_json::json;
use std::io::Read;
use std::path::{Path, PathBuf};
use std::process::{Command, Stdio};
use std::time::{Duration, Instant};
use vcheck::common::*;

fn usage() -> ! {
    eprintln!("usage: vcheck <ID> [--tier quick|thorough] [--replay FILE] [--worker k/n --out FILE]");
    std::process::exit(2)
}

fn main() {
    let args: Vec<String> = std::env::args().collect();
    if args.len() < 2 {
        usage();
    }
    let id = args[1].to_uppercase();
    let mut tier = match std::env::var("VERIF_TIER").ok().as_deref() {
        Some("thorough") => Tier::Thorough,
        _ => Tier::Quick,
    };
    let mut tier_explicit = false;
    let mut replay: Option<PathBuf> = None;
    let mut worker: Option<(usize, usize)> = None;
    let mut out: Option<PathBuf> = None;
    let mut i = 2;
    while i < args.len() {
        match args[i].as_str() {
            "--tier" => {
                i += 1;
                tier = match args.get(i).map(|s| s.as_str()) {
                    Some("quick") => Tier::Quick,
                    Some("thorough") => Tier::Thorough,
                    _ => usage(),
                };
                tier_explicit = true;
            }
            "--replay" => {
                i += 1;
                replay = Some(PathBuf::from(args.get(i).unwrap_or_else(|| usage())));
            }
            "--worker" => {
                i += 1;
                let s = args.get(i).unwrap_or_else(|| usage());
                let (a, b) = s.split_once('/').unwrap_or_else(|| usage());
                worker = Some((a.parse().unwrap(), b.parse().unwrap()));
            }
            "--out" => {
                i += 1;
                out = Some(PathBuf::from(args.get(i).unwrap_or_else(|| usage())));
            }
            _ => usage(),
        }
        i += 1;
    }
    let _ = tier_explicit;
    let seed: u64 = std::env::var("VERIF_SEED")
        .ok()
        .and_then(|s| s.trim().parse::<i128>().ok())
        .map(|v| v as u64)
        .unwrap_or(1);

    // development aid: VERIF_LOG=<filter> prints the node's own log to stdout
    let _log_guard = std::env::var("VERIF_LOG")
        .ok()
        .map(|f| ckb_logger_service::init_for_test(&f));
    let spec = match vcheck::checks::find(&id) {
        Some(s) => s,
        None => {
            eprintln!("unknown property {id}");
            std::process::exit(2)
        }
    };

    if let Some(path) = replay {
        std::process::exit(run_replay(&spec, tier, seed, &path, true));
    }
    if let Some((k, n)) = worker {
        let ctx = Ctx::new(spec.id, tier, seed, k, n);
        (spec.run)(&ctx);
        let o = ctx.into_out();
        let outp = out.unwrap_or_else(|| usage());
        std::fs::write(&outp, serde_json::to_vec(&o).unwrap()).unwrap();
        std::process::exit(0);
    }
    std::process::exit(run_parent(&spec, tier, seed));
}

/// returns exit code; prints VIOLATION / KNOWN-FINDING lines
fn run_replay(spec: &CheckSpec, tier: Tier, seed: u64, path: &Path, strict: bool) -> i32 {
    let rf = match load_replay(path) {
        Ok(r) => r,
        Err(e) => {
            eprintln!("replay: {e}");
            return 2;
        }
    };
    let mut ctx = Ctx::new(spec.id, tier, seed, 0, 1);
    // development aid: VERIF_REPLAY_LENIENT=1 replays the way the search runs (listed known findings
    // tolerated), to look at what lies behind one
    ctx.strict = strict && std::env::var_os("VERIF_REPLAY_LENIENT").is_none();
    ctx.stats.borrow_mut().freeze();
    match (spec.replay)(&ctx, &rf.sub, &rf.case) {
        Ok(()) => {
            println!("replay {} : property held", path.display());
            0
        }
        Err(v) => {
            if ctx.is_known(&v.signature) {
                let k = ctx
                    .known
                    .iter()
                    .find(|k| k.signature == v.signature)
                    .unwrap();
                println!(
                    "KNOWN-FINDING: property={} {} [{}]",
                    spec.id, k.summary, k.signature
                );
                println!("  detail: {}", v.detail);
                0
            } else {
                println!("  signature: {}", v.signature);
                println!("  detail: {}", v.detail);
                println!("VIOLATION property={} replay={}", spec.id, path.display());
                1
            }
        }
    }
}

fn run_parent(spec: &CheckSpec, tier: Tier, seed: u64) -> i32 {
    let start = Instant::now();
    let vdir = verif_dir();
    let exe = std::env::current_exe().unwrap();
    let n = (spec.workers)(tier).max(1);
    let watchdog = Duration::from_secs((spec.watchdog_s)(tier));
    let work = vdir.join("work").join(format!("{}-{}", spec.id, std::process::id()));
    let _ = std::fs::remove_dir_all(&work);
    std::fs::create_dir_all(&work).unwrap();

    let mut violations: Vec<(String, String, String)> = vec![]; // sig, detail, replay
    let mut known_lines: Vec<String> = vec![];
    let mut inconclusive: Vec<String> = vec![];
    let known = load_known_findings();

    // 1. replay tier: every committed replay file of this property (regressions for fixed
    //    findings, reproductions of known ones).
    let rdir = vdir.join("replays").join(spec.id);
    let mut replay_count = 0u64;
    if let Ok(rd) = std::fs::read_dir(&rdir) {
        let mut files: Vec<_> = rd
            .filter_map(|e| e.ok())
            .map(|e| e.path())
            .filter(|p| {
                p.extension().map(|e| e == "json").unwrap_or(false)
                    && !p
                        .file_name()
                        .unwrap()
                        .to_string_lossy()
                        .starts_with("found-")
            })
            .collect();
        files.sort();
        for f in files {
            replay_count += 1;
            let rf = match load_replay(&f) {
                Ok(r) => r,
                Err(e) => {
                    inconclusive.push(format!("replay {e}"));
                    continue;
                }
            };
            let mut ctx = Ctx::new(spec.id, tier, seed, 0, 1);
            ctx.strict = true;
            ctx.stats.borrow_mut().freeze();
            let res = std::panic::catch_unwind(std::panic::AssertUnwindSafe(|| {
                (spec.replay)(&ctx, &rf.sub, &rf.case)
            }));
            match res {
                Ok(Ok(())) => {}
                Ok(Err(v)) => {
                    if let Some(k) = known
                        .iter()
                        .find(|k| k.property == spec.id && k.status == "known" && k.signature == v.signature)
                    {
                        known_lines.push(format!(
                            "KNOWN-FINDING: property={} {} [{}] (replay {})",
                            spec.id,
                            k.summary,
                            k.signature,
                            f.display()
                        ));
                    } else {
                        violations.push((v.signature, v.detail, f.display().to_string()));
                    }
                }
                Err(_) => {
                    violations.push((
                        "replay-panic".into(),
                        "panic while replaying".into(),
                        f.display().to_string(),
                    ));
                }
            }
        }
    }

    // 2. generated search in worker processes
    let mut children = vec![];
    for k in 0..n {
        let outp = work.join(format!("w{k}.json"));
        let logp = work.join(format!("w{k}.log"));
        let log = std::fs::File::create(&logp).unwrap();
        let child = Command::new(&exe)
            .arg(spec.id)
            .arg("--tier")
            .arg(tier.name())
            .arg("--worker")
            .arg(format!("{k}/{n}"))
            .arg("--out")
            .arg(&outp)
            .env("VERIF_SEED", format!("{}", seed as i128))
            .env("VERIF_WORK", &work)
            .stdin(Stdio::null())
            .stdout(Stdio::from(log.try_clone().unwrap()))
            .stderr(Stdio::from(log))
            .spawn()
            .expect("spawn worker");
        children.push((k, child, outp, logp));
    }
    let mut stats = Stats::default();
    let mut pending = children;
    let mut timed_out = false;
    while !pending.is_empty() {
        let mut still = vec![];
        for (k, mut child, outp, logp) in pending {
            match child.try_wait() {
                Ok(Some(status)) => {
                    if !status.success() || !outp.exists() {
                        let mut tail = String::new();
                        if let Ok(mut f) = std::fs::File::open(&logp) {
                            let _ = f.read_to_string(&mut tail);
                        }
                        let tail: String = tail
                            .lines()
                            .rev()
                            .take(30)
                            .collect::<Vec<_>>()
                            .into_iter()
                            .rev()
                            .collect::<Vec<_>>()
                            .join("\n");
                        // a worker that died (panic / abort in the code under test outside a
                        // caught region) is reported as inconclusive, with its log tail: the
                        // checks catch panics that the property forbids themselves.
                        inconclusive.push(format!("worker {k} exited with {status}:\n{tail}"));
                    } else {
                        let o: WorkerOut =
                            serde_json::from_slice(&std::fs::read(&outp).unwrap()).unwrap();
                        stats.merge(&o.stats);
                        for f in o.found {
                            violations.push((f.violation.signature, f.violation.detail, f.replay_path));
                        }
                        inconclusive.extend(o.inconclusive);
                    }
                }
                Ok(None) => {
                    if start.elapsed() > watchdog {
                        let _ = child.kill();
                        let _ = child.wait();
                        timed_out = true;
                        inconclusive.push(format!("worker {k} killed by watchdog"));
                    } else {
                        still.push((k, child, outp, logp));
                    }
                }
                Err(e) => inconclusive.push(format!("worker {k}: {e}")),
            }
        }
        pending = still;
        if !pending.is_empty() {
            std::thread::sleep(Duration::from_millis(50));
        }
    }

    // known findings hit by generated cases
    for (sig, cnt) in &stats.known_hits {
        if let Some(k) = known
            .iter()
            .find(|k| k.property == spec.id && k.status == "known" && &k.signature == sig)
        {
            let line = format!(
                "KNOWN-FINDING: property={} {} [{}] ({} generated cases hit it, tolerated)",
                spec.id, k.summary, k.signature, cnt
            );
            // one line per listed finding
            known_lines.retain(|l| !l.contains(&format!("[{}]", k.signature)));
            known_lines.push(line);
        }
    }
    // every listed known finding gets a line, reproduced in this run or not
    for k in known
        .iter()
        .filter(|k| k.property == spec.id && k.status == "known")
    {
        if !known_lines.iter().any(|l| l.contains(&format!("[{}]", k.signature))) {
            known_lines.push(format!(
                "KNOWN-FINDING: property={} {} [{}] (listed; not re-triggered by this run)",
                spec.id, k.summary, k.signature
            ));
        }
    }

    let wall = start.elapsed().as_secs_f64();
    let distinct = stats.nontrivial.len() as u64;
    let mut coverage = json!({
        "evaluations": stats.evaluations,
        "distinct_nontrivial": distinct,
        "rule": spec.rule,
        "samples": stats.samples,
        "labels": stats.labels,
        "sub_properties": stats.subs,
        "replay_files_run": replay_count,
        "known_finding_hits": stats.known_hits,
        "workers": n,
    });
    if !stats.exhaustive_parts.is_empty() {
        coverage["exhaustive_parts"] = json!(stats.exhaustive_parts);
    }
    let ev = json!({
        "property_id": spec.id,
        "tier": tier.name(),
        "seed": seed as i64,
        "level": spec.level,
        "coverage": coverage,
        "assumptions": spec.assumptions,
        "wall_s": wall,
        "violations": violations.len(),
        "inconclusive": inconclusive,
    });
    // VERIF_EVIDENCE_DIR: runs against scratch copies (mutation probes) must not overwrite evidence
    let evdir = std::env::var_os("VERIF_EVIDENCE_DIR")
        .map(PathBuf::from)
        .unwrap_or_else(|| vdir.join("evidence"));
    let _ = std::fs::create_dir_all(&evdir);
    std::fs::write(
        evdir.join(format!("{}.json", spec.id)),
        serde_json::to_vec_pretty(&ev).unwrap(),
    )
    .unwrap();

    println!(
        "{} {}: evaluations={} distinct_nontrivial={} replays={} wall={:.1}s",
        spec.id,
        tier.name(),
        stats.evaluations,
        distinct,
        replay_count,
        wall
    );
    for (k, v) in &stats.labels {
        println!("  label {k}: {v}");
    }
    for l in &known_lines {
        println!("{l}");
    }
    if inconclusive.is_empty() && !timed_out && violations.is_empty() {
        let _ = std::fs::remove_dir_all(&work);
    } else {
        eprintln!("worker logs kept in {}", work.display());
    }
    if !violations.is_empty() {
        for (sig, detail, replay) in &violations {
            println!("  signature: {sig}");
            let d: String = detail.chars().take(2000).collect();
            println!("  detail: {d}");
            println!("VIOLATION property={} replay={}", spec.id, replay);
        }
        return 1;
    }
    if !inconclusive.is_empty() || timed_out {
        for m in &inconclusive {
            eprintln!("INCONCLUSIVE: {m}");
        }
        return 2;
    }
    if stats.evaluations == 0 {
        eprintln!("INCONCLUSIVE: no cases evaluated");
        return 2;
    }
    0
}
