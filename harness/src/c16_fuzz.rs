//! Glue between the libFuzzer targets under `/verif/fuzz` and the C16 target functions.
//!
//! libfuzzer-sys installs a panic hook that aborts the process; `install_panic_capture` wraps it
//! so that a panic of the code under test inside a `guard` scope is unwound, turned into a
//! `Violation` and compared with the allow-list of known findings (signatures listed as "known"
//! in `$VERIF_DIR/known_findings.json`).  An unknown violation panics outside any guard, i.e.
//! aborts: that is the crash artifact the wrapper converts into a VIOLATION line by replaying the
//! bytes through `vcheck C16 --replay` (strict: nothing is tolerated there).
use crate::c16_bytes;
use crate::common::load_known_findings;
use std::sync::OnceLock;

fn known() -> &'static Vec<String> {
    static K: OnceLock<Vec<String>> = OnceLock::new();
    K.get_or_init(|| {
        c16_bytes::install_panic_capture();
        load_known_findings()
            .into_iter()
            .filter(|k| k.property == "C16" && k.status == "known")
            .map(|k| k.signature)
            .collect()
    })
}

pub fn run_target(target: &str, data: &[u8]) {
    let known = known();
    let res = if target == "frame" {
        c16_bytes::target_frame(data).map(|_| ())
    } else {
        c16_bytes::target_message(data).map(|_| ())
    };
    if let Err(v) = res {
        if !known.iter().any(|k| *k == v.signature) {
            panic!("C16 violation [{}] {}", v.signature, v.detail);
        }
    }
}
