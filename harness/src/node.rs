//! Node driver: a real `Shared` + chain services + tx-pool built through the public constructors,
//! on a runtime and directories owned by the harness so a node can be stopped, dropped and
//! re-opened inside one process (DESIGN §1.6).
use crate::common::scratch;
use ckb_app_config::{BlockAssemblerConfig, DBConfig, NetworkConfig, StoreConfig, TxPoolConfig};
use ckb_async_runtime::{Handle, new_global_runtime};
use ckb_chain::{ChainController, ChainServiceScope, LonelyBlock, VerifyResult};
use ckb_chain_spec::{ChainSpec, IssuedCell, consensus::Consensus};
use ckb_jsonrpc_types::JsonBytes;
use ckb_network::{Flags, NetworkController, NetworkService, NetworkState, network::TransportType};
use ckb_resource::Resource;
use ckb_shared::{Shared, SharedBuilder};
use ckb_store::ChainStore;
use ckb_types::{
    H256,
    core::{BlockView, Capacity, Cycle, DepType, ScriptHashType},
    packed::{self, CellDep, CellOutput, OutPoint, Script},
    prelude::*,
};
use ckb_verification::HeaderVerifier;
use ckb_verification_traits::Verifier;
use std::path::{Path, PathBuf};
use std::sync::Arc;
use std::sync::mpsc;
use std::time::{Duration, Instant};

pub fn harness_dir() -> PathBuf {
    // <verif>/harness — specs live next to the sources
    crate::common::verif_dir().join("harness")
}

#[derive(Clone, Debug)]
pub struct SpecCfg {
    /// dynamic difficulty (epoch 0 short, epoch 1 >= 300 blocks) or permanent difficulty with
    /// short epochs of ceil(epoch_duration_target / 8) blocks
    pub permanent_difficulty: bool,
    pub genesis_epoch_length: u64,
    pub epoch_duration_target: u64,
    pub halving_interval: u64,
    pub cellbase_maturity: u64,
    pub faucet_cells: usize,
    pub faucet_capacity: u64,
    pub proposal_window: (u64, u64),
    pub max_block_bytes: Option<u64>,
    pub max_block_cycles: Option<Cycle>,
    pub max_block_proposals_limit: Option<u64>,
    pub median_time_block_count: Option<usize>,
    pub initial_primary_epoch_reward: Option<u64>,
    pub secondary_epoch_reward: Option<u64>,
    /// put the always_success binary into the NervosDAO system-cell slot: the node-level DAO
    /// accounting (keyed by the slot's type hash) is exercised without the script's 180-epoch lock
    pub fake_dao: bool,
    /// proof-of-work engine of the spec: 0 Dummy, 1 Eaglesong, 2 EaglesongBlake2b (with a real engine
    /// the difficulty is always dynamic: `permanent_difficulty_in_dummy` only applies to Dummy)
    pub pow: u8,
    pub genesis_compact_target: Option<u32>,
}

impl Default for SpecCfg {
    fn default() -> Self {
        SpecCfg {
            permanent_difficulty: false,
            genesis_epoch_length: 6,
            epoch_duration_target: 48,
            halving_interval: 3,
            cellbase_maturity: 0,
            faucet_cells: 24,
            faucet_capacity: 200_000 * 100_000_000,
            proposal_window: (2, 10),
            max_block_bytes: None,
            max_block_cycles: None,
            max_block_proposals_limit: None,
            median_time_block_count: None,
            initial_primary_epoch_reward: None,
            secondary_epoch_reward: None,
            fake_dao: false,
            pow: 0,
            genesis_compact_target: None,
        }
    }
}

/// Well-known cells of the generated genesis.
#[derive(Clone, Debug)]
pub struct Env {
    pub consensus: Arc<Consensus>,
    pub always_success_dep: CellDep,
    pub always_success_lock: Script,
    pub always_failure_dep: CellDep,
    pub always_failure_lock: Script,
    pub dao_dep: CellDep,
    pub dao_type: Script,
    /// faucet cells (always_success lock) of the genesis block
    pub faucets: Vec<(OutPoint, CellOutput)>,
}

pub const ALWAYS_SUCCESS_HASH: &str = "28e83a1277d48add8e72fadaa9248559e1b632bab2bd60b27955ebc4c03800a5";

fn h256(s: &str) -> H256 {
    let mut b = [0u8; 32];
    for i in 0..32 {
        b[i] = u8::from_str_radix(&s[2 * i..2 * i + 2], 16).unwrap();
    }
    H256(b)
}

pub fn build_env(cfg: &SpecCfg) -> Env {
    let path = harness_dir().join("specs").join("verif.toml");
    let mut spec = ChainSpec::load_from(&Resource::file_system(path)).expect("load spec");
    let as_lock = ckb_jsonrpc_types::Script {
        code_hash: h256(ALWAYS_SUCCESS_HASH),
        hash_type: ckb_jsonrpc_types::ScriptHashType::Data,
        args: JsonBytes::default(),
    };
    spec.genesis.issued_cells = (0..cfg.faucet_cells)
        .map(|i| IssuedCell {
            capacity: Capacity::shannons(cfg.faucet_capacity + i as u64),
            data: None,
            type_: None,
            lock: as_lock.clone().into(),
        })
        .collect();
    spec.pow = match cfg.pow {
        0 => ckb_pow::Pow::Dummy,
        1 => ckb_pow::Pow::Eaglesong,
        _ => ckb_pow::Pow::EaglesongBlake2b,
    };
    if let Some(t) = cfg.genesis_compact_target {
        spec.genesis.compact_target = t;
    }
    spec.params.permanent_difficulty_in_dummy = Some(cfg.permanent_difficulty);
    spec.params.genesis_epoch_length = Some(cfg.genesis_epoch_length);
    spec.params.epoch_duration_target = Some(cfg.epoch_duration_target);
    spec.params.primary_epoch_reward_halving_interval = Some(cfg.halving_interval);
    spec.params.cellbase_maturity = Some(cfg.cellbase_maturity);
    spec.params.max_block_bytes = cfg.max_block_bytes;
    spec.params.max_block_cycles = cfg.max_block_cycles;
    spec.params.max_block_proposals_limit = cfg.max_block_proposals_limit;
    if let Some(v) = cfg.initial_primary_epoch_reward {
        spec.params.initial_primary_epoch_reward = Some(Capacity::shannons(v));
    }
    if let Some(v) = cfg.secondary_epoch_reward {
        spec.params.secondary_epoch_reward = Some(Capacity::shannons(v));
    }
    let mut consensus = spec.build_consensus().expect("build consensus");
    if cfg.fake_dao {
        consensus = with_fake_dao(&spec, consensus);
    }
    consensus.tx_proposal_window =
        ckb_chain_spec::consensus::ProposalWindow(cfg.proposal_window.0, cfg.proposal_window.1);
    if let Some(m) = cfg.median_time_block_count {
        consensus.median_time_block_count = m;
    }
    env_of(Arc::new(consensus))
}

/// Rebuild the genesis with the always_success binary in the NervosDAO system-cell slot (the
/// chain-spec loader insists on the real binary's hash).  The cell keeps its type-id script, so
/// `dao_type_hash` is unchanged; the genesis DAO field is recomputed for the new cell data.
fn with_fake_dao(spec: &ChainSpec, real: Consensus) -> Consensus {
    use ckb_chain_spec::consensus::ConsensusBuilder;
    use ckb_types::core::EpochNumberWithFraction;
    let g = real.genesis_block().clone();
    let as_bin = std::fs::read(harness_dir().join("specs/cells/always_success")).unwrap();
    let tx0 = g.transactions()[0].clone();
    let mut datas: Vec<packed::Bytes> = tx0.outputs_data().into_iter().collect();
    datas[ckb_chain_spec::OUTPUT_INDEX_DAO as usize] = ckb_types::bytes::Bytes::from(as_bin).pack();
    let new_tx0 = tx0.as_advanced_builder().set_outputs_data(datas).build();
    // later genesis transactions (dep groups) refer to the cellbase by hash: re-point them
    let old_hash = tx0.hash();
    let new_hash = new_tx0.hash();
    let mut txs = vec![new_tx0];
    for tx in g.transactions().into_iter().skip(1) {
        let inputs: Vec<packed::CellInput> = tx
            .inputs()
            .into_iter()
            .map(|i| {
                if i.previous_output().tx_hash() == old_hash {
                    let op = i.previous_output().as_builder().tx_hash(new_hash.clone()).build();
                    i.as_builder().previous_output(op).build()
                } else {
                    i
                }
            })
            .collect();
        let datas: Vec<packed::Bytes> = tx
            .outputs_data()
            .into_iter()
            .map(|d| {
                let mut raw = d.raw_data().to_vec();
                let (o, n) = (old_hash.as_slice(), new_hash.as_slice());
                let mut i = 0;
                while i + 32 <= raw.len() {
                    if &raw[i..i + 32] == o {
                        raw[i..i + 32].copy_from_slice(n);
                        i += 32;
                    } else {
                        i += 1;
                    }
                }
                ckb_types::bytes::Bytes::from(raw).pack()
            })
            .collect();
        txs.push(tx.as_advanced_builder().set_inputs(inputs).set_outputs_data(datas).build());
    }
    let len = spec.params.genesis_epoch_length();
    let dao = ckb_dao_utils::genesis_dao_data_with_satoshi_gift(
        txs.iter().collect(),
        &spec.genesis.satoshi_gift.satoshi_pubkey_hash,
        spec.genesis.satoshi_gift.satoshi_cell_occupied_ratio,
        ckb_chain_spec::calculate_block_reward(spec.params.initial_primary_epoch_reward(), len),
        ckb_chain_spec::calculate_block_reward(spec.params.secondary_epoch_reward(), len),
    )
    .expect("genesis dao");
    let block = g.as_advanced_builder().set_transactions(txs).dao(dao).build();
    ConsensusBuilder::new(block, real.genesis_epoch_ext().clone())
        .id(spec.name.clone())
        .cellbase_maturity(EpochNumberWithFraction::from_full_value(spec.params.cellbase_maturity()))
        .secondary_epoch_reward(spec.params.secondary_epoch_reward())
        .max_block_cycles(spec.params.max_block_cycles())
        .max_block_bytes(spec.params.max_block_bytes())
        .pow(spec.pow.clone())
        .satoshi_pubkey_hash(spec.genesis.satoshi_gift.satoshi_pubkey_hash.clone())
        .satoshi_cell_occupied_ratio(spec.genesis.satoshi_gift.satoshi_cell_occupied_ratio)
        .primary_epoch_reward_halving_interval(spec.params.primary_epoch_reward_halving_interval())
        .initial_primary_epoch_reward(spec.params.initial_primary_epoch_reward())
        .epoch_duration_target(spec.params.epoch_duration_target())
        .permanent_difficulty_in_dummy(spec.params.permanent_difficulty_in_dummy())
        .max_block_proposals_limit(spec.params.max_block_proposals_limit())
        .orphan_rate_target(spec.params.orphan_rate_target())
        .starting_block_limiting_dao_withdrawing_lock(spec.params.starting_block_limiting_dao_withdrawing_lock())
        .hardfork_switch(real.hardfork_switch.clone())
        .build()
}

pub fn env_of(consensus: Arc<Consensus>) -> Env {
    let genesis = consensus.genesis_block();
    let tx0 = genesis.transactions()[0].clone();
    let as_hash = packed::Byte32::from_slice(&h256(ALWAYS_SUCCESS_HASH).0).unwrap();
    let mut always_success_dep = None;
    let mut always_failure_dep = None;
    let mut af_hash = None;
    let as_bin = std::fs::read(harness_dir().join("specs/cells/always_success")).unwrap();
    let af_bin = std::fs::read(harness_dir().join("specs/cells/always_failure")).unwrap();
    let mut dao_dep = None;
    let mut dao_type = None;
    for (i, (o, d)) in tx0.outputs_with_data_iter().enumerate() {
        let op = OutPoint::new(tx0.hash(), i as u32);
        let dep = CellDep::new_builder().out_point(op).dep_type(DepType::Code).build();
        if d.as_ref() == as_bin.as_slice() {
            assert_eq!(CellOutput::calc_data_hash(&d), as_hash);
            always_success_dep = Some(dep.clone());
        }
        if d.as_ref() == af_bin.as_slice() {
            af_hash = Some(CellOutput::calc_data_hash(&d));
            always_failure_dep = Some(dep.clone());
        }
        if let Some(t) = o.type_().to_opt() {
            if t.calc_script_hash() == consensus.dao_type_hash() {
                dao_dep = Some(dep.clone());
                dao_type = Some(
                    Script::new_builder()
                        .code_hash(consensus.dao_type_hash())
                        .hash_type(ScriptHashType::Type)
                        .build(),
                );
            }
        }
    }
    let always_success_lock = Script::new_builder()
        .code_hash(as_hash)
        .hash_type(ScriptHashType::Data)
        .build();
    let always_failure_lock = Script::new_builder()
        .code_hash(af_hash.expect("always_failure cell"))
        .hash_type(ScriptHashType::Data)
        .build();
    let mut faucets = vec![];
    for tx in genesis.transactions().iter() {
        for (i, o) in tx.outputs().into_iter().enumerate() {
            if o.lock() == always_success_lock && o.type_().to_opt().is_none() {
                faucets.push((OutPoint::new(tx.hash(), i as u32), o));
            }
        }
    }
    Env {
        consensus,
        always_success_dep: always_success_dep.expect("always_success cell"),
        always_success_lock,
        always_failure_dep: always_failure_dep.expect("always_failure cell"),
        always_failure_lock,
        dao_dep: dao_dep.expect("dao cell"),
        dao_type: dao_type.unwrap(),
        faucets,
    }
}

#[derive(Clone, Debug, Default)]
pub struct NodeCfg {
    /// persistent directory (restart / crash cases); None = scratch dir removed on drop
    pub dir: Option<PathBuf>,
    pub tx_pool: Option<TxPoolConfig>,
    pub block_assembler: Option<BlockAssemblerConfig>,
    pub store: Option<StoreConfig>,
    pub freezer: bool,
}

pub struct Node {
    pub shared: Shared,
    chain: Option<ChainServiceScope>,
    runtime: Option<tokio::runtime::Runtime>,
    pub handle: Handle,
    pub network: NetworkController,
    _tmp: Option<tempfile::TempDir>,
    pub dir: PathBuf,
}

pub fn default_tx_pool_config(dir: &Path) -> TxPoolConfig {
    let mut c = TxPoolConfig::default();
    c.persisted_data = dir.join("tx_pool_persisted");
    c.recent_reject = dir.join("tx_pool_recent_reject");
    c
}

impl Node {
    pub fn start(env: &Env, cfg: NodeCfg) -> Result<Node, String> {
        let (tmp, dir) = match &cfg.dir {
            Some(d) => {
                std::fs::create_dir_all(d).map_err(|e| e.to_string())?;
                (None, d.clone())
            }
            None => {
                let t = scratch("vnode-");
                let p = t.path().to_path_buf();
                (Some(t), p)
            }
        };
        let (handle, _stop_rx, runtime) = new_global_runtime(Some(3));
        let db_config = DBConfig {
            path: dir.join("db"),
            ..Default::default()
        };
        let ancient = if cfg.freezer { Some(dir.join("ancient")) } else { None };
        let mut store_config = cfg.store.unwrap_or_default();
        store_config.freezer_enable = cfg.freezer;
        let mut tx_pool = cfg.tx_pool.clone().unwrap_or_else(|| default_tx_pool_config(&dir));
        if tx_pool.persisted_data.as_os_str().is_empty() {
            tx_pool.persisted_data = dir.join("tx_pool_persisted");
        }
        if tx_pool.recent_reject.as_os_str().is_empty() {
            tx_pool.recent_reject = dir.join("tx_pool_recent_reject");
        }
        std::fs::create_dir_all(dir.join("header_map")).map_err(|e| e.to_string())?;
        let builder = SharedBuilder::new(
            "vcheck",
            &dir,
            &db_config,
            ancient,
            handle.clone(),
            (*env.consensus).clone(),
        )
        .map_err(|e| format!("SharedBuilder::new failed: {e:?}"))?;
        let (shared, mut pack) = builder
            .tx_pool_config(tx_pool)
            .store_config(store_config)
            .block_assembler_config(cfg.block_assembler.clone())
            .header_map_tmp_dir(Some(dir.join("header_map")))
            .build()
            .map_err(|e| format!("SharedBuilder::build failed: {e:?}"))?;
        let network = dummy_network(&shared, &dir);
        pack.take_tx_pool_builder().start(network.clone());
        let chain = ChainServiceScope::new(pack.take_chain_services_builder());
        // Let the start-up scan for stored-but-unverified blocks finish before any block is
        // delivered (the repository's own tests do the same).  Delivering a block that fails
        // verification while that scanner thread still runs can make it panic ("unverified block
        // must be in db") — noted in DESIGN §6.4 as an observation.
        let t0 = Instant::now();
        while chain.chain_controller().is_verifying_unverified_blocks_on_startup() {
            if t0.elapsed() > Duration::from_secs(60) {
                return Err("harness: start-up verification of stored blocks did not finish in 60 s".into());
            }
            std::thread::sleep(Duration::from_millis(1));
        }
        Ok(Node {
            shared,
            chain: Some(chain),
            runtime: Some(runtime),
            handle,
            network,
            _tmp: tmp,
            dir,
        })
    }

    pub fn chain(&self) -> &ChainController {
        self.chain.as_ref().unwrap().chain_controller()
    }

    /// what `MinerRpcImpl::submit_block` does: header check, parent-known check, blocking import
    pub fn submit(&self, block: &BlockView) -> Result<bool, String> {
        let snapshot = self.shared.snapshot();
        let consensus = snapshot.consensus();
        let hv = std::panic::catch_unwind(std::panic::AssertUnwindSafe(|| {
            HeaderVerifier::new(snapshot.as_ref(), consensus).verify(&block.header())
        }));
        match hv {
            Ok(r) => r.map_err(|e| format!("header: {e}"))?,
            Err(_) => return Err("header: PANIC in HeaderVerifier".into()),
        }
        if snapshot.get_block_header(&block.parent_hash()).is_none() {
            return Err("parent not found".into());
        }
        self.chain()
            .blocking_process_block(Arc::new(block.clone()))
            .map_err(|e| format!("chain: {e}"))
    }

    pub fn process(&self, block: &BlockView) -> VerifyResult {
        self.chain().blocking_process_block(Arc::new(block.clone()))
    }

    /// asynchronous delivery (the path sync/relay use); the result arrives on the channel
    pub fn deliver_async(&self, block: &BlockView, tag: usize, tx: mpsc::Sender<(usize, Result<bool, String>)>) {
        let cb = Box::new(move |r: VerifyResult| {
            let _ = tx.send((tag, r.map_err(|e| e.to_string())));
        });
        self.chain().asynchronous_process_lonely_block(LonelyBlock {
            block: Arc::new(block.clone()),
            switch: None,
            verify_callback: Some(cb),
        });
    }

    pub fn tip_hash(&self) -> packed::Byte32 {
        self.shared.snapshot().tip_hash()
    }

    /// wait until the tx-pool has caught up with the chain tip
    pub fn wait_pool_synced(&self, timeout: Duration) -> bool {
        let start = Instant::now();
        loop {
            let tip = self.shared.snapshot().tip_hash();
            if let Ok(info) = self.shared.tx_pool_controller().get_tx_pool_info() {
                if info.tip_hash == tip {
                    return true;
                }
            }
            if start.elapsed() > timeout {
                return false;
            }
            std::thread::sleep(Duration::from_millis(2));
        }
    }

    pub fn stop(mut self) {
        self.stop_inner();
    }

    fn stop_inner(&mut self) {
        if let Some(chain) = self.chain.take() {
            drop(chain);
        }
        if let Some(rt) = self.runtime.take() {
            rt.shutdown_timeout(Duration::from_secs(5));
        }
    }
}

impl Drop for Node {
    fn drop(&mut self) {
        self.stop_inner();
    }
}

fn dummy_network(shared: &Shared, dir: &Path) -> NetworkController {
    let config = NetworkConfig {
        max_peers: 19,
        max_outbound_peers: 5,
        path: dir.join("network"),
        ping_interval_secs: 15,
        ping_timeout_secs: 20,
        connect_outbound_interval_secs: 1,
        discovery_local_address: true,
        bootnode_mode: true,
        reuse_port_on_linux: true,
        ..Default::default()
    };
    let network_state = Arc::new(NetworkState::from_config(config).expect("Init network state failed"));
    NetworkService::new(
        network_state,
        vec![],
        vec![],
        (shared.consensus().identify_name(), "verif".to_string(), Flags::COMPATIBILITY),
        TransportType::Tcp,
    )
    .start(shared.async_handle())
    .expect("Start network service failed")
}
