//! Shared machinery: seeds, case accounting, proptest driver, evidence, replay files,
//! known-findings matching.  See DESIGN.md §1.3–1.8.
use proptest::strategy::{Strategy, ValueTree};
use proptest::test_runner::{Config, RngSeed, TestCaseError, TestError, TestRunner};
use serde::{Deserialize, Serialize, de::DeserializeOwned};
use serde_json::{Value, json};
use std::cell::RefCell;
use std::collections::{BTreeMap, BTreeSet};
use std::fmt::Debug;
use std::hash::{Hash, Hasher};
use std::path::{Path, PathBuf};

pub fn verif_dir() -> PathBuf {
    std::env::var_os("VERIF_DIR")
        .map(PathBuf::from)
        .unwrap_or_else(|| PathBuf::from("/verif"))
}

#[derive(Clone, Copy, Debug, PartialEq, Eq, Serialize, Deserialize)]
pub enum Tier {
    Quick,
    Thorough,
}

impl Tier {
    pub fn name(self) -> &'static str {
        match self {
            Tier::Quick => "quick",
            Tier::Thorough => "thorough",
        }
    }
    pub fn pick<T>(self, quick: T, thorough: T) -> T {
        match self {
            Tier::Quick => quick,
            Tier::Thorough => thorough,
        }
    }
}

/// A violated oracle clause.  `signature` is specific (clause + minimal structural trigger) and is
/// what known_findings.json entries are matched against; `detail` is free text.
#[derive(Clone, Debug, Serialize, Deserialize)]
pub struct Violation {
    pub signature: String,
    pub detail: String,
}

impl Violation {
    pub fn new(signature: impl Into<String>, detail: impl Into<String>) -> Self {
        Violation {
            signature: signature.into(),
            detail: detail.into(),
        }
    }
}

pub type Verdict = Result<(), Violation>;

#[macro_export]
macro_rules! vfail {
    ($sig:expr, $($arg:tt)*) => {
        return Err($crate::common::Violation::new($sig, format!($($arg)*)))
    };
}

#[macro_export]
macro_rules! vensure {
    ($cond:expr, $sig:expr, $($arg:tt)*) => {
        if !($cond) {
            return Err($crate::common::Violation::new($sig, format!($($arg)*)));
        }
    };
}

pub fn fxhash64<T: Hash + ?Sized>(t: &T) -> u64 {
    // DefaultHasher::new() uses fixed keys: deterministic across processes.
    #[allow(deprecated)]
    let mut h = std::hash::SipHasher::new_with_keys(0x7665_7269_66, 0x636b_62);
    t.hash(&mut h);
    h.finish()
}

pub fn mix_seed(seed: u64, parts: &[&str], k: u64) -> u64 {
    let mut x = seed ^ 0x9e37_79b9_7f4a_7c15;
    for p in parts {
        x = fxhash64(&(x, p));
    }
    fxhash64(&(x, k))
}

#[derive(Default, Clone, Debug, Serialize, Deserialize)]
pub struct Stats {
    pub evaluations: u64,
    pub nontrivial: BTreeSet<u64>,
    pub labels: BTreeMap<String, u64>,
    pub samples: Vec<Value>,
    /// known-finding signature -> number of generated cases that hit it (tolerated, search goes on)
    pub known_hits: BTreeMap<String, u64>,
    /// per sub-property evaluations
    pub subs: BTreeMap<String, u64>,
    #[serde(default)]
    pub exhaustive_parts: Vec<String>,
    #[serde(skip)]
    frozen: bool,
}

pub const MAX_SAMPLES: usize = 6;

impl Stats {
    pub fn label(&mut self, l: &str) {
        if !self.frozen {
            *self.labels.entry(l.to_string()).or_insert(0) += 1;
        }
    }
    pub fn label_n(&mut self, l: &str, n: u64) {
        if !self.frozen && n > 0 {
            *self.labels.entry(l.to_string()).or_insert(0) += n;
        }
    }
    pub fn eval(&mut self, sub: &str) {
        if !self.frozen {
            self.evaluations += 1;
            *self.subs.entry(sub.to_string()).or_insert(0) += 1;
        }
    }
    pub fn eval_n(&mut self, sub: &str, n: u64) {
        if !self.frozen {
            self.evaluations += n;
            *self.subs.entry(sub.to_string()).or_insert(0) += n;
        }
    }
    /// Record a non-trivial case by its canonical descriptor hash.
    pub fn nontrivial<T: Hash + ?Sized>(&mut self, descriptor: &T) {
        if !self.frozen {
            self.nontrivial.insert(fxhash64(descriptor));
        }
    }
    pub fn sample(&mut self, f: impl FnOnce() -> Value) {
        if !self.frozen && self.samples.len() < MAX_SAMPLES {
            self.samples.push(f());
        }
    }
    pub fn want_sample(&self) -> bool {
        !self.frozen && self.samples.len() < MAX_SAMPLES
    }
    pub fn freeze(&mut self) {
        self.frozen = true;
    }
    pub fn unfreeze(&mut self) {
        self.frozen = false;
    }
    pub fn is_frozen(&self) -> bool {
        self.frozen
    }
    pub fn merge(&mut self, o: &Stats) {
        self.evaluations += o.evaluations;
        self.nontrivial.extend(o.nontrivial.iter().copied());
        for (k, v) in &o.labels {
            *self.labels.entry(k.clone()).or_insert(0) += v;
        }
        for (k, v) in &o.known_hits {
            *self.known_hits.entry(k.clone()).or_insert(0) += v;
        }
        for (k, v) in &o.subs {
            *self.subs.entry(k.clone()).or_insert(0) += v;
        }
        for s in &o.samples {
            if self.samples.len() < MAX_SAMPLES {
                self.samples.push(s.clone());
            }
        }
        for e in &o.exhaustive_parts {
            if !self.exhaustive_parts.contains(e) {
                self.exhaustive_parts.push(e.clone());
            }
        }
    }
}

#[derive(Clone, Debug, Serialize, Deserialize)]
pub struct KnownFinding {
    pub property: String,
    pub signature: String,
    pub status: String, // "known" | "fixed"
    pub summary: String,
    #[serde(default)]
    pub commit: Option<String>,
    #[serde(default)]
    pub replay: Option<String>,
}

pub fn load_known_findings() -> Vec<KnownFinding> {
    let p = verif_dir().join("known_findings.json");
    match std::fs::read_to_string(&p) {
        Ok(s) => serde_json::from_str(&s).unwrap_or_else(|e| {
            eprintln!("known_findings.json unreadable: {e}");
            std::process::exit(2)
        }),
        Err(_) => vec![],
    }
}

#[derive(Clone, Debug, Serialize, Deserialize)]
pub struct Found {
    pub sub: String,
    pub violation: Violation,
    pub replay_path: String,
}

#[derive(Default, Clone, Debug, Serialize, Deserialize)]
pub struct WorkerOut {
    pub stats: Stats,
    pub found: Vec<Found>,
    pub inconclusive: Vec<String>,
}

pub struct Ctx {
    pub id: &'static str,
    pub tier: Tier,
    pub seed: u64,
    pub worker: usize,
    pub nworkers: usize,
    pub stats: RefCell<Stats>,
    pub found: RefCell<Vec<Found>>,
    pub inconclusive: RefCell<Vec<String>>,
    pub known: Vec<KnownFinding>,
    /// strict = replay mode: known findings are not tolerated silently, they are returned.
    pub strict: bool,
    /// proptest shrink budget (iterations); node-based checks lower it because one evaluation
    /// costs node lifetimes
    pub shrink_iters: std::cell::Cell<u32>,
}

impl Ctx {
    pub fn new(id: &'static str, tier: Tier, seed: u64, worker: usize, nworkers: usize) -> Self {
        let known = load_known_findings()
            .into_iter()
            .filter(|k| k.property == id)
            .collect();
        Ctx {
            id,
            tier,
            seed,
            worker,
            nworkers,
            stats: RefCell::new(Stats::default()),
            found: RefCell::new(vec![]),
            inconclusive: RefCell::new(vec![]),
            known,
            strict: false,
            shrink_iters: std::cell::Cell::new(4096),
        }
    }

    pub fn sub_seed(&self, sub: &str) -> u64 {
        mix_seed(self.seed, &[self.id, sub], self.worker as u64)
    }

    /// Split `total` cases over the workers (worker k gets its share, at least 1 if total>0).
    pub fn share(&self, total: u64) -> u32 {
        let n = self.nworkers.max(1) as u64;
        let base = total / n;
        let extra = if (self.worker as u64) < total % n { 1 } else { 0 };
        (base + extra) as u32
    }

    pub fn cases(&self, quick_total: u64, thorough_total: u64) -> u32 {
        // VERIF_SCALE is a development aid (fraction of the registered fixed work)
        let scale: f64 = std::env::var("VERIF_SCALE")
            .ok()
            .and_then(|s| s.parse().ok())
            .unwrap_or(1.0);
        let total = (self.tier.pick(quick_total, thorough_total) as f64 * scale).ceil() as u64;
        self.share(total)
    }

    pub fn is_known(&self, sig: &str) -> bool {
        self.known
            .iter()
            .any(|k| k.status == "known" && k.signature == sig)
    }

    /// Filter a verdict through the known-findings list: a listed ("known") signature is counted
    /// and tolerated so the search continues behind it; everything else passes through.
    pub fn tolerate_known(&self, v: Verdict) -> Verdict {
        match v {
            Err(viol) if !self.strict && self.is_known(&viol.signature) => {
                let mut st = self.stats.borrow_mut();
                if !st.is_frozen() {
                    *st.known_hits.entry(viol.signature.clone()).or_insert(0) += 1;
                }
                Ok(())
            }
            other => other,
        }
    }

    pub fn replay_dir(&self) -> PathBuf {
        let d = verif_dir().join("replays").join(self.id);
        let _ = std::fs::create_dir_all(&d);
        d
    }

    pub fn save_replay(&self, sub: &str, case: &Value, viol: &Violation) -> String {
        let body = json!({
            "property": self.id,
            "sub": sub,
            "signature": viol.signature,
            "detail": viol.detail,
            "case": case,
        });
        let h = fxhash64(&serde_json::to_string(case).unwrap_or_default());
        let path = self
            .replay_dir()
            .join(format!("found-{}-{:016x}.json", sub, h));
        let _ = std::fs::write(&path, serde_json::to_vec_pretty(&body).unwrap());
        path.to_string_lossy().to_string()
    }

    pub fn report(&self, sub: &str, case: &Value, viol: Violation) {
        let replay_path = self.save_replay(sub, case, &viol);
        self.found.borrow_mut().push(Found {
            sub: sub.to_string(),
            violation: viol,
            replay_path,
        });
    }

    /// Drive one sub-property with proptest: fixed seed, no persistence, shrink on failure, save
    /// the shrunk case as a replay file.  `prop` gets the case and the stats; it must be a pure
    /// function of the case.  Returns true when no (unknown) violation was found.
    pub fn run_prop<S, F>(&self, sub: &str, cases: u32, strat: S, prop: F) -> bool
    where
        S: Strategy,
        S::Value: Serialize + Debug + Clone,
        F: Fn(&S::Value, &mut Stats) -> Verdict,
    {
        if cases == 0 {
            return true;
        }
        let cfg = Config {
            cases,
            failure_persistence: None,
            rng_seed: RngSeed::Fixed(self.sub_seed(sub)),
            max_shrink_iters: self.shrink_iters.get(),
            max_global_rejects: 65536,
            ..Config::default()
        };
        let mut runner = TestRunner::new(cfg);
        let last_violation: RefCell<Option<Violation>> = RefCell::new(None);
        let res = runner.run(&strat, |v| {
            let verdict = {
                let mut st = self.stats.borrow_mut();
                st.eval(sub);
                prop(&v, &mut st)
            };
            match self.tolerate_known(verdict) {
                Ok(()) => Ok(()),
                Err(viol) if viol.signature.starts_with("harness:") => {
                    // the harness could not decide this case (time-out waiting for the node, node
                    // failed to start, ...): inconclusive, never a violation
                    self.inconclusive
                        .borrow_mut()
                        .push(format!("{sub}: {}: {}", viol.signature, viol.detail));
                    Ok(())
                }
                Err(viol) => {
                    // counters stop at the first failure: shrinking re-runs are not cases
                    self.stats.borrow_mut().freeze();
                    let msg = format!("{}: {}", viol.signature, viol.detail);
                    *last_violation.borrow_mut() = Some(viol);
                    Err(TestCaseError::fail(msg))
                }
            }
        });
        let ok = match res {
            Ok(()) => true,
            Err(TestError::Fail(_, value)) => {
                // recompute the violation of the shrunk case
                install_panic_recorder();
                let viol = {
                    let mut st = self.stats.borrow_mut();
                    st.freeze();
                    let r = std::panic::catch_unwind(std::panic::AssertUnwindSafe(|| prop(&value, &mut st)));
                    match r {
                        Ok(v) => v,
                        Err(_) => {
                            // code called synchronously from the check panicked
                            let p = PANICS
                                .lock()
                                .ok()
                                .and_then(|g| g.iter().rev().find(|p| p.thread == "main").cloned());
                            let (loc, msg) = p.map(|p| (p.location, p.message)).unwrap_or_default();
                            Err(Violation::new(
                                format!("panic:check-thread@{loc}"),
                                format!("code called synchronously by the check panicked at {loc}: {msg}"),
                            ))
                        }
                    }
                };
                let viol = match viol {
                    Err(v) => v,
                    Ok(()) => last_violation
                        .borrow()
                        .clone()
                        .unwrap_or_else(|| Violation::new("unstable", "shrunk case passes on re-run")),
                };
                let case = serde_json::to_value(&value).unwrap_or(Value::Null);
                self.report(sub, &case, viol);
                false
            }
            Err(TestError::Abort(reason)) => {
                self.inconclusive
                    .borrow_mut()
                    .push(format!("{sub}: proptest aborted: {reason}"));
                true
            }
        };
        self.stats.borrow_mut().unfreeze();
        ok
    }

    /// Evaluate one explicit case (used by enumerations and replays) under the same accounting.
    pub fn run_case<T, F>(&self, sub: &str, case: &T, prop: F) -> bool
    where
        T: Serialize,
        F: FnOnce(&T, &mut Stats) -> Verdict,
    {
        let verdict = {
            let mut st = self.stats.borrow_mut();
            st.eval(sub);
            prop(case, &mut st)
        };
        match self.tolerate_known(verdict) {
            Ok(()) => true,
            Err(viol) => {
                let v = serde_json::to_value(case).unwrap_or(Value::Null);
                self.report(sub, &v, viol);
                false
            }
        }
    }

    pub fn into_out(self) -> WorkerOut {
        WorkerOut {
            stats: self.stats.into_inner(),
            found: self.found.into_inner(),
            inconclusive: self.inconclusive.into_inner(),
        }
    }
}

/// Generate one value from a strategy with a fixed seed (used for corpus building etc.).
pub fn sample_strategy<S: Strategy>(strat: &S, seed: u64) -> S::Value {
    let cfg = Config {
        failure_persistence: None,
        rng_seed: RngSeed::Fixed(seed),
        ..Config::default()
    };
    let mut runner = TestRunner::new(cfg);
    strat.new_tree(&mut runner).unwrap().current()
}

#[derive(Clone, Debug, Deserialize)]
pub struct ReplayFile {
    pub property: String,
    pub sub: String,
    #[serde(default)]
    pub signature: String,
    pub case: Value,
}

pub fn load_replay(path: &Path) -> Result<ReplayFile, String> {
    let s = std::fs::read_to_string(path).map_err(|e| format!("{}: {e}", path.display()))?;
    serde_json::from_str(&s).map_err(|e| format!("{}: {e}", path.display()))
}

pub fn from_case<T: DeserializeOwned>(v: &Value) -> Result<T, Violation> {
    serde_json::from_value(v.clone())
        .map_err(|e| Violation::new("replay-format", format!("cannot decode case: {e}")))
}

/// What every property module provides.
pub struct CheckSpec {
    pub id: &'static str,
    pub level: &'static str,
    pub rule: &'static str,
    pub assumptions: &'static [&'static str],
    /// number of worker processes per tier
    pub workers: fn(Tier) -> usize,
    /// watchdog (seconds) per tier
    pub watchdog_s: fn(Tier) -> u64,
    pub run: fn(&Ctx),
    /// replay one saved case of sub-property `sub`
    pub replay: fn(&Ctx, &str, &Value) -> Verdict,
}

/// monotone index mapping (shrinks well): maps a u16-ish selector onto 0..len
pub fn pick_idx(sel: u32, len: usize) -> usize {
    if len == 0 {
        return 0;
    }
    ((sel as u64 * len as u64) >> 16) as usize % len
}

pub fn hex(b: &[u8]) -> String {
    let mut s = String::with_capacity(b.len() * 2);
    for x in b {
        s.push_str(&format!("{x:02x}"));
    }
    s
}

/// Scratch directory for file-system heavy checks: tmpfs when available (fsync is free there),
/// otherwise the system temp dir.  Nothing a registered command needs is kept in it.
pub fn scratch(prefix: &str) -> tempfile::TempDir {
    let base = std::env::var_os("VERIF_SCRATCH")
        .map(PathBuf::from)
        .or_else(|| {
            let shm = PathBuf::from("/dev/shm");
            if shm.is_dir() && std::fs::metadata(&shm).map(|m| !m.permissions().readonly()).unwrap_or(false) {
                Some(shm)
            } else {
                None
            }
        })
        .unwrap_or_else(std::env::temp_dir);
    tempfile::Builder::new()
        .prefix(prefix)
        .tempdir_in(&base)
        .or_else(|_| tempfile::Builder::new().prefix(prefix).tempdir())
        .expect("scratch dir")
}

/// Panics of threads other than the check's own (i.e. threads of the node under test) are
/// recorded by a process-wide hook so that checks can report them as violations of "the node
/// never crashes" with the panic location as signature.
#[derive(Clone, Debug)]
pub struct RecordedPanic {
    pub thread: String,
    pub location: String,
    pub message: String,
}

static PANICS: std::sync::Mutex<Vec<RecordedPanic>> = std::sync::Mutex::new(Vec::new());

pub fn install_panic_recorder() {
    static ONCE: std::sync::Once = std::sync::Once::new();
    ONCE.call_once(|| {
        let prev = std::panic::take_hook();
        std::panic::set_hook(Box::new(move |info| {
            let thread = std::thread::current().name().unwrap_or("?").to_string();
            let location = info
                .location()
                .map(|l| {
                    let f = l.file();
                    // path relative to the repository under test (scratch copies live elsewhere)
                    let f = match std::env::var("VERIF_REPO_DIR") {
                        Ok(d) if !d.is_empty() && f.starts_with(&d) => f[d.len()..].trim_start_matches('/'),
                        _ => f.rsplit_once("/repo/").map(|x| x.1).unwrap_or(f),
                    };
                    format!("{}:{}", f, l.line())
                })
                .unwrap_or_default();
            let message = if let Some(s) = info.payload().downcast_ref::<&str>() {
                s.to_string()
            } else if let Some(s) = info.payload().downcast_ref::<String>() {
                s.clone()
            } else {
                String::new()
            };
            // The harness stops a node by shutting its tokio runtime down (`shutdown_timeout`); a task
            // that asks for a timer at that instant panics inside tokio ("A Tokio 1.x context was
            // found, but it is being shutdown").  That is the stop procedure of the harness, not
            // behaviour of the node: not recorded.
            let runtime_shutdown = message.contains("is being shutdown") && location.contains("tokio-");
            if runtime_shutdown {
                prev(info);
                return;
            }
            if let Ok(mut g) = PANICS.lock() {
                g.push(RecordedPanic {
                    thread,
                    location,
                    message,
                });
            }
            prev(info);
        }));
    });
}

/// panics recorded so far on threads whose name is not `main` (the check's own thread)
pub fn node_panics() -> Vec<RecordedPanic> {
    PANICS
        .lock()
        .map(|g| g.iter().filter(|p| p.thread != "main").cloned().collect())
        .unwrap_or_default()
}

/// every recorded panic, the check's own thread included (child-process phases)
pub fn all_panics() -> Vec<RecordedPanic> {
    PANICS.lock().map(|g| g.clone()).unwrap_or_default()
}

pub fn clear_panics() {
    if let Ok(mut g) = PANICS.lock() {
        g.clear();
    }
}

pub fn node_panic_violation() -> Verdict {
    let ps = node_panics();
    if let Some(p) = ps.first() {
        // thread names of the runtime carry a counter: normalise
        let t = if p.thread.starts_with("GlobalRt") { "GlobalRt".to_string() } else { p.thread.clone() };
        return Err(Violation::new(
            format!("node:thread-panicked:{}@{}", t, p.location),
            format!("thread '{}' of the node panicked at {}: {}", p.thread, p.location, p.message),
        ));
    }
    Ok(())
}
