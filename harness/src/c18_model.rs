//! C18: script universe, brute-force chain model and search oracle for the indexer check.
//!
//! Nothing in here touches the indexer's key/value layout: the model replays blocks into a live
//! cell map and a transaction-entry history, and answers a search by filtering those two
//! collections with the semantics documented in `util/jsonrpc-types/src/indexer.rs` and
//! `rpc/src/module/indexer.rs` (prefix / exact script match, half-open ranges `[start, end)`,
//! `script_len = (code_hash + hash_type + args).len`, a missing type script has length 0).
use ckb_types::{
    core::BlockView,
    packed::{CellOutput, Script},
    prelude::*,
};
use serde::{Deserialize, Serialize};
use std::collections::BTreeMap;

pub type H32 = [u8; 32];

/// code hashes of the direct-mode universe (shared by many scripts)
pub fn code_hashes() -> [H32; 3] {
    let mut mid = [0u8; 32];
    for (i, b) in mid.iter_mut().enumerate() {
        *b = 0x5a ^ (i as u8);
    }
    [[0u8; 32], mid, [0xffu8; 32]]
}

/// valid `ScriptHashType` bytes used by the universe (data, type, data1; data2 is only drawn by
/// the rich-indexer sub-checks: the generic selectors stay below 3)
pub const HASH_TYPES: [u8; 4] = [0, 1, 2, 4];

/// args of the universe: prefixes of one another, empty args, args made of 0x00 bytes, args that
/// look like a big-endian block number
pub fn args_universe() -> Vec<Vec<u8>> {
    vec![
        vec![],
        vec![0x00],
        vec![0x00, 0x00],
        vec![0x00; 7],
        vec![0x00; 8],
        vec![0, 0, 0, 0, 0, 0, 0, 1],
        vec![0, 0, 0, 0, 0, 0, 0, 2],
        vec![0, 0, 0, 0, 0, 0, 0, 3],
        vec![0x01],
        vec![0x01, 0x00],
        vec![0xab],
        vec![0xab, 0x00],
        vec![0xab, 0xcd],
        vec![0xab, 0xcd, 0, 0, 0, 0, 0, 0, 0, 2],
        vec![0xff],
        vec![0xff, 0xff],
        // 16..: only drawn by the rich-indexer sub-checks (the generic selectors stay below 16):
        // prefixes that end in 0xff, whose upper boundary needs a carry
        vec![0x00, 0xff],
        vec![0x00, 0xff, 0xff],
        vec![0x00, 0xff, 0x00],
        vec![0xab, 0xff],
    ]
}

/// cell data variants (sizes 0..)
pub fn data_universe() -> Vec<Vec<u8>> {
    vec![
        vec![],
        vec![0x00],
        vec![0x00, 0x01],
        b"abc".to_vec(),
        b"abcd".to_vec(),
        b"xabcx".to_vec(),
        vec![0xff; 3],
        vec![0x00; 40],
    ]
}

pub const CAPACITIES: [u64; 8] = [0, 1, 100, 100, 101, 255, 256, 6_100_000_000];

pub fn raw_of(s: &Script) -> Vec<u8> {
    let mut v = Vec::with_capacity(33 + s.args().raw_data().len());
    v.extend_from_slice(s.code_hash().as_slice());
    v.extend_from_slice(s.hash_type().as_slice());
    v.extend_from_slice(&s.args().raw_data());
    v
}

pub fn script_of_raw(raw: &[u8]) -> Script {
    assert!(raw.len() >= 33);
    Script::new_builder()
        .code_hash(ckb_types::packed::Byte32::from_slice(&raw[0..32]).unwrap())
        .hash_type(ckb_types::packed::Byte::new(raw[32]))
        .args(ckb_types::bytes::Bytes::from(raw[33..].to_vec()).pack())
        .build()
}

pub fn hexs(b: &[u8]) -> String {
    crate::common::hex(b)
}

pub fn unhex(s: &str) -> Vec<u8> {
    (0..s.len() / 2)
        .map(|i| u8::from_str_radix(&s[2 * i..2 * i + 2], 16).unwrap_or(0))
        .collect()
}

/// render a raw script as `code[..4]/hash_type/args`
pub fn show_raw(raw: &[u8]) -> String {
    if raw.len() < 33 {
        return format!("raw:{}", hexs(raw));
    }
    format!("{}../{}/0x{}", hexs(&raw[0..3]), raw[32], hexs(&raw[33..]))
}

#[derive(Clone, Debug)]
pub struct MCell {
    pub tx_hash: H32,
    pub index: u32,
    pub block_number: u64,
    pub tx_index: u32,
    pub output: CellOutput,
    pub data: Vec<u8>,
    pub lock_raw: Vec<u8>,
    pub type_raw: Option<Vec<u8>>,
    pub capacity: u64,
}

#[derive(Clone, Debug)]
pub struct MEntry {
    pub tx_hash: H32,
    pub block_number: u64,
    pub tx_index: u32,
    pub io_index: u32,
    pub is_output: bool,
    pub lock_raw: Vec<u8>,
    pub type_raw: Option<Vec<u8>>,
    /// data and capacity of the cell (the rich-indexer filters transaction entries by them)
    pub data: Vec<u8>,
    pub capacity: u64,
}

/// chain state after some block of one branch
#[derive(Clone, Debug, Default)]
pub struct MState {
    pub live: BTreeMap<(H32, u32), MCell>,
    /// every (transaction, input|output cell) pair of the chain so far, in chain order
    pub entries: Vec<MEntry>,
    pub tip: Option<(u64, H32)>,
}

pub fn h32(b: &ckb_types::packed::Byte32) -> H32 {
    let mut a = [0u8; 32];
    a.copy_from_slice(b.as_slice());
    a
}

impl MState {
    /// state after `block` on top of `self`
    pub fn apply(&self, block: &BlockView) -> Result<MState, String> {
        let mut st = self.clone();
        let number = block.number();
        for (ti, tx) in block.transactions().iter().enumerate() {
            let txh = h32(&tx.hash());
            if ti > 0 {
                for (ii, input) in tx.inputs().into_iter().enumerate() {
                    let op = input.previous_output();
                    let idx: u32 = op.index().into();
                    let k = (h32(&op.tx_hash()), idx);
                    match st.live.remove(&k) {
                        Some(c) => st.entries.push(MEntry {
                            tx_hash: txh,
                            block_number: number,
                            tx_index: ti as u32,
                            io_index: ii as u32,
                            is_output: false,
                            lock_raw: c.lock_raw,
                            type_raw: c.type_raw,
                            data: c.data,
                            capacity: c.capacity,
                        }),
                        None => {
                            // the genesis block's dep-group transaction has a null input
                            if number != 0 {
                                return Err(format!("model: input {op} of tx {ti} in block {number} is not live"));
                            }
                        }
                    }
                }
            }
            for (oi, (o, d)) in tx.outputs_with_data_iter().enumerate() {
                let lock_raw = raw_of(&o.lock());
                let type_raw = o.type_().to_opt().map(|t| raw_of(&t));
                let capacity: u64 = o.capacity().into();
                st.entries.push(MEntry {
                    tx_hash: txh,
                    block_number: number,
                    tx_index: ti as u32,
                    io_index: oi as u32,
                    is_output: true,
                    lock_raw: lock_raw.clone(),
                    type_raw: type_raw.clone(),
                    data: d.to_vec(),
                    capacity,
                });
                st.live.insert(
                    (txh, oi as u32),
                    MCell {
                        tx_hash: txh,
                        index: oi as u32,
                        block_number: number,
                        tx_index: ti as u32,
                        output: o,
                        data: d.to_vec(),
                        lock_raw,
                        type_raw,
                        capacity,
                    },
                );
            }
        }
        st.tip = Some((number, h32(&block.hash())));
        Ok(st)
    }
}

// ------------------------------------------------------------------------------------------------
// concrete queries (plain data, what the replay file shows in violation details)

#[derive(Clone, Debug, Serialize, Deserialize, PartialEq, Eq, Hash)]
pub struct Filter {
    /// raw (code_hash ‖ hash_type ‖ args) hex of `filter.script`
    pub script: Option<String>,
    pub script_len_range: Option<(u64, u64)>,
    /// (hex data, mode 0 default / 1 prefix / 2 exact / 3 partial)
    pub output_data: Option<(String, u8)>,
    pub data_len_range: Option<(u64, u64)>,
    pub capacity_range: Option<(u64, u64)>,
    pub block_range: Option<(u64, u64)>,
}

impl Filter {
    pub fn is_empty(&self) -> bool {
        self.script.is_none()
            && self.script_len_range.is_none()
            && self.output_data.is_none()
            && self.data_len_range.is_none()
            && self.capacity_range.is_none()
            && self.block_range.is_none()
    }
    pub fn tx_supported(&self) -> bool {
        self.script_len_range.is_none()
            && self.output_data.is_none()
            && self.data_len_range.is_none()
            && self.capacity_range.is_none()
    }
}

pub const KIND_CELLS: u8 = 0;
pub const KIND_TXS: u8 = 1;
pub const KIND_TXS_GROUPED: u8 = 2;
pub const KIND_CAPACITY: u8 = 3;

pub const MODE_DEFAULT: u8 = 0;
pub const MODE_PREFIX: u8 = 1;
pub const MODE_EXACT: u8 = 2;
pub const MODE_PARTIAL: u8 = 3;

#[derive(Clone, Debug, Serialize, Deserialize, PartialEq, Eq, Hash)]
pub struct Query {
    pub kind: u8,
    /// raw (code_hash ‖ hash_type ‖ args) hex of the search script
    pub script: String,
    /// 0 lock, 1 type
    pub stype: u8,
    pub mode: u8,
    pub filter: Option<Filter>,
    pub desc: bool,
    /// page size of the paginated run (the one-shot run uses a large limit)
    pub limit: u32,
    pub with_data: Option<bool>,
}

impl Query {
    pub fn simple(kind: u8, raw: &[u8], stype: u8, mode: u8) -> Query {
        Query {
            kind,
            script: hexs(raw),
            stype,
            mode,
            filter: None,
            desc: false,
            limit: 0,
            with_data: None,
        }
    }
    pub fn show(&self) -> String {
        let kind = ["get_cells", "get_transactions", "get_transactions(grouped)", "get_cells_capacity"][self.kind as usize & 3];
        let mode = ["default", "prefix", "exact", "partial"][self.mode as usize & 3];
        format!(
            "{kind} script={} type={} mode={mode} filter={:?} order={} page={} with_data={:?}",
            show_raw(&unhex(&self.script)),
            if self.stype == 0 { "lock" } else { "type" },
            self.filter,
            if self.desc { "desc" } else { "asc" },
            self.limit,
            self.with_data
        )
    }
}

// ------------------------------------------------------------------------------------------------
// the oracle

/// How a cell / entry relates to the search script.
#[derive(Clone, Copy, PartialEq, Eq, Debug)]
pub enum Hit {
    No,
    /// matches by the documented semantics
    Yes,
    /// does NOT match by the documented semantics, but is what the recorded finding
    /// `prefix-search:false-positive…` returns: the script of the cell is a strict prefix of the
    /// search script and the rest of the search script equals the leading bytes of the cell's
    /// big-endian (block_number ‖ tx_index ‖ io_index [‖ io_type]) position
    KnownFalsePositive,
}

pub fn position_bytes(block_number: u64, tx_index: u32, io_index: u32, io_type: Option<bool>) -> Vec<u8> {
    let mut v = Vec::with_capacity(17);
    v.extend_from_slice(&block_number.to_be_bytes());
    v.extend_from_slice(&tx_index.to_be_bytes());
    v.extend_from_slice(&io_index.to_be_bytes());
    if let Some(out) = io_type {
        v.push(if out { 1 } else { 0 });
    }
    v
}

pub fn script_hit(mode: u8, key: &[u8], script: Option<&Vec<u8>>, pos: &[u8]) -> Hit {
    let s = match script {
        Some(s) => s,
        None => return Hit::No,
    };
    if mode == MODE_EXACT {
        return if s.as_slice() == key { Hit::Yes } else { Hit::No };
    }
    // prefix: code_hash and hash_type are fixed-size, so a prefix of the serialised script is
    // "same code_hash, same hash_type, args start with the search args"
    if s.starts_with(key) {
        return Hit::Yes;
    }
    if key.len() > s.len() && key.starts_with(s) && pos.starts_with(&key[s.len()..]) {
        return Hit::KnownFalsePositive;
    }
    Hit::No
}

pub fn in_range(r: &Option<(u64, u64)>, v: u64) -> bool {
    match r {
        Some((a, b)) => *a <= v && v < *b,
        None => true,
    }
}

pub fn contains(hay: &[u8], needle: &[u8]) -> bool {
    if needle.is_empty() {
        return true;
    }
    hay.windows(needle.len()).any(|w| w == needle)
}

/// `upper_inclusive_len`: evaluate script_len_range as `[start, end]` (the recorded
/// get_cells_capacity finding) instead of the documented `[start, end)`.
pub fn cell_filter_match(c: &MCell, stype: u8, f: &Filter, upper_inclusive_len: bool) -> bool {
    let other: Option<&Vec<u8>> = if stype == 0 { c.type_raw.as_ref() } else { Some(&c.lock_raw) };
    if let Some(p) = &f.script {
        let p = unhex(p);
        match other {
            Some(o) if o.starts_with(&p) => {}
            _ => return false,
        }
    }
    if let Some((a, b)) = f.script_len_range {
        let len = other.map(|o| o.len() as u64).unwrap_or(0);
        let ok = if upper_inclusive_len { a <= len && len <= b } else { a <= len && len < b };
        if !ok {
            return false;
        }
    }
    if let Some((d, mode)) = &f.output_data {
        let d = unhex(d);
        let ok = match *mode {
            MODE_EXACT => c.data == d,
            MODE_PARTIAL => contains(&c.data, &d),
            _ => c.data.starts_with(&d),
        };
        if !ok {
            return false;
        }
    }
    in_range(&f.data_len_range, c.data.len() as u64)
        && in_range(&f.capacity_range, c.capacity)
        && in_range(&f.block_range, c.block_number)
}

/// get_transactions: `filter.script` is "filter cells by type script" (no prefix), plus block_range
pub fn entry_filter_match(e: &MEntry, stype: u8, f: &Filter) -> bool {
    let other: Option<&Vec<u8>> = if stype == 0 { e.type_raw.as_ref() } else { Some(&e.lock_raw) };
    if let Some(p) = &f.script {
        let p = unhex(p);
        match other {
            Some(o) if *o == p => {}
            _ => return false,
        }
    }
    in_range(&f.block_range, e.block_number)
}

/// expected live cells (unordered): (strict matches, known-false-positive matches)
pub fn expect_cells<'a>(m: &'a MState, q: &Query, upper_inclusive_len: bool) -> (Vec<&'a MCell>, Vec<&'a MCell>) {
    let key = unhex(&q.script);
    let empty = Filter {
        script: None,
        script_len_range: None,
        output_data: None,
        data_len_range: None,
        capacity_range: None,
        block_range: None,
    };
    let f = q.filter.as_ref().unwrap_or(&empty);
    let mut yes = vec![];
    let mut fp = vec![];
    for c in m.live.values() {
        let s = if q.stype == 0 { Some(&c.lock_raw) } else { c.type_raw.as_ref() };
        let pos = position_bytes(c.block_number, c.tx_index, c.index, None);
        let hit = script_hit(q.mode, &key, s, &pos);
        if hit == Hit::No || !cell_filter_match(c, q.stype, f, upper_inclusive_len) {
            continue;
        }
        if hit == Hit::Yes { yes.push(c) } else { fp.push(c) }
    }
    (yes, fp)
}

pub fn expect_entries<'a>(m: &'a MState, q: &Query) -> (Vec<&'a MEntry>, Vec<&'a MEntry>) {
    let key = unhex(&q.script);
    let empty = Filter {
        script: None,
        script_len_range: None,
        output_data: None,
        data_len_range: None,
        capacity_range: None,
        block_range: None,
    };
    let f = q.filter.as_ref().unwrap_or(&empty);
    let mut yes = vec![];
    let mut fp = vec![];
    for e in &m.entries {
        let s = if q.stype == 0 { Some(&e.lock_raw) } else { e.type_raw.as_ref() };
        let pos = position_bytes(e.block_number, e.tx_index, e.io_index, Some(e.is_output));
        let hit = script_hit(q.mode, &key, s, &pos);
        if hit == Hit::No || !entry_filter_match(e, q.stype, f) {
            continue;
        }
        if hit == Hit::Yes { yes.push(e) } else { fp.push(e) }
    }
    (yes, fp)
}
