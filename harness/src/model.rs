//! RefModel — an independent reference model of the consensus state (DESIGN §1.5).
//!
//! It uses ckb-types data structures, molecule serialisation and blake2b, but none of the node's
//! calculators / verifiers / store for: total difficulty, rewards (primary, secondary, committer
//! and proposer shares), the DAO field, live-cell replay, the proposal window and the chain-root
//! MMR.  Epoch transitions are taken from `Consensus::next_epoch_ext` driven by a provider that is
//! backed by *this* model's block tree (the epoch arithmetic itself is property C07's subject).
use ckb_chain_spec::consensus::Consensus;
use ckb_traits::EpochProvider;
use ckb_types::{
    U256,
    bytes::Bytes,
    core::{
        BlockBuilder, BlockExt, BlockNumber, BlockView, Capacity, EpochExt, HeaderView,
        TransactionBuilder, TransactionView, UncleBlockView,
    },
    packed::{self, Byte32, CellInput, CellOutput, CellbaseWitness, OutPoint, ProposalShortId, Script},
    prelude::*,
};
use std::collections::{BTreeMap, BTreeSet, HashMap};
use std::sync::Arc;

pub type H = Byte32;

#[derive(Clone, Debug)]
pub struct LiveCell {
    pub output: CellOutput,
    pub data: Bytes,
    pub block_hash: H,
    pub block_number: u64,
    pub block_epoch: u64, // full value of EpochNumberWithFraction
    pub tx_index: u32,
    pub cellbase: bool,
}

/// key: (tx hash bytes, output index) — ordered, so iteration is deterministic
pub type CellKey = ([u8; 32], u32);

pub fn cell_key(op: &OutPoint) -> CellKey {
    let mut h = [0u8; 32];
    h.copy_from_slice(op.tx_hash().as_slice());
    let idx: u32 = op.index().into();
    (h, idx)
}

pub fn out_point_of(k: &CellKey) -> OutPoint {
    OutPoint::new(Byte32::from_slice(&k.0).unwrap(), k.1)
}

#[derive(Clone, Copy, Debug, PartialEq, Eq)]
pub struct Dao {
    pub ar: u64,
    pub c: u64,
    pub s: u64,
    pub u: u64,
}

impl Dao {
    /// RFC 0023 layout: four little-endian u64: C, AR, S, U
    pub fn pack(&self) -> Byte32 {
        let mut b = [0u8; 32];
        b[0..8].copy_from_slice(&self.c.to_le_bytes());
        b[8..16].copy_from_slice(&self.ar.to_le_bytes());
        b[16..24].copy_from_slice(&self.s.to_le_bytes());
        b[24..32].copy_from_slice(&self.u.to_le_bytes());
        Byte32::from_slice(&b).unwrap()
    }
    pub fn unpack(d: &Byte32) -> Dao {
        let b = d.as_slice();
        let g = |i: usize| u64::from_le_bytes(b[i..i + 8].try_into().unwrap());
        Dao {
            c: g(0),
            ar: g(8),
            s: g(16),
            u: g(24),
        }
    }
}

/// chain state after a block (per branch; cloned along the tree — histories are small)
#[derive(Clone, Debug, Default)]
pub struct ChainState {
    pub live: BTreeMap<CellKey, LiveCell>,
    /// committed tx hash -> (block hash, block number, index in block)
    pub tx_index: BTreeMap<[u8; 32], (H, u64, u32)>,
    /// uncles included so far on this branch (hash -> header of the uncle)
    pub uncles: BTreeMap<[u8; 32], u64>,
    /// total occupied capacity of live cells, recomputed from scratch (oracle for DAO `U`)
    pub occupied_total: u128,
}

pub fn h32(h: &Byte32) -> [u8; 32] {
    let mut a = [0u8; 32];
    a.copy_from_slice(h.as_slice());
    a
}

#[derive(Clone, Debug)]
pub struct MBlock {
    pub block: BlockView,
    pub hash: H,
    pub parent: H,
    pub number: u64,
    pub epoch: EpochExt,
    pub td: U256,
    pub total_uncles: u64,
    /// fee of every non-cellbase tx, block order
    pub txs_fees: Vec<u64>,
    pub dao: Dao,
    pub state: Arc<ChainState>,
    /// union of the block's proposals and its uncles' proposals
    pub proposals: BTreeSet<[u8; 10]>,
    /// primary + secondary issuance of this block (g), secondary part (g2)
    pub issuance_g: u64,
    pub issuance_g2: u64,
    /// miner lock recorded in the cellbase witness
    pub miner_lock: Script,
    /// valid by construction?  None = deliberately invalid (with the violated rule)
    pub invalid: Option<String>,
    /// MMR leaf digests are derived from headers; cached root of leaves 0..=number
    pub mmr_peaks: Vec<packed::HeaderDigest>,
}

pub fn pid(id: &ProposalShortId) -> [u8; 10] {
    let mut a = [0u8; 10];
    a.copy_from_slice(id.as_slice());
    a
}

/// occupied capacity (shannons) of a cell, from the RFC 0002/0022 definition:
/// 8 (capacity field) + lock (32 code hash + 1 hash type + args) + type (same, if any) + data
pub fn occupied_shannons(output: &CellOutput, data_len: usize) -> u128 {
    let script_bytes = |s: &Script| 32 + 1 + s.args().raw_data().len();
    let mut bytes = 8 + script_bytes(&output.lock()) + data_len;
    if let Some(t) = output.type_().to_opt() {
        bytes += script_bytes(&t);
    }
    bytes as u128 * 100_000_000u128
}

pub fn cap(o: &CellOutput) -> u64 {
    o.capacity().into()
}

pub struct Tree {
    pub consensus: Arc<Consensus>,
    pub blocks: HashMap<H, MBlock>,
    pub genesis: H,
    /// insertion order (deterministic iteration)
    pub order: Vec<H>,
    /// real proof of work (spec with an Eaglesong engine): every built block gets a nonce found by the
    /// harness's own search against the independent PoW reference (powmodel.rs); None = Dummy engine
    pub pow: Option<crate::powmodel::PowKind>,
}

pub struct ModelEpochView<'a>(pub &'a Tree);

impl EpochProvider for ModelEpochView<'_> {
    fn get_epoch_ext(&self, h: &HeaderView) -> Option<EpochExt> {
        self.0.blocks.get(&h.hash()).map(|b| b.epoch.clone())
    }
    fn get_block_hash(&self, number: BlockNumber) -> Option<Byte32> {
        if number == 0 { Some(self.0.genesis.clone()) } else { None }
    }
    fn get_block_ext(&self, hash: &Byte32) -> Option<BlockExt> {
        self.0.blocks.get(hash).map(|b| BlockExt {
            received_at: 0,
            total_difficulty: b.td.clone(),
            total_uncles_count: b.total_uncles,
            verified: Some(true),
            txs_fees: vec![],
            cycles: None,
            txs_sizes: None,
        })
    }
    fn get_block_header(&self, hash: &Byte32) -> Option<HeaderView> {
        self.0.blocks.get(hash).map(|b| b.block.header())
    }
}

/// difficulty of a compact target, computed independently: target = mantissa * 256^(exp-3),
/// difficulty = floor(2^256 / target) (== (2^256 - target) / target + 1 ... see RFC 0020);
/// the exact definition used by consensus is `(2^256-1 - target)/ (target) + 1`-like; we use
/// U256 arithmetic as documented in util/types/src/utilities/difficulty.rs::target_to_difficulty:
/// difficulty = 2^256 / target  (for target > 1), with target==1 -> U256::MAX, target==0 -> 0? .
pub fn difficulty_of_compact(compact: u32) -> U256 {
    let exponent = compact >> 24;
    let mantissa = compact & 0x00ff_ffff;
    // target as U256 (overflow cases do not occur for targets produced by the chain)
    let target: U256 = if exponent <= 3 {
        U256::from(mantissa >> (8 * (3 - exponent)))
    } else {
        U256::from(mantissa) << (8 * (exponent as usize - 3))
    };
    if target.is_zero() {
        return U256::zero();
    }
    if target == U256::one() {
        return U256::max_value();
    }
    // 2^256 / target == ((2^256 - 1 - target) / target) + 1  when target does not divide ... use
    // the identity floor(2^256/t) = floor((2^256 - t)/t) + 1 = floor((MAX - t + 1)/t) + 1
    let max = U256::max_value();
    ((max - &target + U256::one()) / &target) + U256::one()
}

fn blake2b_256(parts: &[&[u8]]) -> [u8; 32] {
    let mut hasher = ckb_hash::new_blake2b();
    for p in parts {
        hasher.update(p);
    }
    let mut out = [0u8; 32];
    hasher.finalize(&mut out);
    out
}

/// RFC 0044: node hash = blake2b-256 of the serialised HeaderDigest
pub fn digest_hash(d: &packed::HeaderDigest) -> [u8; 32] {
    blake2b_256(&[d.as_slice()])
}

pub fn leaf_digest(h: &HeaderView) -> packed::HeaderDigest {
    let raw = h.data().raw();
    packed::HeaderDigest::new_builder()
        .children_hash(h.hash())
        .total_difficulty(difficulty_of_compact(h.compact_target()))
        .start_number(raw.number())
        .end_number(raw.number())
        .start_epoch(raw.epoch())
        .end_epoch(raw.epoch())
        .start_timestamp(raw.timestamp())
        .end_timestamp(raw.timestamp())
        .start_compact_target(raw.compact_target())
        .end_compact_target(raw.compact_target())
        .build()
}

pub fn merge_digest(l: &packed::HeaderDigest, r: &packed::HeaderDigest) -> packed::HeaderDigest {
    let children = blake2b_256(&[&digest_hash(l), &digest_hash(r)]);
    let ld: U256 = l.total_difficulty().into();
    let rd: U256 = r.total_difficulty().into();
    packed::HeaderDigest::new_builder()
        .children_hash(Byte32::from_slice(&children).unwrap())
        .total_difficulty(ld + rd)
        .start_number(l.start_number())
        .start_epoch(l.start_epoch())
        .start_timestamp(l.start_timestamp())
        .start_compact_target(l.start_compact_target())
        .end_number(r.end_number())
        .end_epoch(r.end_epoch())
        .end_timestamp(r.end_timestamp())
        .end_compact_target(r.end_compact_target())
        .build()
}

/// peaks of an MMR as (height, digest), left to right; push = binary-counter carry
pub fn mmr_push(peaks: &mut Vec<(u32, packed::HeaderDigest)>, leaf: packed::HeaderDigest) {
    let mut cur = (0u32, leaf);
    while let Some((h, _)) = peaks.last() {
        if *h == cur.0 {
            let (_, left) = peaks.pop().unwrap();
            cur = (cur.0 + 1, merge_digest(&left, &cur.1));
        } else {
            break;
        }
    }
    peaks.push(cur);
}

/// bag the peaks right-to-left
pub fn mmr_root(peaks: &[(u32, packed::HeaderDigest)]) -> Option<packed::HeaderDigest> {
    let mut it = peaks.iter().rev();
    let mut acc = it.next()?.1.clone();
    for (_, p) in it {
        acc = merge_digest(p, &acc);
    }
    Some(acc)
}

pub fn mmr_root_of_headers<'a>(headers: impl Iterator<Item = &'a HeaderView>) -> Option<packed::HeaderDigest> {
    let mut peaks = vec![];
    for h in headers {
        mmr_push(&mut peaks, leaf_digest(h));
    }
    mmr_root(&peaks)
}

#[derive(Clone, Debug, Default)]
pub struct BlockSpec {
    pub timestamp: u64,
    pub uncles: Vec<UncleBlockView>,
    pub proposals: Vec<ProposalShortId>,
    /// non-cellbase transactions, must be valid on the parent's state in this order
    pub txs: Vec<TransactionView>,
    pub miner_lock: Option<Script>,
    pub message: Vec<u8>,
    /// extra bytes appended after the 32-byte chain root in the extension (0..=64)
    pub extension_extra: Vec<u8>,
    pub nonce: u128,
}

#[derive(Clone, Debug)]
pub struct RewardParts {
    pub target: H,
    pub target_number: u64,
    pub primary: u64,
    pub secondary: u64,
    pub committer: u64,
    pub proposer: u64,
    pub total: u64,
    pub lock: Script,
    /// proposer share computed with the node's clamp `max(c - w_far, 1)` on the competing
    /// proposal start (differs from `proposer` only when the target is block 1) — see C06 finding
    pub proposer_node_quirk: u64,
}

impl Tree {
    pub fn new(consensus: Arc<Consensus>) -> Tree {
        let g = consensus.genesis_block().clone();
        let gh = g.hash();
        let mut state = ChainState::default();
        apply_block_cells(&mut state, &g).expect("genesis applies");
        let dao = Dao::unpack(&g.header().dao());
        let mut peaks = vec![];
        mmr_push(&mut peaks, leaf_digest(&g.header()));
        let miner_lock = g
            .transactions()
            .first()
            .and_then(|cb| cb.witnesses().get(0))
            .and_then(|w| CellbaseWitness::from_slice(&w.raw_data()).ok())
            .map(|w| w.lock())
            .unwrap_or_default();
        let mb = MBlock {
            hash: gh.clone(),
            parent: g.parent_hash(),
            number: 0,
            epoch: consensus.genesis_epoch_ext().clone(),
            td: difficulty_of_compact(g.header().compact_target()),
            total_uncles: 0,
            txs_fees: vec![],
            dao,
            state: Arc::new(state),
            proposals: BTreeSet::new(),
            issuance_g: 0,
            issuance_g2: 0,
            miner_lock,
            invalid: None,
            mmr_peaks: peaks.into_iter().map(|p| encode_peak(&p)).collect(),
            block: g,
        };
        let mut blocks = HashMap::new();
        blocks.insert(gh.clone(), mb);
        let pow = match consensus.pow {
            ckb_pow::Pow::Dummy => None,
            ckb_pow::Pow::Eaglesong => Some(crate::powmodel::PowKind::Eaglesong),
            ckb_pow::Pow::EaglesongBlake2b => Some(crate::powmodel::PowKind::EaglesongBlake2b),
        };
        Tree {
            consensus,
            blocks,
            genesis: gh.clone(),
            order: vec![gh],
            pow,
        }
    }

    pub fn get(&self, h: &H) -> &MBlock {
        self.blocks.get(h).expect("model block")
    }

    pub fn ancestor(&self, h: &H, number: u64) -> Option<&MBlock> {
        let mut cur = self.blocks.get(h)?;
        if number > cur.number {
            return None;
        }
        while cur.number > number {
            cur = self.blocks.get(&cur.parent)?;
        }
        Some(cur)
    }

    /// path genesis..=h
    pub fn path(&self, h: &H) -> Vec<&MBlock> {
        let mut v = vec![];
        let mut cur = self.blocks.get(h);
        while let Some(b) = cur {
            v.push(b);
            if b.number == 0 {
                break;
            }
            cur = self.blocks.get(&b.parent);
        }
        v.reverse();
        v
    }

    pub fn is_ancestor(&self, anc: &H, of: &H) -> bool {
        let a = match self.blocks.get(anc) {
            Some(a) => a,
            None => return false,
        };
        self.ancestor(of, a.number).map(|b| &b.hash == anc).unwrap_or(false)
    }

    pub fn window(&self) -> (u64, u64) {
        let w = self.consensus.tx_proposal_window();
        (w.closest(), w.farthest())
    }

    /// ids committable in a block whose parent is `parent`: proposals (incl. uncles') of the
    /// ancestors at distance w_close..=w_far from that block, genesis excluded
    pub fn committable(&self, parent: &H) -> BTreeSet<[u8; 10]> {
        let (close, far) = self.window();
        let n = self.get(parent).number + 1;
        let mut set = BTreeSet::new();
        let mut cur = self.get(parent);
        loop {
            let dist = n - cur.number;
            if cur.number == 0 || dist > far {
                break;
            }
            if dist >= close {
                set.extend(cur.proposals.iter().cloned());
            }
            cur = self.get(&cur.parent);
        }
        set
    }

    /// ids proposed closer than w_close (the "gap")
    pub fn gap(&self, parent: &H) -> BTreeSet<[u8; 10]> {
        let (close, _) = self.window();
        let n = self.get(parent).number + 1;
        let mut set = BTreeSet::new();
        let mut cur = self.get(parent);
        loop {
            let dist = n - cur.number;
            if cur.number == 0 || dist >= close {
                break;
            }
            set.extend(cur.proposals.iter().cloned());
            cur = self.get(&cur.parent);
        }
        set
    }

    fn epoch_primary_total(&self, epoch_number: u64) -> u64 {
        let halvings = epoch_number / self.consensus.primary_epoch_reward_halving_interval();
        let init = self.consensus.initial_primary_epoch_reward().as_u64();
        if halvings >= 64 { 0 } else { init >> halvings }
    }

    /// scheduled primary issuance of block `number` in `epoch`
    pub fn primary_issuance(&self, epoch: &EpochExt, number: u64) -> u64 {
        let total = self.epoch_primary_total(epoch.number());
        let base = total / epoch.length();
        let rem = total % epoch.length();
        base + if number - epoch.start_number() < rem { 1 } else { 0 }
    }

    pub fn secondary_issuance(&self, epoch: &EpochExt, number: u64) -> u64 {
        let total = self.consensus.secondary_epoch_reward().as_u64();
        let base = total / epoch.length();
        let rem = total % epoch.length();
        base + if number - epoch.start_number() < rem { 1 } else { 0 }
    }

    /// The reward that the block on top of `parent` must pay (None = no finalisation target yet).
    pub fn reward_for_child_of(&self, parent: &H) -> Option<RewardParts> {
        let (close, far) = self.window();
        let p = self.get(parent);
        let n = p.number + 1;
        if n <= far + 1 {
            return None;
        }
        let t = n - far - 1;
        let target = self.ancestor(parent, t).unwrap();
        let primary = self.primary_issuance(&target.epoch, t);
        let tp = self.get(&target.parent);
        let g2 = self.secondary_issuance(&target.epoch, t);
        let secondary = (g2 as u128 * tp.dao.u as u128 / tp.dao.c as u128) as u64;
        let committer: u64 = target.txs_fees.iter().map(|f| f - proposer_share(*f)).sum();
        // proposer share: for every tx committed in c in [t+close, t+far] whose id the target
        // proposed and that no earlier block of c's window [c-far, c-close] proposed
        let mut proposer = 0u64;
        let mut proposer_quirk = 0u64;
        for c in (t + close)..=(t + far) {
            let cb = match self.ancestor(parent, c) {
                Some(b) => b,
                None => continue,
            };
            for (i, tx) in cb.block.transactions().iter().enumerate().skip(1) {
                let id = pid(&tx.proposal_short_id());
                if !target.proposals.contains(&id) {
                    continue;
                }
                let fee = cb.txs_fees[i - 1];
                let lo = c.saturating_sub(far).max(1);
                let mut earlier = false;
                for b in lo..t {
                    if self.ancestor(parent, b).unwrap().proposals.contains(&id) {
                        earlier = true;
                        break;
                    }
                }
                if !earlier {
                    proposer += proposer_share(fee);
                }
                // what the node computes: walking commit blocks downwards from t+far it adds the
                // proposals of block max(c'-far, 1) for every c' in (c ..= t+far-1]; for t == 1
                // the clamp makes that block 1 (the target itself)
                let mut earlier_q = earlier;
                if !earlier_q && c < t + far {
                    for c2 in c..(t + far) {
                        let b = c2.saturating_sub(far).max(1);
                        if b >= t && self.ancestor(parent, b).unwrap().proposals.contains(&id) {
                            earlier_q = true;
                        }
                    }
                }
                if !earlier_q {
                    proposer_quirk += proposer_share(fee);
                }
            }
        }
        let total = primary + secondary + committer + proposer;
        Some(RewardParts {
            target: target.hash.clone(),
            target_number: t,
            primary,
            secondary,
            committer,
            proposer,
            total,
            lock: target.miner_lock.clone(),
            proposer_node_quirk: proposer_quirk,
        })
    }

    /// Build a block on `parent` per `spec` with every commitment computed by the model.
    /// Returns the block and the derived per-block record (not yet inserted).
    pub fn build(&self, parent: &H, spec: &BlockSpec, opts: &BuildOpts) -> Result<MBlock, String> {
        let p = self.get(parent);
        let number = p.number + 1;
        let epoch = self
            .consensus
            .next_epoch_ext(&p.block.header(), &ModelEpochView(self))
            .ok_or("no epoch")?
            .epoch();
        let miner_lock = spec.miner_lock.clone().unwrap_or_else(|| p.miner_lock.clone());
        let witness = CellbaseWitness::new_builder()
            .lock(miner_lock.clone())
            .message(spec.message.pack())
            .build();
        let cb_input = if opts.cellbase_since_delta == 0 {
            CellInput::new_cellbase_input(number)
        } else {
            CellInput::new(OutPoint::null(), (number as i64 + opts.cellbase_since_delta) as u64)
        };
        let mut cb = TransactionBuilder::default().input(cb_input);
        cb = match opts.cellbase_bad_witness {
            0 => cb.witness(witness.as_bytes().pack()),
            1 => cb,
            2 => cb.witness(Bytes::from(vec![1u8, 2, 3]).pack()),
            _ => {
                let bad_lock = miner_lock.clone().as_builder().hash_type(packed::Byte::new(0x7f)).build();
                let w = CellbaseWitness::new_builder().lock(bad_lock).message(spec.message.pack()).build();
                cb.witness(w.as_bytes().pack())
            }
        };
        let reward = self.reward_for_child_of(parent);
        let mut pay: Option<(u64, Script)> = reward.as_ref().map(|r| {
            let total = if opts.use_node_reward_quirk {
                r.primary + r.secondary + r.committer + r.proposer_node_quirk
            } else {
                r.total
            };
            ((total as i128 + opts.reward_delta as i128) as u64, r.lock.clone())
        });
        if pay.is_none() && opts.cellbase_force_output {
            pay = Some((100_000_000_000, miner_lock.clone()));
        }
        if let Some((total, lock)) = pay {
            let lock = opts.cellbase_lock_override.clone().unwrap_or(lock);
            let data = Bytes::from(opts.cellbase_data.clone());
            let mk = |c: u64| {
                let mut b = CellOutput::new_builder().capacity(Capacity::shannons(c)).lock(lock.clone());
                if let Some(t) = &opts.cellbase_type {
                    b = b.type_(Some(t.clone()).pack());
                }
                b.build()
            };
            let out = mk(total);
            if occupied_shannons(&out, data.len()) <= total as u128 || opts.cellbase_force_output {
                if opts.cellbase_split && total > 2 * occupied_shannons(&out, 0) as u64 {
                    let half = total / 2;
                    cb = cb
                        .output(mk(half))
                        .output_data(data.clone().pack())
                        .output(mk(total - half))
                        .output_data(Bytes::new().pack());
                } else {
                    cb = cb.output(out).output_data(data.pack());
                }
            }
        }
        let cellbase = cb.build();

        // state transition + fees + occupied deltas
        let mut state = (*p.state).clone();
        let mut txs = vec![cellbase.clone()];
        txs.extend(spec.txs.iter().cloned());
        if opts.extra_cellbase {
            txs.push(
                TransactionBuilder::default()
                    .input(CellInput::new_cellbase_input(number))
                    .witness(witness.as_bytes().pack())
                    .build(),
            );
        }
        let mut fees = vec![];
        let mut freed: u128 = 0;
        let mut added: u128 = 0;
        let mut withdrawn_interest: u128 = 0;
        let header_stub_hash = Byte32::zero();
        for (i, tx) in txs.iter().enumerate() {
            let mut in_cap: u128 = 0;
            for (input_idx, input) in tx.inputs().into_iter().enumerate() {
                if i == 0 || tx.is_cellbase() {
                    continue;
                }
                let k = cell_key(&input.previous_output());
                let cell = match state.live.remove(&k) {
                    Some(c) => c,
                    None if opts.allow_missing_inputs => continue,
                    None => return Err(format!("tx {i} input not live in model: {}", input.previous_output())),
                };
                freed += occupied_shannons(&cell.output, cell.data.len());
                let (maxw, interest) = self.withdraw_value(&cell, tx, input_idx, parent)?;
                in_cap += maxw as u128;
                withdrawn_interest += interest as u128;
            }
            let mut out_cap: u128 = 0;
            for (j, (o, d)) in tx.outputs_with_data_iter().enumerate() {
                out_cap += cap(&o) as u128;
                added += occupied_shannons(&o, d.len());
                state.live.insert(
                    (h32(&tx.hash()), j as u32),
                    LiveCell {
                        output: o,
                        data: d,
                        block_hash: header_stub_hash.clone(),
                        block_number: number,
                        block_epoch: epoch.number_with_fraction(number).full_value(),
                        tx_index: i as u32,
                        cellbase: i == 0,
                    },
                );
            }
            if i > 0 {
                if in_cap < out_cap && !(opts.allow_missing_inputs || tx.is_cellbase()) {
                    return Err(format!("tx {i} outputs exceed inputs"));
                }
                fees.push(in_cap.saturating_sub(out_cap) as u64);
            }
        }

        // DAO field (RFC 0023)
        let g2 = self.secondary_issuance(&epoch, number);
        let g = self.primary_issuance(&epoch, number) + g2;
        let pd = p.dao;
        let miner_issuance = (g2 as u128 * pd.u as u128 / pd.c as u128) as u64;
        let dao_issuance = g2 - miner_issuance;
        let mut dao = Dao {
            c: pd.c + g,
            u: (pd.u as u128 + added - freed) as u64,
            s: (pd.s as u128 + dao_issuance as u128 - withdrawn_interest) as u64,
            ar: pd.ar + (pd.ar as u128 * g2 as u128 / pd.c as u128) as u64,
        };
        dao.c = (dao.c as i128 + opts.dao_delta[0] as i128) as u64;
        dao.ar = (dao.ar as i128 + opts.dao_delta[1] as i128) as u64;
        dao.s = (dao.s as i128 + opts.dao_delta[2] as i128) as u64;
        dao.u = (dao.u as i128 + opts.dao_delta[3] as i128) as u64;

        // extension: chain root of genesis..=parent
        let parent_peaks: Vec<(u32, packed::HeaderDigest)> = p.mmr_peaks.iter().map(decode_peak).collect();
        let root = mmr_root(&parent_peaks).ok_or("no mmr root")?;
        let mut ext = digest_hash(&root).to_vec();
        if opts.flip_chain_root {
            ext[0] ^= 1;
        }
        ext.extend_from_slice(&spec.extension_extra);
        if let Some(o) = &opts.extension_override {
            ext = o.clone();
        }
        if opts.cellbase_not_first && txs.len() >= 2 {
            txs.swap(0, 1);
        }

        let mut bb = BlockBuilder::default()
            .version(0u32)
            .parent_hash(parent.clone())
            .number(number)
            .epoch(epoch.number_with_fraction(number))
            .compact_target(epoch.compact_target())
            .timestamp(spec.timestamp)
            .dao(dao.pack())
            .nonce(spec.nonce)
            .transactions(txs.clone())
            .proposals(spec.proposals.clone())
            .uncles(spec.uncles.clone());
        if !opts.no_extension {
            bb = bb.extension(Some(ext.pack()));
        }
        let mut block = bb.build();
        if let Some(kind) = self.pow {
            block = crate::powmodel::seal(kind, &block, spec.nonce, opts.nonce_mode)
                .ok_or_else(|| format!("no nonce for mode {:?} within the search cap", opts.nonce_mode))?;
        }
        let hash = block.hash();
        // fix up created-by block hash
        for (_, c) in state.live.iter_mut() {
            if c.block_number == number && c.block_hash == header_stub_hash {
                c.block_hash = hash.clone();
            }
        }
        for (i, tx) in txs.iter().enumerate() {
            state.tx_index.insert(h32(&tx.hash()), (hash.clone(), number, i as u32));
        }
        for u in spec.uncles.iter() {
            state.uncles.insert(h32(&u.hash()), u.number());
        }
        state.occupied_total = state
            .live
            .values()
            .map(|c| occupied_shannons(&c.output, c.data.len()))
            .sum();
        let mut proposals: BTreeSet<[u8; 10]> = spec.proposals.iter().map(pid).collect();
        for u in spec.uncles.iter() {
            proposals.extend(u.data().proposals().into_iter().map(|i| pid(&i)));
        }
        let mut peaks = parent_peaks;
        mmr_push(&mut peaks, leaf_digest(&block.header()));
        Ok(MBlock {
            hash,
            parent: parent.clone(),
            number,
            td: p.td.clone() + difficulty_of_compact(epoch.compact_target()),
            epoch,
            total_uncles: p.total_uncles + spec.uncles.len() as u64,
            txs_fees: fees,
            dao,
            state: Arc::new(state),
            proposals,
            issuance_g: g,
            issuance_g2: g2,
            miner_lock,
            invalid: None,
            mmr_peaks: peaks.iter().map(encode_peak).collect(),
            block,
        })
    }

    /// maximum withdraw of an input cell and the interest part (0 for ordinary cells).
    /// NervosDAO phase-2 withdrawals: counted*AR_w/AR_d + occupied.
    pub fn dao_withdraw_value(&self, cell: &LiveCell, parent: &H) -> Result<(u64, u64), String> {
        let tx = TransactionBuilder::default().build();
        self.withdraw_value(cell, &tx, 0, parent)
    }

    fn withdraw_value(&self, cell: &LiveCell, tx: &TransactionView, input_idx: usize, parent: &H) -> Result<(u64, u64), String> {
        let c = cap(&cell.output);
        let is_dao = cell
            .output
            .type_()
            .to_opt()
            .map(|t| {
                let ht: u8 = t.hash_type().into();
                ht == 1 && t.code_hash() == self.consensus.dao_type_hash()
            })
            .unwrap_or(false);
        if !is_dao || cell.data.len() != 8 {
            return Ok((c, 0));
        }
        let deposit_number = u64::from_le_bytes(cell.data[..8].try_into().unwrap());
        if deposit_number == 0 {
            return Ok((c, 0)); // a deposit cell being moved to phase 1
        }
        // phase-2: withdrawing cell created in block W (cell.block_number), deposit in block D
        let w = self
            .ancestor(parent, cell.block_number)
            .ok_or("withdraw header not an ancestor")?;
        // the deposit block is the header dep named by the input's witness (RFC 0023: index in
        // WitnessArgs.input_type); without a readable witness: the number recorded in the cell
        let named: Option<H> = tx
            .witnesses()
            .get(input_idx)
            .and_then(|w| packed::WitnessArgs::from_slice(&w.raw_data()).ok())
            .and_then(|wa| wa.input_type().to_opt().map(|b| b.raw_data()))
            .filter(|b| b.len() == 8)
            .map(|b| u64::from_le_bytes(b[..8].try_into().unwrap()))
            .and_then(|i| tx.header_deps().get(i as usize));
        let d = match named {
            Some(h) => {
                let b = self.blocks.get(&h).ok_or("named deposit header unknown")?;
                if !self.is_ancestor(&h, parent) {
                    return Err("named deposit header not an ancestor".into());
                }
                b
            }
            None => self
                .ancestor(parent, deposit_number)
                .ok_or("deposit header not an ancestor")?,
        };
        if d.number >= w.number {
            return Err("deposit block not before the withdrawing block".into());
        }
        let occupied = occupied_shannons(&cell.output, cell.data.len()) as u64;
        let counted = c - occupied;
        let wv = (counted as u128 * w.dao.ar as u128 / d.dao.ar as u128) as u64 + occupied;
        Ok((wv, wv - c))
    }

    pub fn insert(&mut self, b: MBlock) -> H {
        let h = b.hash.clone();
        if !self.blocks.contains_key(&h) {
            self.order.push(h.clone());
            self.blocks.insert(h.clone(), b);
        }
        h
    }

    /// median of the previous `count` timestamps ending at `h` (RFC 0027 block_median_time)
    pub fn median_time(&self, h: &H) -> u64 {
        let count = self.consensus.median_time_block_count();
        let mut ts = vec![];
        let mut cur = self.blocks.get(h);
        while let Some(b) = cur {
            ts.push(b.block.timestamp());
            if ts.len() >= count || b.number == 0 {
                break;
            }
            cur = self.blocks.get(&b.parent);
        }
        ts.sort();
        ts[ts.len() >> 1]
    }
}

pub fn proposer_share(fee: u64) -> u64 {
    (fee as u128 * 4 / 10) as u64
}

fn encode_peak(p: &(u32, packed::HeaderDigest)) -> packed::HeaderDigest {
    // height is recoverable from the number range: end-start+1 = 2^height
    p.1.clone()
}

fn decode_peak(d: &packed::HeaderDigest) -> (u32, packed::HeaderDigest) {
    let s: u64 = d.start_number().into();
    let e: u64 = d.end_number().into();
    let n = e - s + 1;
    (n.trailing_zeros(), d.clone())
}

#[derive(Clone, Debug, Default)]
pub struct BuildOpts {
    /// pay what the node computes for the known block-1 proposer clamp (C06 finding) so that
    /// histories continue behind it
    pub use_node_reward_quirk: bool,
    pub reward_delta: i64,
    /// deltas on (C, AR, S, U)
    pub dao_delta: [i64; 4],
    pub flip_chain_root: bool,
    pub no_extension: bool,
    // ---- single-rule mutations of the cellbase / body (C03); every other commitment of the
    // block (DAO field, roots, reward amount) stays consistent with the mutated body
    /// pay the reward in two outputs
    pub cellbase_split: bool,
    /// non-empty output data on the cellbase output
    pub cellbase_data: Vec<u8>,
    /// give the cellbase output a type script
    pub cellbase_type: Option<Script>,
    /// cellbase input `since` = number + delta
    pub cellbase_since_delta: i64,
    /// 0 proper witness, 1 no witness, 2 garbage bytes, 3 lock with an unknown hash_type
    pub cellbase_bad_witness: u8,
    /// pay to this lock instead of the target's
    pub cellbase_lock_override: Option<Script>,
    /// create an output although nothing is finalised yet
    pub cellbase_force_output: bool,
    /// append a second cellbase-shaped transaction
    pub extra_cellbase: bool,
    /// put the cellbase second (needs one other transaction)
    pub cellbase_not_first: bool,
    /// raw extension bytes instead of chain root ‖ extra
    pub extension_override: Option<Vec<u8>>,
    /// inputs that are not live are taken as zero-capacity (double spends / unknown cells)
    pub allow_missing_inputs: bool,
    /// how the nonce is chosen when the spec has a real PoW engine (ignored under Dummy)
    pub nonce_mode: crate::powmodel::NonceMode,
}

/// apply a block's cell changes to a state (used for genesis and for replays of foreign blocks)
pub fn apply_block_cells(state: &mut ChainState, b: &BlockView) -> Result<(), String> {
    let number = b.number();
    let hash = b.hash();
    for (i, tx) in b.transactions().iter().enumerate() {
        if i > 0 {
            for input in tx.inputs().into_iter() {
                let k = cell_key(&input.previous_output());
                state
                    .live
                    .remove(&k)
                    .ok_or_else(|| format!("replay: input {} not live", input.previous_output()))?;
            }
        }
        for (j, (o, d)) in tx.outputs_with_data_iter().enumerate() {
            state.live.insert(
                (h32(&tx.hash()), j as u32),
                LiveCell {
                    output: o,
                    data: d,
                    block_hash: hash.clone(),
                    block_number: number,
                    block_epoch: b.epoch().full_value(),
                    tx_index: i as u32,
                    cellbase: i == 0,
                },
            );
        }
        state.tx_index.insert(h32(&tx.hash()), (hash.clone(), number, i as u32));
    }
    for u in b.uncles().into_iter() {
        state.uncles.insert(h32(&u.hash()), u.number());
    }
    state.occupied_total = state
        .live
        .values()
        .map(|c| occupied_shannons(&c.output, c.data.len()))
        .sum();
    Ok(())
}
