//! Independent interpreter of the molecule schema language and encoding
//! (https://github.com/nervosnetwork/molecule docs/schema_language.md, docs/encoding_spec.md).
//!
//! * `Schema::load` parses the `.mol` files of the repository at run time.
//! * `Val` is an abstract value tree; `Schema::encode` produces the canonical bytes.
//! * `Schema::decode` decides for ARBITRARY bytes whether they are an encoding of a type (strict:
//!   canonical; compatible: tables may carry extra trailing fields) and returns the tree.
//! * `Gen` builds a value from a "choice tape" (`&[u8]`): every decision consumes tape bytes, an
//!   exhausted tape yields zeros = the minimal value, so proptest's shrinking of the tape shrinks
//!   the value and a case `(type name, tape)` is self-contained.
//!
//! Nothing in here calls molecule or the generated code.
use serde::{Deserialize, Serialize};
use std::collections::BTreeMap;
use std::path::Path;

#[derive(Clone, Debug, PartialEq)]
pub enum Kind {
    Byte,
    Array { item: String, count: usize },
    Struct { fields: Vec<(String, String)> },
    Vector { item: String },
    Table { fields: Vec<(String, String)> },
    Option { item: String },
    Union { items: Vec<(String, u32)> },
}

/// Why a byte string is not an encoding: innermost type, rule class, free text.
#[derive(Clone, Debug, PartialEq)]
pub struct DecErr {
    pub ty: String,
    pub class: &'static str,
    pub msg: String,
}

impl std::fmt::Display for DecErr {
    fn fmt(&self, f: &mut std::fmt::Formatter) -> std::fmt::Result {
        write!(f, "{}: {} ({})", self.ty, self.class, self.msg)
    }
}

fn derr<T>(ty: &str, class: &'static str, msg: String) -> Result<T, DecErr> {
    Err(DecErr { ty: ty.to_string(), class, msg })
}

#[derive(Clone, Debug, Default)]
pub struct Schema {
    pub defs: BTreeMap<String, Kind>,
    /// (file stem, type name) in declaration order
    pub order: Vec<(String, String)>,
}

#[derive(Clone, Debug, PartialEq, Eq, Hash, Serialize, Deserialize)]
pub enum Val {
    Byte(u8),
    /// array of `byte` or vector of `byte`: the raw content
    Raw(Vec<u8>),
    /// array (non-byte items), struct fields, fixvec/dynvec items, table fields — in schema order
    Seq(Vec<Val>),
    /// table with extra trailing fields (compatible mode only): declared fields, raw extras
    TableX(Vec<Val>, Vec<Vec<u8>>),
    None,
    Some(Box<Val>),
    Union(u32, Box<Val>),
    /// NOT a value: the inner value's encoding with stray bytes before / after it, all enclosing
    /// headers consistent with the enlarged size (structural mutation "gap between fields")
    Padded(Box<Val>, Vec<u8>, Vec<u8>),
}

// ------------------------------------------------------------------------------------------
// parser
// ------------------------------------------------------------------------------------------

#[derive(Clone, Debug, PartialEq)]
enum Tok {
    Ident(String),
    Num(u64),
    P(char),
}

fn tokenize(src: &str) -> Result<Vec<Tok>, String> {
    let b: Vec<char> = src.chars().collect();
    let mut i = 0;
    let mut out = vec![];
    while i < b.len() {
        let c = b[i];
        if c.is_whitespace() {
            i += 1;
        } else if c == '/' && i + 1 < b.len() && b[i + 1] == '/' {
            while i < b.len() && b[i] != '\n' {
                i += 1;
            }
        } else if c == '/' && i + 1 < b.len() && b[i + 1] == '*' {
            i += 2;
            while i + 1 < b.len() && !(b[i] == '*' && b[i + 1] == '/') {
                i += 1;
            }
            if i + 1 >= b.len() {
                return Err("unterminated block comment".into());
            }
            i += 2;
        } else if c.is_ascii_alphabetic() || c == '_' {
            let s = i;
            while i < b.len() && (b[i].is_ascii_alphanumeric() || b[i] == '_') {
                i += 1;
            }
            out.push(Tok::Ident(b[s..i].iter().collect()));
        } else if c.is_ascii_digit() {
            let s = i;
            while i < b.len() && b[i].is_ascii_digit() {
                i += 1;
            }
            let t: String = b[s..i].iter().collect();
            out.push(Tok::Num(t.parse().map_err(|e| format!("number {t}: {e}"))?));
        } else if ";,:{}[]<>()".contains(c) {
            out.push(Tok::P(c));
            i += 1;
        } else {
            return Err(format!("unexpected character {c:?}"));
        }
    }
    Ok(out)
}

struct Parser {
    t: Vec<Tok>,
    i: usize,
}

impl Parser {
    fn peek(&self) -> Option<&Tok> {
        self.t.get(self.i)
    }
    fn next(&mut self) -> Result<Tok, String> {
        let t = self.t.get(self.i).cloned().ok_or("unexpected end of schema")?;
        self.i += 1;
        Ok(t)
    }
    fn ident(&mut self) -> Result<String, String> {
        match self.next()? {
            Tok::Ident(s) => Ok(s),
            t => Err(format!("expected identifier, got {t:?}")),
        }
    }
    fn num(&mut self) -> Result<u64, String> {
        match self.next()? {
            Tok::Num(n) => Ok(n),
            t => Err(format!("expected number, got {t:?}")),
        }
    }
    fn p(&mut self, c: char) -> Result<(), String> {
        match self.next()? {
            Tok::P(x) if x == c => Ok(()),
            t => Err(format!("expected {c:?}, got {t:?}")),
        }
    }
    fn eat(&mut self, c: char) -> bool {
        if self.peek() == Some(&Tok::P(c)) {
            self.i += 1;
            true
        } else {
            false
        }
    }
    fn fields(&mut self) -> Result<Vec<(String, String)>, String> {
        self.p('{')?;
        let mut v = vec![];
        while !self.eat('}') {
            let name = self.ident()?;
            self.p(':')?;
            let ty = self.ident()?;
            v.push((name, ty));
            if !self.eat(',') {
                self.p('}')?;
                break;
            }
        }
        Ok(v)
    }
}

impl Schema {
    /// Parse `<dir>/<stem>.mol` for each stem (imports are loaded on demand from the same dir).
    pub fn load(dir: &Path, stems: &[&str]) -> Result<Schema, String> {
        let mut s = Schema::default();
        let mut loaded: Vec<String> = vec![];
        for st in stems {
            s.load_file(dir, st, &mut loaded)?;
        }
        s.validate()?;
        Ok(s)
    }

    fn load_file(&mut self, dir: &Path, stem: &str, loaded: &mut Vec<String>) -> Result<(), String> {
        if loaded.iter().any(|l| l == stem) {
            return Ok(());
        }
        loaded.push(stem.to_string());
        let path = dir.join(format!("{stem}.mol"));
        let src = std::fs::read_to_string(&path).map_err(|e| format!("{}: {e}", path.display()))?;
        self.parse_source(stem, &src, &mut |me: &mut Schema, imp: &str, l: &mut Vec<String>| me.load_file(dir, imp, l), loaded)
            .map_err(|e| format!("{}: {e}", path.display()))
    }

    pub fn parse_str(stem: &str, src: &str) -> Result<Schema, String> {
        let mut s = Schema::default();
        let mut loaded = vec![];
        s.parse_source(stem, src, &mut |_, imp, _| Err(format!("import {imp} not available")), &mut loaded)?;
        s.validate()?;
        Ok(s)
    }

    fn parse_source(
        &mut self,
        stem: &str,
        src: &str,
        import: &mut dyn FnMut(&mut Schema, &str, &mut Vec<String>) -> Result<(), String>,
        loaded: &mut Vec<String>,
    ) -> Result<(), String> {
        let mut p = Parser { t: tokenize(src)?, i: 0 };
        while p.peek().is_some() {
            let kw = p.ident()?;
            if kw == "import" {
                let name = p.ident()?;
                p.p(';')?;
                import(self, &name, loaded)?;
                continue;
            }
            let name = p.ident()?;
            let kind = match kw.as_str() {
                "array" => {
                    p.p('[')?;
                    let item = p.ident()?;
                    p.p(';')?;
                    let count = p.num()? as usize;
                    p.p(']')?;
                    p.p(';')?;
                    Kind::Array { item, count }
                }
                "vector" => {
                    p.p('<')?;
                    let item = p.ident()?;
                    p.p('>')?;
                    p.p(';')?;
                    Kind::Vector { item }
                }
                "option" => {
                    p.p('(')?;
                    let item = p.ident()?;
                    p.p(')')?;
                    p.p(';')?;
                    Kind::Option { item }
                }
                "struct" => Kind::Struct { fields: p.fields()? },
                "table" => Kind::Table { fields: p.fields()? },
                "union" => {
                    p.p('{')?;
                    let mut items = vec![];
                    let mut next_id: u32 = 0;
                    while !p.eat('}') {
                        let it = p.ident()?;
                        let id = if p.eat(':') { p.num()? as u32 } else { next_id };
                        next_id = id.wrapping_add(1);
                        items.push((it, id));
                        if !p.eat(',') {
                            p.p('}')?;
                            break;
                        }
                    }
                    Kind::Union { items }
                }
                other => return Err(format!("unknown declaration keyword {other:?}")),
            };
            if self.defs.insert(name.clone(), kind).is_some() || name == "byte" {
                return Err(format!("duplicate type {name}"));
            }
            self.order.push((stem.to_string(), name));
        }
        Ok(())
    }

    fn validate(&self) -> Result<(), String> {
        for (n, k) in &self.defs {
            let refs: Vec<&String> = match k {
                Kind::Byte => vec![],
                Kind::Array { item, .. } | Kind::Vector { item } | Kind::Option { item } => vec![item],
                Kind::Struct { fields } | Kind::Table { fields } => fields.iter().map(|f| &f.1).collect(),
                Kind::Union { items } => items.iter().map(|i| &i.0).collect(),
            };
            for r in refs {
                if r != "byte" && !self.defs.contains_key(r) {
                    return Err(format!("type {n} refers to unknown type {r}"));
                }
            }
            match k {
                Kind::Array { item, .. } if self.fixed_size(item).is_none() => {
                    return Err(format!("array {n} of dynamic item"));
                }
                Kind::Struct { fields } if fields.iter().any(|f| self.fixed_size(&f.1).is_none()) => {
                    return Err(format!("struct {n} with dynamic field"));
                }
                Kind::Union { items } if items.is_empty() => return Err(format!("empty union {n}")),
                _ => {}
            }
        }
        Ok(())
    }

    pub fn kind(&self, ty: &str) -> &Kind {
        static BYTE: Kind = Kind::Byte;
        if ty == "byte" {
            &BYTE
        } else {
            self.defs.get(ty).unwrap_or_else(|| panic!("unknown schema type {ty}"))
        }
    }

    /// Some(size) for fixed-size types (byte, array, struct)
    pub fn fixed_size(&self, ty: &str) -> Option<usize> {
        match self.kind(ty) {
            Kind::Byte => Some(1),
            Kind::Array { item, count } => self.fixed_size(item).map(|s| s * count),
            Kind::Struct { fields } => {
                let mut t = 0;
                for f in fields {
                    t += self.fixed_size(&f.1)?;
                }
                Some(t)
            }
            _ => None,
        }
    }

    pub fn field_index(&self, ty: &str, name: &str) -> usize {
        match self.kind(ty) {
            Kind::Struct { fields } | Kind::Table { fields } => fields
                .iter()
                .position(|f| f.0 == name)
                .unwrap_or_else(|| panic!("{ty} has no field {name}")),
            _ => panic!("{ty} is not a struct/table"),
        }
    }

    pub fn field_type(&self, ty: &str, name: &str) -> &str {
        match self.kind(ty) {
            Kind::Struct { fields } | Kind::Table { fields } => &fields[self.field_index(ty, name)].1,
            _ => panic!("{ty} is not a struct/table"),
        }
    }

    // --------------------------------------------------------------------------------------
    // encoder (canonical; TableX carries its extras)
    // --------------------------------------------------------------------------------------

    pub fn encode(&self, ty: &str, v: &Val) -> Vec<u8> {
        let mut out = vec![];
        self.encode_into(ty, v, &mut out, &mut None);
        out
    }

    /// canonical bytes + the positions of all header words (sizes, offsets, counts, union ids)
    pub fn encode_with_headers(&self, ty: &str, v: &Val) -> (Vec<u8>, Vec<usize>) {
        let mut out = vec![];
        let mut hdr = Some(vec![]);
        self.encode_into(ty, v, &mut out, &mut hdr);
        (out, hdr.unwrap())
    }

    fn encode_into(&self, ty: &str, v: &Val, out: &mut Vec<u8>, hdr: &mut Option<Vec<usize>>) {
        let mark = |hdr: &mut Option<Vec<usize>>, pos: usize| {
            if let Some(h) = hdr {
                h.push(pos);
            }
        };
        if let Val::Padded(inner, front, back) = v {
            out.extend_from_slice(front);
            self.encode_into(ty, inner, out, hdr);
            out.extend_from_slice(back);
            return;
        }
        match (self.kind(ty), v) {
            (Kind::Byte, Val::Byte(b)) => out.push(*b),
            (Kind::Array { item, count }, Val::Raw(r)) if item == "byte" => {
                assert_eq!(r.len(), *count, "array {ty} length");
                out.extend_from_slice(r);
            }
            (Kind::Array { item, count }, Val::Seq(s)) => {
                assert_eq!(s.len(), *count, "array {ty} length");
                for x in s {
                    self.encode_into(item, x, out, hdr);
                }
            }
            (Kind::Struct { fields }, Val::Seq(s)) => {
                assert_eq!(s.len(), fields.len(), "struct {ty} field count");
                for (f, x) in fields.iter().zip(s) {
                    self.encode_into(&f.1, x, out, hdr);
                }
            }
            (Kind::Vector { item }, Val::Raw(r)) if item == "byte" => {
                mark(hdr, out.len());
                out.extend_from_slice(&(r.len() as u32).to_le_bytes());
                out.extend_from_slice(r);
            }
            (Kind::Vector { item }, Val::Seq(s)) => {
                if self.fixed_size(item).is_some() {
                    mark(hdr, out.len());
                    out.extend_from_slice(&(s.len() as u32).to_le_bytes());
                    for x in s {
                        self.encode_into(item, x, out, hdr);
                    }
                } else {
                    let tys: Vec<&str> = s.iter().map(|_| item.as_str()).collect();
                    self.encode_dyn(&tys, s, &[], out, hdr);
                }
            }
            (Kind::Table { fields }, Val::Seq(s)) => {
                assert_eq!(s.len(), fields.len(), "table {ty} field count");
                let tys: Vec<&str> = fields.iter().map(|f| f.1.as_str()).collect();
                self.encode_dyn(&tys, s, &[], out, hdr);
            }
            (Kind::Table { fields }, Val::TableX(s, extras)) => {
                assert_eq!(s.len(), fields.len(), "table {ty} field count");
                let tys: Vec<&str> = fields.iter().map(|f| f.1.as_str()).collect();
                self.encode_dyn(&tys, s, extras, out, hdr);
            }
            (Kind::Option { .. }, Val::None) => {}
            (Kind::Option { item }, Val::Some(x)) => self.encode_into(item, x, out, hdr),
            (Kind::Union { items }, Val::Union(id, x)) => {
                let it = items
                    .iter()
                    .find(|i| i.1 == *id)
                    .unwrap_or_else(|| panic!("union {ty} has no item id {id}"));
                mark(hdr, out.len());
                out.extend_from_slice(&id.to_le_bytes());
                self.encode_into(&it.0, x, out, hdr);
            }
            (k, v) => panic!("value {v:?} does not fit type {ty} ({k:?})"),
        }
    }

    /// dynvec / table layout: full size, offsets, items
    fn encode_dyn(&self, tys: &[&str], items: &[Val], extras: &[Vec<u8>], out: &mut Vec<u8>, hdr: &mut Option<Vec<usize>>) {
        let start = out.len();
        let n = items.len() + extras.len();
        if let Some(h) = hdr {
            for k in 0..=n {
                if k == 0 || n > 0 {
                    h.push(start + 4 * k);
                }
            }
        }
        out.extend_from_slice(&[0u8; 4]);
        if n == 0 {
            out[start..start + 4].copy_from_slice(&4u32.to_le_bytes());
            return;
        }
        out.resize(start + 4 + 4 * n, 0);
        let mut k = 0;
        for (t, x) in tys.iter().zip(items) {
            let off = (out.len() - start) as u32;
            out[start + 4 + 4 * k..start + 8 + 4 * k].copy_from_slice(&off.to_le_bytes());
            self.encode_into(t, x, out, hdr);
            k += 1;
        }
        for e in extras {
            let off = (out.len() - start) as u32;
            out[start + 4 + 4 * k..start + 8 + 4 * k].copy_from_slice(&off.to_le_bytes());
            out.extend_from_slice(e);
            k += 1;
        }
        let total = (out.len() - start) as u32;
        out[start..start + 4].copy_from_slice(&total.to_le_bytes());
    }

    // --------------------------------------------------------------------------------------
    // decoder / verifier, written from docs/encoding_spec.md
    // --------------------------------------------------------------------------------------

    /// Decide whether `b` is an encoding of `ty`.  strict (`compatible == false`): every table has
    /// exactly its declared fields; compatible: tables (at any depth) may have extra trailing
    /// fields, whose content is not interpreted.
    pub fn decode(&self, ty: &str, b: &[u8], compatible: bool) -> Result<Val, DecErr> {
        let u32at = |p: usize| u32::from_le_bytes([b[p], b[p + 1], b[p + 2], b[p + 3]]) as u64;
        match self.kind(ty) {
            Kind::Byte => {
                if b.len() != 1 {
                    return derr(ty, "byte-length", format!("length {}", b.len()));
                }
                Ok(Val::Byte(b[0]))
            }
            Kind::Array { item, count } => {
                let isz = self.fixed_size(item).unwrap();
                if b.len() != isz * count {
                    return derr(ty, "array-size", format!("needs {} bytes, got {}", isz * count, b.len()));
                }
                if item == "byte" {
                    return Ok(Val::Raw(b.to_vec()));
                }
                let mut v = vec![];
                for k in 0..*count {
                    v.push(self.decode(item, &b[k * isz..(k + 1) * isz], compatible)?);
                }
                Ok(Val::Seq(v))
            }
            Kind::Struct { fields } => {
                let total = self.fixed_size(ty).unwrap();
                if b.len() != total {
                    return derr(ty, "struct-size", format!("needs {total} bytes, got {}", b.len()));
                }
                let mut v = vec![];
                let mut p = 0;
                for f in fields {
                    let s = self.fixed_size(&f.1).unwrap();
                    v.push(self.decode(&f.1, &b[p..p + s], compatible)?);
                    p += s;
                }
                Ok(Val::Seq(v))
            }
            Kind::Vector { item } if self.fixed_size(item).is_some() => {
                let isz = self.fixed_size(item).unwrap() as u64;
                if b.len() < 4 {
                    return derr(ty, "fixvec-header", format!("{} bytes", b.len()));
                }
                let count = u32at(0);
                if b.len() as u64 != 4 + count * isz {
                    return derr(ty, "fixvec-size", format!("count {count} x {isz} + 4 != length {}", b.len()));
                }
                if item == "byte" {
                    return Ok(Val::Raw(b[4..].to_vec()));
                }
                let isz = isz as usize;
                let mut v = vec![];
                for k in 0..count as usize {
                    v.push(self.decode(item, &b[4 + k * isz..4 + (k + 1) * isz], compatible)?);
                }
                Ok(Val::Seq(v))
            }
            Kind::Vector { item } => {
                let parts = self.split_dyn(ty, b)?;
                let mut v = vec![];
                for (s, e) in parts {
                    v.push(self.decode(item, &b[s..e], compatible)?);
                }
                Ok(Val::Seq(v))
            }
            Kind::Table { fields } => {
                let parts = self.split_dyn(ty, b)?;
                if parts.len() < fields.len() {
                    return derr(ty, "table-too-few-fields", format!("{} fields, needs {}", parts.len(), fields.len()));
                }
                if parts.len() > fields.len() && !compatible {
                    return derr(ty, "table-extra-fields", format!("{} fields, declared {}", parts.len(), fields.len()));
                }
                let mut v = vec![];
                for (f, (s, e)) in fields.iter().zip(parts.iter()) {
                    v.push(self.decode(&f.1, &b[*s..*e], compatible)?);
                }
                if parts.len() > fields.len() {
                    let extras = parts[fields.len()..].iter().map(|(s, e)| b[*s..*e].to_vec()).collect();
                    Ok(Val::TableX(v, extras))
                } else {
                    Ok(Val::Seq(v))
                }
            }
            Kind::Option { item } => {
                if b.is_empty() {
                    Ok(Val::None)
                } else {
                    Ok(Val::Some(Box::new(self.decode(item, b, compatible)?)))
                }
            }
            Kind::Union { items } => {
                if b.len() < 4 {
                    return derr(ty, "union-header", format!("{} bytes", b.len()));
                }
                let id = u32at(0) as u32;
                let it = match items.iter().find(|i| i.1 == id) {
                    Some(it) => it,
                    None => return derr(ty, "union-unknown-item", format!("item id {id}")),
                };
                Ok(Val::Union(id, Box::new(self.decode(&it.0, &b[4..], compatible)?)))
            }
        }
    }

    /// Header of the dynvec/table layout: `full size | offset_0 .. offset_{n-1} | items`.
    /// full size == length; empty = just the size word; offset_0 == header size (4 + 4n) so n is
    /// derived from it; offsets never decrease and stay within the buffer; item k occupies
    /// [offset_k, offset_{k+1}) and the last one ends at the full size (contiguous, no gaps).
    fn split_dyn(&self, ty: &str, b: &[u8]) -> Result<Vec<(usize, usize)>, DecErr> {
        let u32at = |p: usize| u32::from_le_bytes([b[p], b[p + 1], b[p + 2], b[p + 3]]) as usize;
        if b.len() < 4 {
            return derr(ty, "dyn-header", format!("{} bytes", b.len()));
        }
        let total = u32at(0);
        if total != b.len() {
            return derr(ty, "dyn-full-size", format!("full size {total} != length {}", b.len()));
        }
        if total == 4 {
            return Ok(vec![]);
        }
        if total < 8 {
            return derr(ty, "dyn-header", format!("full size {total} leaves no room for an offset"));
        }
        let first = u32at(4);
        if first % 4 != 0 || first < 8 {
            return derr(ty, "dyn-first-offset", format!("first offset {first} is not a header size"));
        }
        if first > total {
            return derr(ty, "dyn-first-offset", format!("first offset {first} beyond full size {total}"));
        }
        let n = first / 4 - 1;
        let mut offs: Vec<usize> = (0..n).map(|k| u32at(4 + 4 * k)).collect();
        offs.push(total);
        let mut parts = vec![];
        for w in offs.windows(2) {
            if w[0] > w[1] {
                return derr(ty, "dyn-offsets-decrease", format!("{} > {}", w[0], w[1]));
            }
            parts.push((w[0], w[1]));
        }
        Ok(parts)
    }

    // --------------------------------------------------------------------------------------
    // helpers on values
    // --------------------------------------------------------------------------------------

    /// the all-default value of a type (zero bytes, empty vectors, None, first union item)
    pub fn default_val(&self, ty: &str) -> Val {
        match self.kind(ty) {
            Kind::Byte => Val::Byte(0),
            Kind::Array { item, count } => {
                if item == "byte" {
                    Val::Raw(vec![0; *count])
                } else {
                    Val::Seq((0..*count).map(|_| self.default_val(item)).collect())
                }
            }
            Kind::Struct { fields } | Kind::Table { fields } => {
                Val::Seq(fields.iter().map(|f| self.default_val(&f.1)).collect())
            }
            Kind::Vector { item } => {
                if item == "byte" {
                    Val::Raw(vec![])
                } else {
                    Val::Seq(vec![])
                }
            }
            Kind::Option { .. } => Val::None,
            Kind::Union { items } => {
                let first = items.iter().min_by_key(|i| i.1).unwrap();
                Val::Union(first.1, Box::new(self.default_val(&first.0)))
            }
        }
    }

    /// Shape statistics used for the non-trivial rule and the labels.
    pub fn shape(&self, ty: &str, v: &Val) -> Shape {
        let mut s = Shape::default();
        self.shape_rec(ty, v, 0, &mut s);
        s
    }

    fn shape_rec(&self, ty: &str, v: &Val, depth: usize, s: &mut Shape) {
        s.nodes += 1;
        s.max_depth = s.max_depth.max(depth);
        let nondefault = |s: &mut Shape| {
            if depth >= 2 {
                s.nondefault_deep += 1;
            }
        };
        match (self.kind(ty), v) {
            (Kind::Byte, _) => {}
            (Kind::Array { item, .. }, Val::Seq(xs)) => {
                for x in xs {
                    self.shape_rec(item, x, depth + 1, s);
                }
            }
            (Kind::Array { .. }, Val::Raw(r)) => {
                if r.len() >= 2 {
                    if r.iter().all(|b| *b == 0) {
                        s.num_zero += 1;
                    } else if r.iter().all(|b| *b == 0xff) {
                        s.num_max += 1;
                    }
                }
            }
            (Kind::Struct { fields }, Val::Seq(xs)) | (Kind::Table { fields }, Val::Seq(xs)) => {
                for (f, x) in fields.iter().zip(xs) {
                    self.shape_rec(&f.1, x, depth + 1, s);
                }
            }
            (Kind::Table { fields }, Val::TableX(xs, ex)) => {
                s.extra_fields += ex.len();
                for (f, x) in fields.iter().zip(xs) {
                    self.shape_rec(&f.1, x, depth + 1, s);
                }
            }
            (Kind::Vector { .. }, Val::Raw(r)) => {
                if r.is_empty() {
                    s.empty_vecs += 1;
                } else {
                    nondefault(s);
                    if r.len() >= 256 {
                        s.large_vecs += 1;
                    }
                }
            }
            (Kind::Vector { item }, Val::Seq(xs)) => {
                if xs.is_empty() {
                    s.empty_vecs += 1;
                } else {
                    nondefault(s);
                    if xs.len() >= 32 {
                        s.large_vecs += 1;
                    }
                }
                for x in xs {
                    self.shape_rec(item, x, depth + 1, s);
                }
            }
            (Kind::Option { .. }, Val::None) => s.opt_none += 1,
            (Kind::Option { item }, Val::Some(x)) => {
                s.opt_some += 1;
                nondefault(s);
                self.shape_rec(item, x, depth + 1, s);
            }
            (Kind::Union { items }, Val::Union(id, x)) => {
                s.unions += 1;
                if let Some(it) = items.iter().find(|i| i.1 == *id) {
                    if self.default_val(ty) != *v {
                        nondefault(s);
                    }
                    self.shape_rec(&it.0, x, depth + 1, s);
                }
            }
            _ => {}
        }
    }

    /// pre-order list of paths to every table node (for structural "add extra fields" mutations)
    pub fn table_paths(&self, ty: &str, v: &Val) -> Vec<Vec<usize>> {
        let mut out = vec![];
        let mut cur = vec![];
        self.table_paths_rec(ty, v, &mut cur, &mut out);
        out
    }

    fn table_paths_rec(&self, ty: &str, v: &Val, cur: &mut Vec<usize>, out: &mut Vec<Vec<usize>>) {
        match (self.kind(ty), v) {
            (Kind::Table { fields }, Val::Seq(xs)) | (Kind::Table { fields }, Val::TableX(xs, _)) => {
                out.push(cur.clone());
                for (k, (f, x)) in fields.iter().zip(xs).enumerate() {
                    cur.push(k);
                    self.table_paths_rec(&f.1, x, cur, out);
                    cur.pop();
                }
            }
            (Kind::Vector { item }, Val::Seq(xs)) if self.fixed_size(item).is_none() => {
                for (k, x) in xs.iter().enumerate() {
                    cur.push(k);
                    self.table_paths_rec(item, x, cur, out);
                    cur.pop();
                }
            }
            (Kind::Option { item }, Val::Some(x)) => {
                cur.push(0);
                self.table_paths_rec(item, x, cur, out);
                cur.pop();
            }
            (Kind::Union { items }, Val::Union(id, x)) => {
                if let Some(it) = items.iter().find(|i| i.1 == *id) {
                    cur.push(0);
                    self.table_paths_rec(&it.0, x, cur, out);
                    cur.pop();
                }
            }
            _ => {}
        }
    }

    /// pre-order list of paths to every node of the value
    pub fn all_paths(&self, ty: &str, v: &Val) -> Vec<Vec<usize>> {
        let mut out = vec![];
        let mut cur = vec![];
        self.all_paths_rec(ty, v, &mut cur, &mut out);
        out
    }

    fn all_paths_rec(&self, ty: &str, v: &Val, cur: &mut Vec<usize>, out: &mut Vec<Vec<usize>>) {
        out.push(cur.clone());
        match (self.kind(ty), v) {
            (Kind::Struct { fields }, Val::Seq(xs))
            | (Kind::Table { fields }, Val::Seq(xs))
            | (Kind::Table { fields }, Val::TableX(xs, _)) => {
                for (k, (f, x)) in fields.iter().zip(xs).enumerate() {
                    cur.push(k);
                    self.all_paths_rec(&f.1, x, cur, out);
                    cur.pop();
                }
            }
            (Kind::Vector { item }, Val::Seq(xs)) | (Kind::Array { item, .. }, Val::Seq(xs)) => {
                for (k, x) in xs.iter().enumerate() {
                    cur.push(k);
                    self.all_paths_rec(item, x, cur, out);
                    cur.pop();
                }
            }
            (Kind::Option { item }, Val::Some(x)) => {
                cur.push(0);
                self.all_paths_rec(item, x, cur, out);
                cur.pop();
            }
            (Kind::Union { items }, Val::Union(id, x)) => {
                if let Some(it) = items.iter().find(|i| i.1 == *id) {
                    cur.push(0);
                    self.all_paths_rec(&it.0, x, cur, out);
                    cur.pop();
                }
            }
            _ => {}
        }
    }

    /// wrap the node at `path` into `Val::Padded`
    pub fn pad_node(&self, v: &mut Val, path: &[usize], front: Vec<u8>, back: Vec<u8>) {
        let mut cur = v;
        for k in path {
            cur = match cur {
                Val::Seq(xs) | Val::TableX(xs, _) => &mut xs[*k],
                Val::Some(x) | Val::Union(_, x) => &mut **x,
                _ => return,
            };
        }
        let taken = std::mem::replace(cur, Val::None);
        *cur = Val::Padded(Box::new(taken), front, back);
    }

    /// turn the table at `path` into a TableX with the given extra fields
    pub fn add_extras(&self, v: &mut Val, path: &[usize], extras: Vec<Vec<u8>>) {
        let mut cur = v;
        for k in path {
            cur = match cur {
                Val::Seq(xs) | Val::TableX(xs, _) => &mut xs[*k],
                Val::Some(x) | Val::Union(_, x) => &mut **x,
                _ => return,
            };
        }
        let taken = std::mem::replace(cur, Val::None);
        *cur = match taken {
            Val::Seq(xs) => Val::TableX(xs, extras),
            Val::TableX(xs, mut old) => {
                old.extend(extras);
                Val::TableX(xs, old)
            }
            other => other,
        };
    }
}

#[derive(Clone, Debug, Default)]
pub struct Shape {
    pub nodes: usize,
    pub max_depth: usize,
    /// non-default option / union / vector nodes at depth >= 2 (root = depth 0)
    pub nondefault_deep: usize,
    pub empty_vecs: usize,
    pub large_vecs: usize,
    pub opt_none: usize,
    pub opt_some: usize,
    pub unions: usize,
    pub num_zero: usize,
    pub num_max: usize,
    pub extra_fields: usize,
}

// ------------------------------------------------------------------------------------------
// accessors used by the typed checks
// ------------------------------------------------------------------------------------------

impl Val {
    pub fn seq(&self) -> &[Val] {
        match self {
            Val::Seq(v) | Val::TableX(v, _) => v,
            other => panic!("not a sequence: {other:?}"),
        }
    }
    pub fn seq_mut(&mut self) -> &mut Vec<Val> {
        match self {
            Val::Seq(v) | Val::TableX(v, _) => v,
            other => panic!("not a sequence: {other:?}"),
        }
    }
    pub fn raw(&self) -> &[u8] {
        match self {
            Val::Raw(v) => v,
            other => panic!("not raw bytes: {other:?}"),
        }
    }
    pub fn raw_mut(&mut self) -> &mut Vec<u8> {
        match self {
            Val::Raw(v) => v,
            other => panic!("not raw bytes: {other:?}"),
        }
    }
    pub fn byte(&self) -> u8 {
        match self {
            Val::Byte(b) => *b,
            other => panic!("not a byte: {other:?}"),
        }
    }
    pub fn opt(&self) -> Option<&Val> {
        match self {
            Val::None => None,
            Val::Some(x) => Some(x),
            other => panic!("not an option: {other:?}"),
        }
    }
    pub fn u32(&self) -> u32 {
        u32::from_le_bytes(self.raw().try_into().expect("4 bytes"))
    }
    pub fn u64(&self) -> u64 {
        u64::from_le_bytes(self.raw().try_into().expect("8 bytes"))
    }
    pub fn u128(&self) -> u128 {
        u128::from_le_bytes(self.raw().try_into().expect("16 bytes"))
    }
}

/// `f(schema, "Script", val, "args")`
pub fn fld<'a>(s: &Schema, ty: &str, v: &'a Val, name: &str) -> &'a Val {
    &v.seq()[s.field_index(ty, name)]
}

pub fn fld_mut<'a>(s: &Schema, ty: &str, v: &'a mut Val, name: &str) -> &'a mut Val {
    let i = s.field_index(ty, name);
    &mut v.seq_mut()[i]
}

// ------------------------------------------------------------------------------------------
// tape-driven generator
// ------------------------------------------------------------------------------------------

#[derive(Clone, Copy, Debug)]
pub struct GenOpts {
    /// soft bound on the encoded size of one generated value
    pub budget: usize,
    /// cap for "large" byte vectors
    pub big_bytes: usize,
}

impl Default for GenOpts {
    fn default() -> Self {
        GenOpts { budget: 24 * 1024, big_bytes: 3000 }
    }
}

pub struct Gen<'a> {
    pub schema: &'a Schema,
    tape: &'a [u8],
    pos: usize,
    budget: usize,
    opts: GenOpts,
}

impl<'a> Gen<'a> {
    pub fn new(schema: &'a Schema, tape: &'a [u8], opts: GenOpts) -> Self {
        Gen { schema, tape, pos: 0, budget: opts.budget, opts }
    }

    pub fn consumed(&self) -> usize {
        self.pos
    }

    pub fn next(&mut self) -> u8 {
        let b = self.tape.get(self.pos).copied().unwrap_or(0);
        self.pos += 1;
        b
    }

    fn next_u16(&mut self) -> usize {
        let a = self.next() as usize;
        let b = self.next() as usize;
        a | (b << 8)
    }

    fn spend(&mut self, n: usize) {
        self.budget = self.budget.saturating_sub(n);
    }

    /// minimal encoded size of a type (used to keep vectors within the budget)
    fn min_size(&self, ty: &str) -> usize {
        match self.schema.kind(ty) {
            Kind::Option { .. } => 0,
            Kind::Vector { .. } => 4,
            Kind::Table { fields } => 4 + fields.iter().map(|f| 4 + self.min_size(&f.1)).sum::<usize>(),
            Kind::Union { items } => 4 + items.iter().map(|i| self.min_size(&i.0)).min().unwrap_or(0),
            _ => self.schema.fixed_size(ty).unwrap(),
        }
    }

    /// vector length: 0 / 1 / 2 / few / dozens / large, monotone in the tape byte
    fn vec_len(&mut self, item: &str) -> usize {
        let b = self.next();
        let fixed = self.schema.fixed_size(item);
        let want = match b {
            0..=55 => 0,
            56..=139 => 1,
            140..=189 => 2,
            190..=224 => 3 + (b as usize - 190) % 5,
            225..=249 => 8 + (self.next() as usize) % 24,
            _ => match fixed {
                Some(1) => 32 + self.next_u16() % self.opts.big_bytes.max(1),
                Some(_) => 32 + self.next() as usize,
                None => 16 + (self.next() as usize) % 48,
            },
        };
        let unit = match fixed {
            Some(s) => s,
            None => 4 + self.min_size(item),
        }
        .max(1);
        want.min(self.budget / unit)
    }

    fn bytes_array(&mut self, count: usize) -> Vec<u8> {
        if count == 1 {
            return vec![self.next()];
        }
        let s = self.next();
        let mut v = vec![0u8; count];
        match s {
            0..=39 => {}
            40..=69 => v.iter_mut().for_each(|b| *b = 0xff),
            70..=89 => v[0] = 1,
            90..=104 => v[count - 1] = 0x80,
            105..=119 => {
                v.iter_mut().for_each(|b| *b = 0xff);
                v[count - 1] = 0x7f;
            }
            120..=134 => v[count - 1] = 1,
            135..=149 => {
                // small number
                v[0] = self.next();
            }
            150..=199 if count > 8 => {
                // pseudo-random content from two tape bytes (keeps long tapes for structure)
                let mut x = (self.next() as u32) << 8 | self.next() as u32 | 0x1_0000;
                for b in v.iter_mut() {
                    x = x.wrapping_mul(1_103_515_245).wrapping_add(12_345);
                    *b = (x >> 16) as u8;
                }
            }
            _ => v.iter_mut().for_each(|b| *b = self.next()),
        }
        v
    }

    pub fn gen_val(&mut self, ty: &str) -> Val {
        match self.schema.kind(ty) {
            Kind::Byte => {
                self.spend(1);
                Val::Byte(self.next())
            }
            Kind::Array { item, count } => {
                if item == "byte" {
                    self.spend(*count);
                    Val::Raw(self.bytes_array(*count))
                } else {
                    Val::Seq((0..*count).map(|_| self.gen_val(item)).collect())
                }
            }
            Kind::Struct { fields } => Val::Seq(fields.iter().map(|f| self.gen_val(&f.1)).collect()),
            Kind::Table { fields } => {
                self.spend(4 + 4 * fields.len());
                Val::Seq(fields.iter().map(|f| self.gen_val(&f.1)).collect())
            }
            Kind::Vector { item } => {
                let n = self.vec_len(item);
                self.spend(4);
                if item == "byte" {
                    self.spend(n);
                    let fill = self.next();
                    // large vectors: a cheap position-dependent pattern instead of n tape bytes
                    if n > 24 {
                        let seed = self.next();
                        Val::Raw((0..n).map(|i| seed.wrapping_add((i as u8).wrapping_mul(fill | 1))).collect())
                    } else {
                        let mut v = vec![fill; n];
                        if fill & 1 == 1 {
                            v.iter_mut().for_each(|b| *b = self.next());
                        }
                        Val::Raw(v)
                    }
                } else {
                    if self.schema.fixed_size(item).is_none() {
                        self.spend(4 * n);
                    }
                    Val::Seq((0..n).map(|_| self.gen_val(item)).collect())
                }
            }
            Kind::Option { item } => {
                let b = self.next();
                if b < 96 || self.budget < self.min_size(item) {
                    Val::None
                } else {
                    Val::Some(Box::new(self.gen_val(item)))
                }
            }
            Kind::Union { items } => {
                let b = self.next() as usize;
                let mut sorted: Vec<&(String, u32)> = items.iter().collect();
                sorted.sort_by_key(|i| i.1);
                let it = sorted[(b * sorted.len()) >> 8];
                self.spend(4);
                Val::Union(it.1, Box::new(self.gen_val(&it.0)))
            }
        }
    }
}

// ------------------------------------------------------------------------------------------
// self tests of the interpreter against the worked examples of molecule's encoding_spec.md
// ------------------------------------------------------------------------------------------

/// Returns Err(description) when the interpreter disagrees with the examples of the spec.
pub fn self_check() -> Result<(), String> {
    let src = r#"
        array Byte3 [byte; 3];
        array Uint32 [byte; 4];
        struct OnlyAByte { f1: byte }
        struct ByteAndUint32 { f1: byte, f2: Uint32 }
        vector Bytes <byte>;
        vector Uint32Vec <Uint32>;
        vector BytesVec <Bytes>;
        table MixedType { f1: Bytes, f2: byte, f3: Uint32, f4: Byte3, f5: Bytes }
        option BytesVecOpt (BytesVec);
        union HybridBytes { Byte3, Bytes, BytesVec, BytesVecOpt }
        union Custom { Byte3 : 2, Bytes : 7, }
        table Empty {}
    "#;
    let s = Schema::parse_str("spec", src)?;
    let hex = |h: &str| -> Vec<u8> {
        let h: String = h.chars().filter(|c| !c.is_whitespace()).collect();
        (0..h.len() / 2).map(|i| u8::from_str_radix(&h[2 * i..2 * i + 2], 16).unwrap()).collect()
    };
    let check = |ty: &str, v: Val, h: &str| -> Result<(), String> {
        let want = hex(h);
        let got = s.encode(ty, &v);
        if got != want {
            return Err(format!("encode {ty}: {:02x?} != spec {:02x?}", got, want));
        }
        match s.decode(ty, &want, false) {
            Ok(d) if d == v => Ok(()),
            other => Err(format!("decode {ty}: {other:?} != {v:?}")),
        }
    };
    check("Byte3", Val::Raw(vec![1, 2, 3]), "010203")?;
    check("ByteAndUint32", Val::Seq(vec![Val::Byte(0xab), Val::Raw(vec![0x10, 0x20, 0x30, 0])]), "ab 10203000")?;
    check("Bytes", Val::Raw(vec![]), "00000000")?;
    check("Bytes", Val::Raw(vec![0x12]), "01000000 12")?;
    check("Uint32Vec", Val::Seq(vec![Val::Raw(vec![0x23, 1, 0, 0])]), "01000000 23010000")?;
    check("BytesVec", Val::Seq(vec![]), "04000000")?;
    check("BytesVec", Val::Seq(vec![Val::Raw(vec![0x12, 0x34])]), "0e000000 08000000 02000000 1234")?;
    check(
        "BytesVec",
        Val::Seq(vec![
            Val::Raw(vec![0x12, 0x34]),
            Val::Raw(vec![]),
            Val::Raw(vec![0x05, 0x67]),
            Val::Raw(vec![0x89]),
            Val::Raw(vec![0xab, 0xcd, 0xef]),
        ]),
        "34000000 18000000 1e000000 22000000 28000000 2d000000 02000000 1234 00000000 02000000 0567 01000000 89 03000000 abcdef",
    )?;
    check(
        "MixedType",
        Val::Seq(vec![
            Val::Raw(vec![]),
            Val::Byte(0xab),
            Val::Raw(vec![0x23, 1, 0, 0]),
            Val::Raw(vec![0x45, 0x67, 0x89]),
            Val::Raw(vec![0xab, 0xcd, 0xef]),
        ]),
        "2b000000 18000000 1c000000 1d000000 21000000 24000000 00000000 ab 23010000 456789 03000000 abcdef",
    )?;
    check("BytesVecOpt", Val::None, "")?;
    check("BytesVecOpt", Val::Some(Box::new(Val::Seq(vec![]))), "04000000")?;
    check("HybridBytes", Val::Union(0, Box::new(Val::Raw(vec![1, 2, 3]))), "00000000 010203")?;
    check("HybridBytes", Val::Union(1, Box::new(Val::Raw(vec![1, 2, 3]))), "01000000 03000000 010203")?;
    check("Custom", Val::Union(7, Box::new(Val::Raw(vec![]))), "07000000 00000000")?;
    check("Empty", Val::Seq(vec![]), "04000000")?;
    // rejections
    let rej = |ty: &str, h: &str, compat: bool| -> Result<(), String> {
        match s.decode(ty, &hex(h), compat) {
            Ok(v) => Err(format!("decode {ty} accepted {h} (compat={compat}) as {v:?}")),
            Err(_) => Ok(()),
        }
    };
    rej("Bytes", "02000000 12", false)?;
    rej("BytesVec", "0e000000 08000000 02000000 123456", false)?;
    rej("BytesVec", "0e000000 09000000 02000000 1234", false)?;
    rej("BytesVec", "0e000000 04000000 02000000 1234", false)?;
    rej("Custom", "00000000 010203", false)?;
    rej("MixedType", "04000000", true)?;
    // one extra field: strict rejects, compatible accepts
    let extra = "2e000000 1c000000 20000000 21000000 25000000 28000000 2b000000 00000000 ab 23010000 456789 abcdef aabbcc";
    let _ = extra;
    let v = Val::TableX(
        vec![Val::Raw(vec![]), Val::Byte(1), Val::Raw(vec![0; 4]), Val::Raw(vec![0; 3]), Val::Raw(vec![])],
        vec![vec![0xaa, 0xbb]],
    );
    let b = s.encode("MixedType", &v);
    if s.decode("MixedType", &b, false).is_ok() {
        return Err("strict decode accepted a table with an extra field".into());
    }
    match s.decode("MixedType", &b, true) {
        Ok(d) if d == v => {}
        other => return Err(format!("compatible decode of extra field: {other:?}")),
    }
    Ok(())
}
