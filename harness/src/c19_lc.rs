//! C19 sub-check `light-client`: the code that *serves* chain-root proofs to peers.
//!
//! A real node is driven through the reorg histories of C19 (forks, shorter-but-heavier branches,
//! switch-backs, side blocks that stay stored off the main chain).  At generated moments generated
//! requests (GetLastState, GetLastStateProof, GetBlocksProof, GetTransactionsProof, raw bytes) are
//! delivered to the real `LightClientProtocol` through `CKBProtocolHandler::received` with a
//! recording protocol context.  Every reply is judged against the reference model:
//!   * which blocks have to be named (a linear-scan re-statement of the documented sampling rule,
//!     the found / missing partition of the requested hashes),
//!   * every `VerifiableHeader` (header, uncles hash, extension, parent chain root = the model's
//!     MMR root over the main chain's digests below that block),
//!   * the MMR membership proof, verified with a verifier of the harness's own written in
//!     (height, leaf index) coordinates with the model's `merge_digest`, against the model root over
//!     digests 0..last-1 (= what the named last block commits) and against the rival branch's root,
//!   * for transactions: the CBMT proof of each filtered block, verified with the harness's own
//!     CBMT code against the header's transactions root.
use crate::checks::c01::variant_cfg;
use crate::checks::c19;
use crate::common::*;
use crate::model::*;
use crate::node::*;
use crate::plan::*;
use crate::vfail;
use ckb_light_client_protocol_server::LightClientProtocol;
use ckb_network::{
    Behaviour, CKBProtocolContext, CKBProtocolHandler, Error as NetError, Peer, PeerIndex, ProtocolId, SupportProtocols,
    TargetSession, async_trait, bytes::Bytes as NBytes,
};
use ckb_types::{U256, packed, prelude::*};
use proptest::prelude::*;
use serde::{Deserialize, Serialize};
use serde_json::json;
use std::collections::{BTreeMap, BTreeSet};
use std::future::Future;
use std::pin::Pin;
use std::sync::{Arc, Mutex};
use std::time::Duration;

// ------------------------------------------------------------------------------------------------
// case

#[derive(Clone, Debug, Serialize, Deserialize)]
pub enum HashSel {
    Tip,
    Genesis,
    /// a block of the current main chain (selector over 0..=tip)
    Main(u16),
    /// a block that was on the main chain once and is not now (falls back to Side, then Main)
    Detached(u16),
    /// a stored block that is off the main chain (falls back to Main)
    Side(u16),
    Unknown(u8),
}

#[derive(Clone, Debug, Serialize, Deserialize)]
pub enum NumSel {
    Zero,
    /// selector over 0..=last
    Rel(u16),
    /// fork point of the latest reorg plus a delta (clamped at 0)
    Fork(i8),
    /// last + 1 + k
    Beyond(u8),
    Max,
}

#[derive(Clone, Debug, Serialize, Deserialize)]
pub enum StartHash {
    /// the main chain's block at start_number
    Right,
    /// the abandoned branch's block at start_number (what a client that followed it has proved)
    Abandoned,
    Zero,
    OtherMain(u16),
}

#[derive(Clone, Debug, Serialize, Deserialize)]
pub enum DiffSel {
    /// total difficulty of a block selected in [start, last), plus a delta
    AtBlock(u16, i8),
    Zero,
    Max,
    /// total difficulty of last + k
    AboveLast(u8),
}

#[derive(Clone, Debug, Serialize, Deserialize)]
pub enum TxSel {
    /// (block selector over the main chain, tx selector in the block)
    Main(u16, u16),
    /// a transaction of a detached / side block (it may be committed on the main chain too)
    Side(u16, u16),
    Unknown(u8),
}

#[derive(Clone, Debug, Serialize, Deserialize)]
pub enum Req {
    LastState(bool),
    LastStateProof {
        last: HashSel,
        start: NumSel,
        start_hash: StartHash,
        last_n: u64,
        boundary: DiffSel,
        diffs: Vec<u16>,
        /// 0 sorted + distinct, 1 as generated, 2 with a duplicate, 3 last >= boundary,
        /// 4 first <= total difficulty before start, 5 one thousand and one of them
        diffs_kind: u8,
    },
    BlocksProof {
        last: HashSel,
        /// main-chain selectors pick below `last` (what a client asks for) instead of anywhere
        #[serde(default)]
        below: bool,
        blocks: Vec<HashSel>,
        /// 0 as selected (distinct), 1 first repeated, 2 the last hash among them, 3 1001 hashes
        shape: u8,
    },
    TxsProof {
        last: HashSel,
        #[serde(default)]
        below: bool,
        txs: Vec<TxSel>,
        /// 0 distinct, 1 first repeated, 3 1001 hashes
        shape: u8,
    },
    Raw(Vec<u8>),
    /// a well-formed message a client never sends (a Send* item)
    Unexpected(u8),
    /// GetLastState whose one-byte `subscribe` field holds this byte (molecule accepts any byte in a
    /// `Bool`; only 0 and 1 are booleans)
    SubscribeByte(u8),
}

#[derive(Clone, Debug, Serialize, Deserialize)]
pub struct Case {
    pub variant: u8,
    pub plan: TreePlan,
    /// requests delivered after delivery i: rounds[i % len]
    pub rounds: Vec<Vec<Req>>,
    /// requests delivered additionally right after every delivery that detached a block
    pub after_reorg: Vec<Req>,
}

fn hash_sel() -> impl Strategy<Value = HashSel> {
    prop_oneof![
        4 => Just(HashSel::Tip),
        5 => any::<u16>().prop_map(HashSel::Main),
        3 => any::<u16>().prop_map(HashSel::Detached),
        2 => any::<u16>().prop_map(HashSel::Side),
        1 => any::<u8>().prop_map(HashSel::Unknown),
        1 => Just(HashSel::Genesis),
    ]
}

fn req_strategy() -> impl Strategy<Value = Req> {
    let lsp = (
        hash_sel(),
        prop_oneof![
            3 => Just(NumSel::Zero),
            5 => any::<u16>().prop_map(NumSel::Rel),
            3 => (-3i8..=3).prop_map(NumSel::Fork),
            1 => (0u8..3).prop_map(NumSel::Beyond),
            1 => Just(NumSel::Max),
        ],
        prop_oneof![
            5 => Just(StartHash::Right),
            3 => Just(StartHash::Abandoned),
            1 => Just(StartHash::Zero),
            1 => any::<u16>().prop_map(StartHash::OtherMain),
        ],
        prop_oneof![
            3 => Just(0u64),
            3 => Just(1u64),
            10 => 2u64..8,
            5 => 8u64..40,
            1 => Just(100u64),
            1 => Just(500u64),
            1 => Just(501u64),
            1 => Just(1u64 << 62),
            1 => Just(u64::MAX),
        ],
        prop_oneof![
            6 => (any::<u16>(), -1i8..=1).prop_map(|(a, b)| DiffSel::AtBlock(a, b)),
            1 => Just(DiffSel::Zero),
            1 => Just(DiffSel::Max),
            1 => (0u8..3).prop_map(DiffSel::AboveLast),
        ],
        proptest::collection::vec(any::<u16>(), 0..10),
        prop_oneof![16 => Just(0u8), 2 => Just(1u8), 1 => Just(2u8), 2 => Just(3u8), 2 => Just(4u8), 1 => Just(5u8)],
    )
        .prop_map(|(last, start, start_hash, last_n, boundary, diffs, diffs_kind)| Req::LastStateProof {
            last,
            start,
            start_hash,
            last_n,
            boundary,
            diffs,
            diffs_kind,
        });
    let shape = prop_oneof![12 => Just(0u8), 2 => Just(1u8), 1 => Just(2u8), 1 => Just(3u8)];
    let below = prop_oneof![2 => Just(true), 1 => Just(false)];
    let blocks = (hash_sel(), below.clone(), proptest::collection::vec(hash_sel(), 0..7), shape.clone())
        .prop_map(|(last, below, blocks, shape)| Req::BlocksProof { last, below, blocks, shape });
    let tx_sel = prop_oneof![
        6 => (any::<u16>(), any::<u16>()).prop_map(|(a, b)| TxSel::Main(a, b)),
        3 => (any::<u16>(), any::<u16>()).prop_map(|(a, b)| TxSel::Side(a, b)),
        1 => any::<u8>().prop_map(TxSel::Unknown),
    ];
    let txs = (hash_sel(), below, proptest::collection::vec(tx_sel, 0..7), shape)
        .prop_map(|(last, below, txs, shape)| Req::TxsProof { last, below, txs, shape });
    prop_oneof![
        1 => any::<bool>().prop_map(Req::LastState),
        8 => lsp,
        5 => blocks,
        5 => txs,
        1 => proptest::collection::vec(any::<u8>(), 0..48).prop_map(Req::Raw),
        1 => (0u8..12).prop_map(Req::Unexpected),
        1 => prop_oneof![Just(2u8), Just(255u8), any::<u8>()].prop_map(Req::SubscribeByte),
    ]
}

pub fn case_strategy(max_blocks: usize) -> impl Strategy<Value = Case> {
    (
        prop_oneof![1 => c19::case_strategy(max_blocks).boxed(), 1 => c19::directed_strategy().boxed()],
        proptest::collection::vec(proptest::collection::vec(req_strategy(), 0..4), 1..6),
        proptest::collection::vec(req_strategy(), 1..5),
    )
        .prop_map(|(c, rounds, after_reorg)| Case {
            variant: c.variant,
            plan: c.plan,
            rounds,
            after_reorg,
        })
}

// ------------------------------------------------------------------------------------------------
// recording protocol context

#[derive(Default)]
struct Rec {
    sent: Vec<NBytes>,
    bans: Vec<String>,
    subscribed: u32,
}

struct Net {
    log: Mutex<Rec>,
}

type Task = Pin<Box<dyn Future<Output = ()> + 'static + Send>>;

impl Net {
    fn msg(&self, data: NBytes) -> Result<(), NetError> {
        self.log.lock().unwrap().sent.push(data);
        Ok(())
    }
}

#[async_trait]
impl CKBProtocolContext for Net {
    async fn set_notify(&self, _interval: Duration, _token: u64) -> Result<(), NetError> {
        Ok(())
    }
    async fn remove_notify(&self, _token: u64) -> Result<(), NetError> {
        Ok(())
    }
    async fn async_quick_send_message(&self, _p: ProtocolId, _peer: PeerIndex, data: NBytes) -> Result<(), NetError> {
        self.msg(data)
    }
    async fn async_quick_send_message_to(&self, _peer: PeerIndex, data: NBytes) -> Result<(), NetError> {
        self.msg(data)
    }
    async fn async_quick_filter_broadcast(&self, _t: TargetSession, data: NBytes) -> Result<(), NetError> {
        self.msg(data)
    }
    async fn async_future_task(&self, _task: Task, _blocking: bool) -> Result<(), NetError> {
        Ok(())
    }
    async fn async_send_message(&self, _p: ProtocolId, _peer: PeerIndex, data: NBytes) -> Result<(), NetError> {
        self.msg(data)
    }
    async fn async_send_message_to(&self, _peer: PeerIndex, data: NBytes) -> Result<(), NetError> {
        self.msg(data)
    }
    async fn async_filter_broadcast(&self, _t: TargetSession, data: NBytes) -> Result<(), NetError> {
        self.msg(data)
    }
    async fn async_filter_broadcast_with_proto(&self, _p: ProtocolId, _t: TargetSession, data: NBytes) -> Result<(), NetError> {
        self.msg(data)
    }
    async fn async_quick_filter_broadcast_with_proto(&self, _p: ProtocolId, _t: TargetSession, data: NBytes) -> Result<(), NetError> {
        self.msg(data)
    }
    async fn async_disconnect(&self, _peer: PeerIndex, _message: &str) -> Result<(), NetError> {
        Ok(())
    }
    fn quick_send_message(&self, _p: ProtocolId, _peer: PeerIndex, data: NBytes) -> Result<(), NetError> {
        self.msg(data)
    }
    fn quick_send_message_to(&self, _peer: PeerIndex, data: NBytes) -> Result<(), NetError> {
        self.msg(data)
    }
    fn quick_filter_broadcast(&self, _t: TargetSession, data: NBytes) -> Result<(), NetError> {
        self.msg(data)
    }
    fn quick_filter_broadcast_with_proto(&self, _p: ProtocolId, _t: TargetSession, data: NBytes) -> Result<(), NetError> {
        self.msg(data)
    }
    fn future_task(&self, _task: Task, _blocking: bool) -> Result<(), NetError> {
        Ok(())
    }
    fn send_message(&self, _p: ProtocolId, _peer: PeerIndex, data: NBytes) -> Result<(), NetError> {
        self.msg(data)
    }
    fn send_message_to(&self, _peer: PeerIndex, data: NBytes) -> Result<(), NetError> {
        self.msg(data)
    }
    fn filter_broadcast(&self, _t: TargetSession, data: NBytes) -> Result<(), NetError> {
        self.msg(data)
    }
    fn disconnect(&self, _peer: PeerIndex, _message: &str) -> Result<(), NetError> {
        Ok(())
    }
    fn get_peer(&self, _peer: PeerIndex) -> Option<Peer> {
        None
    }
    fn with_peer_mut(&self, _peer: PeerIndex, _f: Box<dyn FnOnce(&mut Peer)>) {
        self.log.lock().unwrap().subscribed += 1;
    }
    fn connected_peers(&self) -> Vec<PeerIndex> {
        vec![]
    }
    fn full_relay_connected_peers(&self) -> Vec<PeerIndex> {
        vec![]
    }
    fn report_peer(&self, _peer: PeerIndex, _behaviour: Behaviour) {}
    fn ban_peer(&self, _peer: PeerIndex, _duration: Duration, reason: String) {
        self.log.lock().unwrap().bans.push(reason);
    }
    fn protocol_id(&self) -> ProtocolId {
        SupportProtocols::LightClient.protocol_id()
    }
}

// ------------------------------------------------------------------------------------------------
// the harness's own proof verifiers

fn blake(parts: &[&[u8]]) -> [u8; 32] {
    let mut hasher = ckb_hash::new_blake2b();
    for p in parts {
        hasher.update(p);
    }
    let mut out = [0u8; 32];
    hasher.finalize(&mut out);
    out
}

/// Root of the MMR with `n_leaves` leaves computed from some of its leaves (leaf index -> digest)
/// and the proof items in the order of the wire format: peak by peak from the left; inside a peak
/// level by level from the leaves up, within a level from the left, one item for every node whose
/// sibling is not known; one item for every peak without a leaf, except that two or more such
/// peaks at the right end come bagged into one item; the peaks are bagged right to left.
pub fn mmr_root_from_proof(
    n_leaves: u64,
    leaves: &BTreeMap<u64, packed::HeaderDigest>,
    items: &[packed::HeaderDigest],
) -> Result<packed::HeaderDigest, String> {
    if n_leaves == 0 || leaves.is_empty() {
        return Err("nothing to prove".into());
    }
    if let Some((i, _)) = leaves.iter().next_back() {
        if *i >= n_leaves {
            return Err(format!("leaf {i} is not among the {n_leaves} leaves of this MMR"));
        }
    }
    let mut peaks: Vec<(u32, u64)> = vec![];
    let mut start = 0u64;
    for h in (0..64u32).rev() {
        if (n_leaves >> h) & 1 == 1 {
            peaks.push((h, start));
            start += 1u64 << h;
        }
    }
    let has: Vec<bool> = peaks
        .iter()
        .map(|(h, s)| leaves.range(*s..*s + (1u64 << h)).next().is_some())
        .collect();
    let trailing = has.iter().rev().take_while(|b| !**b).count();
    let individual = if trailing > 1 { peaks.len() - trailing } else { peaks.len() };
    let mut it = items.iter();
    let mut digests: Vec<packed::HeaderDigest> = vec![];
    for (k, (h, s)) in peaks.iter().enumerate().take(individual) {
        if !has[k] {
            digests.push(it.next().ok_or("proof too short (peak without leaves)")?.clone());
            continue;
        }
        let mut cur: BTreeMap<u64, packed::HeaderDigest> =
            leaves.range(*s..*s + (1u64 << h)).map(|(i, d)| (i - s, d.clone())).collect();
        for _ in 0..*h {
            let mut next = BTreeMap::new();
            let keys: Vec<u64> = cur.keys().copied().collect();
            let mut paired = None;
            for k in keys {
                if paired == Some(k) {
                    continue;
                }
                let me = cur[&k].clone();
                let (l, r) = if k % 2 == 0 {
                    match cur.get(&(k + 1)) {
                        Some(sib) => {
                            paired = Some(k + 1);
                            (me, sib.clone())
                        }
                        None => (me, it.next().ok_or("proof too short (right sibling)")?.clone()),
                    }
                } else {
                    (it.next().ok_or("proof too short (left sibling)")?.clone(), me)
                };
                next.insert(k / 2, merge_digest(&l, &r));
            }
            cur = next;
        }
        digests.push(cur.remove(&0).ok_or("internal: no peak")?);
    }
    if trailing > 1 {
        digests.push(it.next().ok_or("proof too short (bagged right-hand peaks)")?.clone());
    }
    if it.next().is_some() {
        return Err("surplus proof items".into());
    }
    let mut acc = digests.pop().ok_or("no peaks")?;
    while let Some(p) = digests.pop() {
        acc = merge_digest(&p, &acc);
    }
    Ok(acc)
}

/// all nodes of the complete binary merkle tree over `leaves` (array form, root at 0)
fn cbmt_nodes(leaves: &[[u8; 32]]) -> Vec<[u8; 32]> {
    let n = leaves.len();
    if n == 0 {
        return vec![];
    }
    let mut nodes = vec![[0u8; 32]; n - 1];
    nodes.extend_from_slice(leaves);
    for i in (0..n - 1).rev() {
        nodes[i] = blake(&[&nodes[2 * i + 1], &nodes[2 * i + 2]]);
    }
    nodes
}

fn cbmt_root(leaves: &[[u8; 32]]) -> [u8; 32] {
    cbmt_nodes(leaves).first().copied().unwrap_or([0u8; 32])
}

/// Root from a CBMT proof the way the wire format defines it: `indices` (tree indices) pair with
/// the proved leaves in ascending order of the leaf values; lemmas are consumed from the largest
/// tree index down, one for every node whose sibling is not known.
fn cbmt_root_from_proof(indices: &[u32], leaves: &[[u8; 32]], lemmas: &[[u8; 32]]) -> Result<[u8; 32], String> {
    if indices.len() != leaves.len() || leaves.is_empty() {
        return Err(format!("{} indices for {} leaves", indices.len(), leaves.len()));
    }
    let mut sorted = leaves.to_vec();
    sorted.sort();
    let mut known: BTreeMap<u32, [u8; 32]> = BTreeMap::new();
    for (i, l) in indices.iter().zip(sorted) {
        if known.insert(*i, l).is_some() {
            return Err(format!("tree index {i} named twice"));
        }
    }
    let mut lem = lemmas.iter();
    loop {
        let (i, me) = match known.pop_last() {
            Some(x) => x,
            None => return Err("empty".into()),
        };
        if i == 0 {
            if !known.is_empty() || lem.next().is_some() {
                return Err("root reached with leaves or lemmas left over".into());
            }
            return Ok(me);
        }
        let sib = if i % 2 == 1 { i + 1 } else { i - 1 };
        let other = match known.remove(&sib) {
            Some(o) => o,
            None => *lem.next().ok_or("proof too short")?,
        };
        let parent = if i % 2 == 1 { blake(&[&me, &other]) } else { blake(&[&other, &me]) };
        if known.insert((i - 1) / 2, parent).is_some() {
            return Err("a proved node is an ancestor of another".into());
        }
    }
}

// ------------------------------------------------------------------------------------------------
// world = what the model knows about the node at the moment of a request

struct World<'a> {
    tree: &'a Tree,
    main: Vec<&'a MBlock>,
    /// roots[k] = model MMR root over the digests of main[0..k] (k >= 1)
    roots: Vec<Option<packed::HeaderDigest>>,
    main_idx: BTreeMap<[u8; 32], u64>,
    ever_main: BTreeSet<[u8; 32]>,
    /// blocks the node accepted, delivery order
    stored: Vec<H>,
    /// tip of the branch abandoned by the latest reorg, number of the common ancestor
    abandoned: Option<(H, u64)>,
    reorgs: u64,
}

impl<'a> World<'a> {
    fn set_main(&mut self, tip: &H) {
        self.main = self.tree.path(tip);
        self.main_idx = self.main.iter().map(|b| (h32(&b.hash), b.number)).collect();
        for b in &self.main {
            self.ever_main.insert(h32(&b.hash));
        }
        let mut peaks = vec![];
        self.roots = vec![None];
        for b in &self.main {
            mmr_push(&mut peaks, leaf_digest(&b.block.header()));
            self.roots.push(mmr_root(&peaks));
        }
    }
    fn tip(&self) -> &'a MBlock {
        self.main[self.main.len() - 1]
    }
    fn on_main(&self, h: &H) -> Option<u64> {
        self.main_idx.get(&h32(h)).copied()
    }
    fn detached(&self) -> Vec<H> {
        self.stored
            .iter()
            .filter(|h| self.ever_main.contains(&h32(h)) && self.on_main(h).is_none())
            .cloned()
            .collect()
    }
    fn side(&self) -> Vec<H> {
        self.stored.iter().filter(|h| self.on_main(h).is_none()).cloned().collect()
    }
    /// root over main[0..k]
    fn root_below(&self, k: u64) -> packed::HeaderDigest {
        if k == 0 { Default::default() } else { self.roots[k as usize].clone().expect("root") }
    }
    fn td(&self, n: u64) -> U256 {
        self.main[n as usize].td.clone()
    }
    fn resolve(&self, s: &HashSel) -> (H, &'static str) {
        match s {
            HashSel::Tip => (self.tip().hash.clone(), "tip"),
            HashSel::Genesis => (self.main[0].hash.clone(), "genesis"),
            HashSel::Main(x) => (self.main[pick_idx(*x as u32, self.main.len())].hash.clone(), "main"),
            HashSel::Detached(x) => {
                let d = self.detached();
                if d.is_empty() {
                    self.resolve(&HashSel::Side(*x))
                } else {
                    (d[pick_idx(*x as u32, d.len())].clone(), "detached")
                }
            }
            HashSel::Side(x) => {
                let d = self.side();
                if d.is_empty() {
                    self.resolve(&HashSel::Main(*x))
                } else {
                    (d[pick_idx(*x as u32, d.len())].clone(), "side")
                }
            }
            HashSel::Unknown(k) => (packed::Byte32::from_slice(&blake(&[b"unknown", &[*k]])).unwrap(), "unknown"),
        }
    }
}

// ------------------------------------------------------------------------------------------------
// concrete requests and what the protocol documents for them

#[derive(Clone, Debug)]
enum Concrete {
    LastState(bool),
    Lsp {
        last: H,
        start_hash: H,
        start: u64,
        last_n: u64,
        boundary: U256,
        diffs: Vec<U256>,
    },
    Blocks {
        last: H,
        hashes: Vec<H>,
    },
    Txs {
        last: H,
        hashes: Vec<H>,
    },
    Raw(Vec<u8>),
}

impl Concrete {
    fn name(&self) -> &'static str {
        match self {
            Concrete::LastState(_) => "GetLastState",
            Concrete::Lsp { .. } => "GetLastStateProof",
            Concrete::Blocks { .. } => "GetBlocksProof",
            Concrete::Txs { .. } => "GetTransactionsProof",
            Concrete::Raw(_) => "raw",
        }
    }
    fn encode(&self) -> NBytes {
        let m = |u: packed::LightClientMessageUnion| packed::LightClientMessage::new_builder().set(u).build().as_bytes();
        match self {
            Concrete::LastState(s) => m(packed::GetLastState::new_builder().subscribe(*s).build().into()),
            Concrete::Lsp {
                last,
                start_hash,
                start,
                last_n,
                boundary,
                diffs,
            } => m(packed::GetLastStateProof::new_builder()
                .last_hash(last.clone())
                .start_hash(start_hash.clone())
                .start_number(*start)
                .last_n_blocks(*last_n)
                .difficulty_boundary(boundary.clone())
                .difficulties(
                    packed::Uint256Vec::new_builder()
                        .set(diffs.iter().map(|d| d.clone().into()).collect::<Vec<packed::Uint256>>())
                        .build(),
                )
                .build()
                .into()),
            Concrete::Blocks { last, hashes } => m(packed::GetBlocksProof::new_builder()
                .last_hash(last.clone())
                .block_hashes(packed::Byte32Vec::new_builder().set(hashes.clone()).build())
                .build()
                .into()),
            Concrete::Txs { last, hashes } => m(packed::GetTransactionsProof::new_builder()
                .last_hash(last.clone())
                .tx_hashes(packed::Byte32Vec::new_builder().set(hashes.clone()).build())
                .build()
                .into()),
            Concrete::Raw(b) => NBytes::from(b.clone()),
        }
    }
}

#[derive(Clone, Debug, PartialEq)]
enum Expect {
    /// SendLastState
    State,
    /// the tip's verifiable header, no proof, nothing proved
    TipState(&'static str),
    /// GetLastStateProof: exactly these main-chain blocks, in this order
    Headers { last: u64, numbers: Vec<u64> },
    /// GetBlocksProof / GetTransactionsProof: found (main-chain block numbers per requested hash) / missing
    Partition { last: u64, found: Vec<(H, u64)>, missing: Vec<H> },
    /// no reply is owed (invalid request); a ban or a silent status are both fine
    Refused(&'static str),
    /// the request is well-formed but names main-chain items at or above `last`, which the MMR of
    /// `last` cannot prove: no reply, or a reply that reports them missing
    Ahead { last: u64, found: Vec<(H, u64)>, missing: Vec<H> },
}

const LIMIT: usize = 1000;

fn expect_lsp(w: &World, last: &H, start_hash: &H, start: u64, last_n: u64, boundary: &U256, diffs: &[U256]) -> Expect {
    // "too many samples": difficulties + 2 * last_n_blocks over the limit
    if (diffs.len() as u128) + (last_n as u128) * 2 > LIMIT as u128 {
        return Expect::Refused("too-many-samples");
    }
    let l = match w.on_main(last) {
        Some(l) => l,
        None => return Expect::TipState("last-not-on-main-chain"),
    };
    if diffs.windows(2).any(|d| d[0] >= d[1]) {
        return Expect::Refused("difficulties-not-increasing");
    }
    if diffs.last().map(|d| d >= boundary).unwrap_or(false) {
        return Expect::Refused("difficulty-not-below-boundary");
    }
    if start > l {
        return Expect::Refused("start-after-last");
    }
    if let Some(d0) = diffs.first() {
        if start > 0 && w.td(start - 1) >= *d0 {
            return Expect::Refused("first-difficulty-not-above-start");
        }
    }
    let mut numbers: Vec<u64> = vec![];
    if start != 0 && w.main[start as usize].hash != *start_hash {
        numbers.extend(start - start.min(last_n)..start);
    }
    if l - start <= last_n {
        numbers.extend(start..l);
        return Expect::Headers { last: l, numbers };
    }
    // first block in [start, last) whose total difficulty reaches the boundary
    let mut bnd = match (start..l).find(|n| w.td(*n) >= *boundary) {
        Some(n) => n,
        None => return Expect::Refused("boundary-not-in-range"),
    };
    if l - bnd < last_n {
        bnd = l - last_n;
    }
    if bnd > 0 {
        let cap = w.td(bnd - 1);
        // one sample per difficulty: the first block whose total difficulty reaches it; a difficulty
        // that the previous sample already covers adds nothing (a zero difficulty is covered by
        // the empty chain)
        let mut covered = U256::zero();
        for d in diffs.iter().filter(|d| **d <= cap) {
            if covered >= *d {
                continue;
            }
            if let Some(n) = (start..bnd).find(|n| w.td(*n) >= *d) {
                numbers.push(n);
                covered = w.td(n);
            }
        }
    }
    numbers.extend(bnd..l);
    Expect::Headers { last: l, numbers }
}

fn expect_blocks(w: &World, last: &H, hashes: &[H]) -> Expect {
    if hashes.is_empty() {
        return Expect::Refused("no-block");
    }
    if hashes.len() > LIMIT {
        return Expect::Refused("too-many-blocks");
    }
    let l = match w.on_main(last) {
        Some(l) => l,
        None => return Expect::TipState("last-not-on-main-chain"),
    };
    let mut seen = BTreeSet::new();
    seen.insert(h32(last));
    if !hashes.iter().all(|h| seen.insert(h32(h))) {
        return Expect::Refused("duplicate-block-hash");
    }
    let mut found = vec![];
    let mut missing = vec![];
    for h in hashes {
        match w.on_main(h) {
            Some(n) => found.push((h.clone(), n)),
            None => missing.push(h.clone()),
        }
    }
    if found.iter().any(|(_, n)| *n >= l) {
        return Expect::Ahead { last: l, found, missing };
    }
    Expect::Partition { last: l, found, missing }
}

fn expect_txs(w: &World, last: &H, hashes: &[H]) -> Expect {
    if hashes.is_empty() {
        return Expect::Refused("no-transaction");
    }
    if hashes.len() > LIMIT {
        return Expect::Refused("too-many-transactions");
    }
    let l = match w.on_main(last) {
        Some(l) => l,
        None => return Expect::TipState("last-not-on-main-chain"),
    };
    let mut seen = BTreeSet::new();
    if !hashes.iter().all(|h| seen.insert(h32(h))) {
        return Expect::Refused("duplicate-tx-hash");
    }
    let idx = &w.tip().state.tx_index;
    let mut found = vec![];
    let mut missing = vec![];
    for h in hashes {
        match idx.get(&h32(h)) {
            Some((_, n, _)) => found.push((h.clone(), *n)),
            None => missing.push(h.clone()),
        }
    }
    if found.iter().any(|(_, n)| *n >= l) {
        return Expect::Ahead { last: l, found, missing };
    }
    Expect::Partition { last: l, found, missing }
}

// ------------------------------------------------------------------------------------------------
// request construction from selectors

fn u256_from_i(base: &U256, delta: i8) -> U256 {
    if delta >= 0 {
        base.clone() + U256::from(delta as u64)
    } else {
        let d = U256::from((-(delta as i64)) as u64);
        if *base >= d { base.clone() - d } else { U256::zero() }
    }
}

fn make_concrete(w: &World, req: &Req, st: &mut Stats) -> Concrete {
    match req {
        Req::LastState(s) => Concrete::LastState(*s),
        Req::Raw(b) => Concrete::Raw(b.clone()),
        Req::SubscribeByte(b) => {
            st.label(if *b <= 1 { "lc:subscribe-byte:boolean" } else { "lc:subscribe-byte:not-a-boolean" });
            let flag = packed::Bool::new_unchecked(NBytes::from(vec![*b]));
            let u: packed::LightClientMessageUnion = packed::GetLastState::new_builder().subscribe(flag).build().into();
            Concrete::Raw(packed::LightClientMessage::new_builder().set(u).build().as_bytes().to_vec())
        }
        Req::Unexpected(k) => {
            let tip_vh = packed::VerifiableHeader::new_builder().header(w.tip().block.header().data()).build();
            let u: packed::LightClientMessageUnion = match k % 4 {
                0 => packed::SendLastState::new_builder().last_header(tip_vh).build().into(),
                1 => packed::SendLastStateProof::new_builder().last_header(tip_vh).build().into(),
                2 => packed::SendBlocksProof::new_builder().last_header(tip_vh).build().into(),
                _ => packed::SendTransactionsProof::new_builder().last_header(tip_vh).build().into(),
            };
            Concrete::Raw(packed::LightClientMessage::new_builder().set(u).build().as_bytes().to_vec())
        }
        Req::LastStateProof {
            last,
            start,
            start_hash,
            last_n,
            boundary,
            diffs,
            diffs_kind,
        } => {
            let (last_h, kind) = w.resolve(last);
            st.label(&format!("lc:req:GetLastStateProof:last={kind}"));
            // numbers are resolved against the main chain (against the tip when last is off it)
            let l = w.on_main(&last_h).unwrap_or(w.tip().number);
            let start_n = match start {
                NumSel::Zero => 0,
                NumSel::Rel(x) => pick_idx(*x as u32, l as usize + 1) as u64,
                NumSel::Fork(d) => {
                    let f = w.abandoned.as_ref().map(|a| a.1).unwrap_or(l / 2) as i64 + *d as i64;
                    f.max(0) as u64
                }
                NumSel::Beyond(k) => l + 1 + *k as u64,
                NumSel::Max => u64::MAX,
            };
            let in_chain = start_n < w.main.len() as u64;
            let start_h = match start_hash {
                StartHash::Right if in_chain => w.main[start_n as usize].hash.clone(),
                StartHash::Abandoned => w
                    .abandoned
                    .as_ref()
                    .and_then(|(a, _)| w.tree.ancestor(a, start_n))
                    .map(|b| b.hash.clone())
                    .unwrap_or_else(|| if in_chain { w.main[start_n as usize].hash.clone() } else { Default::default() }),
                StartHash::OtherMain(x) => w.main[pick_idx(*x as u32, w.main.len())].hash.clone(),
                _ => Default::default(),
            };
            let s_c = start_n.min(l);
            let td_before = if s_c == 0 { U256::zero() } else { w.td(s_c - 1) };
            let bnd = match boundary {
                DiffSel::AtBlock(x, d) => {
                    let span = (l - s_c).max(1);
                    let n = (s_c + pick_idx(*x as u32, span as usize) as u64).min(l);
                    u256_from_i(&w.td(n), *d)
                }
                DiffSel::Zero => U256::zero(),
                DiffSel::Max => U256::max_value(),
                DiffSel::AboveLast(k) => w.td(l) + U256::from(*k as u64),
            };
            // difficulties strictly between the total difficulty before start and the boundary
            let lo = td_before.clone() + U256::one();
            let room = if bnd > lo { bnd.clone() - lo.clone() } else { U256::zero() };
            let room64: u64 = if room > U256::from(u64::MAX >> 17) { u64::MAX >> 17 } else { room.0[0] };
            let mut ds: Vec<U256> = diffs
                .iter()
                .map(|x| lo.clone() + U256::from(((room64 as u128 * *x as u128) >> 16) as u64))
                .collect();
            match diffs_kind {
                1 => {}
                k => {
                    ds.sort();
                    ds.dedup();
                    match k {
                        2 => {
                            if let Some(d) = ds.first().cloned() {
                                ds.insert(0, d);
                            }
                        }
                        3 => {
                            if let Some(d) = ds.last_mut() {
                                *d = bnd.clone();
                            }
                        }
                        4 => {
                            if let Some(d) = ds.first_mut() {
                                *d = td_before.clone();
                            }
                        }
                        5 => {
                            ds = (0..1001u64).map(|i| lo.clone() + U256::from(i)).collect();
                        }
                        _ => {}
                    }
                }
            }
            Concrete::Lsp {
                last: last_h,
                start_hash: start_h,
                start: start_n,
                last_n: *last_n,
                boundary: bnd,
                diffs: ds,
            }
        }
        Req::BlocksProof { last, below, blocks, shape } => {
            let (last_h, kind) = w.resolve(last);
            st.label(&format!("lc:req:GetBlocksProof:last={kind}"));
            let lim = w.on_main(&last_h).filter(|l| *below && *l > 0);
            let mut hashes: Vec<H> = vec![];
            for s in blocks {
                let (h, k) = match (s, lim) {
                    (HashSel::Main(x), Some(l)) => (w.main[pick_idx(*x as u32, l as usize)].hash.clone(), "main-below-last"),
                    (HashSel::Tip, Some(l)) => (w.main[l as usize - 1].hash.clone(), "main-below-last"),
                    _ => w.resolve(s),
                };
                if h != last_h && !hashes.contains(&h) {
                    st.label(&format!("lc:req:GetBlocksProof:block={k}"));
                    hashes.push(h);
                }
            }
            match shape {
                1 => {
                    if let Some(h) = hashes.first().cloned() {
                        hashes.push(h);
                    }
                }
                2 => hashes.push(last_h.clone()),
                3 => {
                    for i in 0..1001u32 {
                        hashes.push(packed::Byte32::from_slice(&blake(&[b"many", &i.to_le_bytes()])).unwrap());
                    }
                }
                _ => {}
            }
            Concrete::Blocks { last: last_h, hashes }
        }
        Req::TxsProof { last, below, txs, shape } => {
            let (last_h, kind) = w.resolve(last);
            st.label(&format!("lc:req:GetTransactionsProof:last={kind}"));
            let span = w.on_main(&last_h).filter(|l| *below && *l > 0).map(|l| l as usize).unwrap_or(w.main.len());
            let mut hashes: Vec<H> = vec![];
            for s in txs {
                let (h, k) = match s {
                    TxSel::Main(b, t) => {
                        let blk = w.main[pick_idx(*b as u32, span)];
                        let txs = blk.block.transactions();
                        // prefer non-cellbase transactions where there are some
                        let i = if txs.len() > 1 && t % 4 != 0 { 1 + pick_idx(*t as u32, txs.len() - 1) } else { 0 };
                        (txs[i].hash(), if i == 0 { "main-cellbase" } else { "main-tx" })
                    }
                    TxSel::Side(b, t) => {
                        let side = w.side();
                        if side.is_empty() {
                            (packed::Byte32::from_slice(&blake(&[b"notx", &b.to_le_bytes()])).unwrap(), "unknown")
                        } else {
                            // blocks with transactions first
                            let with_txs: Vec<&H> = side.iter().filter(|h| w.tree.get(h).block.transactions().len() > 1).collect();
                            let h = if with_txs.is_empty() { &side[pick_idx(*b as u32, side.len())] } else { with_txs[pick_idx(*b as u32, with_txs.len())] };
                            let txs = w.tree.get(h).block.transactions();
                            let i = if txs.len() > 1 { 1 + pick_idx(*t as u32, txs.len() - 1) } else { 0 };
                            let th = txs[i].hash();
                            let also_main = w.tip().state.tx_index.contains_key(&h32(&th));
                            (th, if also_main { "side-tx-also-on-main" } else if i == 0 { "side-cellbase" } else { "side-tx-only" })
                        }
                    }
                    TxSel::Unknown(k) => (packed::Byte32::from_slice(&blake(&[b"notx", &[*k]])).unwrap(), "unknown"),
                };
                if !hashes.contains(&h) {
                    st.label(&format!("lc:req:GetTransactionsProof:tx={k}"));
                    hashes.push(h);
                }
            }
            match shape {
                1 => {
                    if let Some(h) = hashes.first().cloned() {
                        hashes.push(h);
                    }
                }
                3 => {
                    for i in 0..1001u32 {
                        hashes.push(packed::Byte32::from_slice(&blake(&[b"manytx", &i.to_le_bytes()])).unwrap());
                    }
                }
                _ => {}
            }
            Concrete::Txs { last: last_h, hashes }
        }
    }
}

// ------------------------------------------------------------------------------------------------
// replies

struct Proved {
    header: packed::Header,
    uncles_hash: Option<packed::Byte32>,
    extension: Option<Option<packed::Bytes>>,
    parent_chain_root: Option<packed::HeaderDigest>,
}

struct Reply {
    item: u32,
    last: packed::VerifiableHeader,
    proof: Vec<packed::HeaderDigest>,
    proved: Vec<Proved>,
    missing: Vec<H>,
    filtered: Vec<packed::FilteredBlock>,
    v1: bool,
}

fn decode_reply(data: &[u8]) -> Result<Reply, String> {
    if data.len() < 4 {
        return Err("reply shorter than a union header".into());
    }
    let item = u32::from_le_bytes([data[0], data[1], data[2], data[3]]);
    let body = &data[4..];
    let vh = |v: packed::VerifiableHeader| Proved {
        header: v.header(),
        uncles_hash: Some(v.uncles_hash()),
        extension: Some(v.extension().to_opt()),
        parent_chain_root: Some(v.parent_chain_root()),
    };
    let zip = |headers: Vec<packed::Header>, uncles: Option<packed::Byte32Vec>, exts: Option<packed::BytesOptVec>| -> Result<Vec<Proved>, String> {
        if let (Some(u), Some(e)) = (&uncles, &exts) {
            if u.len() != headers.len() || e.len() != headers.len() {
                return Err(format!("{} headers, {} uncles hashes, {} extensions", headers.len(), u.len(), e.len()));
            }
        }
        Ok(headers
            .into_iter()
            .enumerate()
            .map(|(i, h)| Proved {
                header: h,
                uncles_hash: uncles.as_ref().map(|u| u.get(i).unwrap()),
                extension: exts.as_ref().map(|e| e.get(i).unwrap().to_opt()),
                parent_chain_root: None,
            })
            .collect())
    };
    match item {
        1 => {
            let m = packed::SendLastState::from_slice(body).map_err(|e| format!("SendLastState: {e}"))?;
            Ok(Reply { item, last: m.last_header(), proof: vec![], proved: vec![], missing: vec![], filtered: vec![], v1: false })
        }
        3 => {
            let m = packed::SendLastStateProof::from_slice(body).map_err(|e| format!("SendLastStateProof: {e}"))?;
            Ok(Reply {
                item,
                last: m.last_header(),
                proof: m.proof().into_iter().collect(),
                proved: m.headers().into_iter().map(vh).collect(),
                missing: vec![],
                filtered: vec![],
                v1: false,
            })
        }
        5 => match packed::SendBlocksProofV1::from_slice(body) {
            Ok(m) => Ok(Reply {
                item,
                last: m.last_header(),
                proof: m.proof().into_iter().collect(),
                proved: zip(m.headers().into_iter().collect(), Some(m.blocks_uncles_hash()), Some(m.blocks_extension()))?,
                missing: m.missing_block_hashes().into_iter().collect(),
                filtered: vec![],
                v1: true,
            }),
            Err(_) => {
                let m = packed::SendBlocksProof::from_slice(body).map_err(|e| format!("SendBlocksProof: {e}"))?;
                Ok(Reply {
                    item,
                    last: m.last_header(),
                    proof: m.proof().into_iter().collect(),
                    proved: zip(m.headers().into_iter().collect(), None, None)?,
                    missing: m.missing_block_hashes().into_iter().collect(),
                    filtered: vec![],
                    v1: false,
                })
            }
        },
        7 => match packed::SendTransactionsProofV1::from_slice(body) {
            Ok(m) => {
                let fb: Vec<packed::FilteredBlock> = m.filtered_blocks().into_iter().collect();
                Ok(Reply {
                    item,
                    last: m.last_header(),
                    proof: m.proof().into_iter().collect(),
                    proved: zip(fb.iter().map(|f| f.header()).collect(), Some(m.blocks_uncles_hash()), Some(m.blocks_extension()))?,
                    missing: m.missing_tx_hashes().into_iter().collect(),
                    filtered: fb,
                    v1: true,
                })
            }
            Err(_) => {
                let m = packed::SendTransactionsProof::from_slice(body).map_err(|e| format!("SendTransactionsProof: {e}"))?;
                let fb: Vec<packed::FilteredBlock> = m.filtered_blocks().into_iter().collect();
                Ok(Reply {
                    item,
                    last: m.last_header(),
                    proof: m.proof().into_iter().collect(),
                    proved: zip(fb.iter().map(|f| f.header()).collect(), None, None)?,
                    missing: m.missing_tx_hashes().into_iter().collect(),
                    filtered: fb,
                    v1: false,
                })
            }
        },
        other => Err(format!("a server does not send union item {other}")),
    }
}

struct Outcome {
    replies: Vec<NBytes>,
    bans: Vec<String>,
    panic: Option<(String, String)>,
}

struct Driver {
    protocol: LightClientProtocol,
    net: Arc<Net>,
    rt: tokio::runtime::Runtime,
}

impl Driver {
    fn new(node: &Node) -> Driver {
        Driver {
            protocol: LightClientProtocol::new(node.shared.clone()),
            net: Arc::new(Net { log: Mutex::new(Rec::default()) }),
            rt: tokio::runtime::Builder::new_current_thread().enable_time().build().expect("runtime"),
        }
    }
    fn deliver(&mut self, data: NBytes) -> Outcome {
        *self.net.log.lock().unwrap() = Rec::default();
        let before = all_panics().len();
        let nc: Arc<dyn CKBProtocolContext + Sync> = self.net.clone();
        let protocol = &mut self.protocol;
        let rt = &self.rt;
        let r = std::panic::catch_unwind(std::panic::AssertUnwindSafe(|| {
            rt.block_on(protocol.received(nc, PeerIndex::new(7), data));
        }));
        let panic = match r {
            Ok(()) => None,
            Err(_) => {
                let ps = all_panics();
                Some(ps.get(before).map(|p| (p.location.clone(), p.message.clone())).unwrap_or_default())
            }
        };
        let mut g = match self.net.log.lock() {
            Ok(g) => g,
            Err(p) => p.into_inner(),
        };
        Outcome {
            replies: std::mem::take(&mut g.sent),
            bans: std::mem::take(&mut g.bans),
            panic,
        }
    }
}

// ------------------------------------------------------------------------------------------------
// oracle

/// (a) + VerifiableHeader clause: `vh` is the verifiable header of the main-chain block `b`
fn check_vh(w: &World, vh: &packed::VerifiableHeader, b: &MBlock, what: &str, msg: &str) -> Verdict {
    if vh.header().as_slice() != b.block.header().data().as_slice() {
        vfail!(format!("lc:verifiable-header:header-differs:{msg}"), "{what}: header differs from main-chain block #{}", b.number);
    }
    if vh.uncles_hash() != b.block.calc_uncles_hash() {
        vfail!(format!("lc:verifiable-header:uncles-hash-wrong:{msg}"), "{what}: uncles hash of block #{} is wrong", b.number);
    }
    if vh.extension().to_opt().map(|e| e.raw_data()) != b.block.extension().map(|e| e.raw_data()) {
        vfail!(format!("lc:verifiable-header:extension-wrong:{msg}"), "{what}: extension of block #{} is wrong", b.number);
    }
    let want = w.root_below(b.number);
    if vh.parent_chain_root().as_slice() != want.as_slice() {
        vfail!(
            format!("lc:verifiable-header:parent-chain-root-differs-from-model:{msg}"),
            "{what}: parent_chain_root of block #{} is {} but the MMR root over the main chain's digests 0..{} is {}",
            b.number,
            vh.parent_chain_root(),
            b.number,
            want
        );
    }
    // what the block itself commits (the way a client checks it)
    if b.number > 0 {
        let ext = b.block.extension().map(|e| e.raw_data()).unwrap_or_default();
        if ext.len() < 32 || ext[..32] != digest_hash(&vh.parent_chain_root()) {
            vfail!(
                format!("lc:verifiable-header:parent-chain-root-is-not-the-committed-root:{msg}"),
                "{what}: block #{} does not commit the served parent chain root",
                b.number
            );
        }
    }
    Ok(())
}

struct ReqFacts {
    /// numbers of the main-chain blocks the reply proved
    proved_numbers: Vec<u64>,
    last: Option<u64>,
    tip_state: bool,
}

fn tx_hashes_of(fb: &packed::FilteredBlock) -> Vec<H> {
    fb.transactions().into_iter().map(|t| t.calc_tx_hash()).collect()
}

/// soundness of any reply that carries a proof: the named last block and every proved header are
/// main-chain blocks, the proof verifies against the model root below `last`
fn check_sound(w: &World, r: &Reply, msg: &str, st: &mut Stats) -> Result<ReqFacts, Violation> {
    let lh = r.last.header().calc_header_hash();
    let l = match w.on_main(&lh) {
        Some(l) => l,
        None => vfail!(
            format!("lc:last-header-not-on-main-chain:{msg}"),
            "{msg}: the reply names last header {:#x} #{} which is not on the node's main chain (tip #{})",
            lh,
            r.last.header().raw().number(),
            w.tip().number
        ),
    };
    check_vh(w, &r.last, w.main[l as usize], &format!("{msg} last_header"), msg)?;
    let mut leaves: BTreeMap<u64, packed::HeaderDigest> = BTreeMap::new();
    let mut numbers = vec![];
    for (i, p) in r.proved.iter().enumerate() {
        let h = p.header.calc_header_hash();
        let n = match w.on_main(&h) {
            Some(n) => n,
            None => vfail!(
                format!("lc:proved-header-not-on-main-chain:{msg}"),
                "{msg}: proved header {i} {:#x} #{} is not on the node's main chain",
                h,
                p.header.raw().number()
            ),
        };
        let b = w.main[n as usize];
        if n >= l {
            vfail!(
                format!("lc:proved-header-not-below-last:{msg}"),
                "{msg}: proved header {i} is main-chain block #{n}, the named last block is #{l}: the chain root of #{l} cannot prove it"
            );
        }
        if let Some(u) = &p.uncles_hash {
            if *u != b.block.calc_uncles_hash() {
                vfail!(format!("lc:proved-header:uncles-hash-wrong:{msg}"), "{msg}: uncles hash for proved block #{n} is wrong");
            }
        }
        if let Some(e) = &p.extension {
            if e.as_ref().map(|e| e.raw_data()) != b.block.extension().map(|e| e.raw_data()) {
                vfail!(format!("lc:proved-header:extension-wrong:{msg}"), "{msg}: extension for proved block #{n} is wrong");
            }
        }
        if let Some(root) = &p.parent_chain_root {
            let vh = packed::VerifiableHeader::new_builder()
                .header(p.header.clone())
                .uncles_hash(p.uncles_hash.clone().unwrap_or_default())
                .extension(packed::BytesOpt::new_builder().set(p.extension.clone().flatten()).build())
                .parent_chain_root(root.clone())
                .build();
            check_vh(w, &vh, b, &format!("{msg} header {i}"), msg)?;
        }
        // the leaf digest is derived from the served header, as a client does
        leaves.insert(n, leaf_digest(&p.header.clone().into_view()));
        numbers.push(n);
    }
    if r.proved.is_empty() {
        if !r.proof.is_empty() {
            vfail!(format!("lc:proof-items-without-proved-headers:{msg}"), "{msg}: {} proof items but nothing proved", r.proof.len());
        }
        return Ok(ReqFacts { proved_numbers: numbers, last: Some(l), tip_state: false });
    }
    if leaves.len() != r.proved.len() {
        vfail!(format!("lc:proved-header-repeated:{msg}"), "{msg}: a main-chain block is proved twice in one reply");
    }
    let want = w.root_below(l);
    match mmr_root_from_proof(l, &leaves, &r.proof) {
        Ok(root) if root.as_slice() == want.as_slice() => {}
        other => vfail!(
            format!("lc:proof-does-not-verify:{msg}"),
            "{msg}: proof ({} items) for main-chain blocks {numbers:?} under last #{l}: own verification gives {}, the model root over digests 0..{l} is {}",
            r.proof.len(),
            match &other {
                Ok(r) => format!("{r}"),
                Err(e) => format!("error: {e}"),
            },
            want
        ),
    }
    st.label("lc:oracle:mmr-proof-verified");
    // the rival branch's root over the same number of leaves
    if let Some((a, _)) = &w.abandoned {
        if let Some(ak) = w.tree.ancestor(a, l - 1) {
            if ak.hash != w.main[l as usize - 1].hash {
                let apath = w.tree.path(&ak.hash);
                let aroot = mmr_root_of_headers(apath.iter().map(|b| b.block.header()).collect::<Vec<_>>().iter()).unwrap();
                if let Ok(root) = mmr_root_from_proof(l, &leaves, &r.proof) {
                    if root.as_slice() == aroot.as_slice() {
                        vfail!(format!("lc:proof-verifies-against-rival-root:{msg}"), "{msg}: the served proof verifies against the abandoned branch's root");
                    }
                }
                st.label("lc:oracle:rival-root-rejected");
            }
        }
    }
    Ok(ReqFacts { proved_numbers: numbers, last: Some(l), tip_state: false })
}

fn check_tip_state(w: &World, r: &Reply, msg: &str) -> Verdict {
    let tip = w.tip();
    if r.last.header().calc_header_hash() != tip.hash {
        vfail!(
            format!("lc:tip-state-expected:last-header-is-not-the-tip:{msg}"),
            "{msg}: the request named a block off the main chain; the reply's last header is #{} {:#x}, the tip is #{} {:#x}",
            r.last.header().raw().number(),
            r.last.header().calc_header_hash(),
            tip.number,
            tip.hash
        );
    }
    check_vh(w, &r.last, tip, &format!("{msg} tip state"), msg)?;
    if !r.proof.is_empty() || !r.proved.is_empty() || !r.missing.is_empty() || !r.filtered.is_empty() {
        vfail!(
            format!("lc:tip-state-expected:reply-carries-a-proof:{msg}"),
            "{msg}: the request named a block off the main chain but the reply carries {} proof items, {} proved headers, {} missing",
            r.proof.len(),
            r.proved.len(),
            r.missing.len()
        );
    }
    Ok(())
}

fn check_filtered(w: &World, r: &Reply, requested: &[H], dup_request: bool, msg: &str, st: &mut Stats) -> Verdict {
    let idx = &w.tip().state.tx_index;
    for (i, fb) in r.filtered.iter().enumerate() {
        let h = fb.header().calc_header_hash();
        let n = w.on_main(&h).expect("checked by check_sound");
        let b = w.main[n as usize];
        let got = tx_hashes_of(fb);
        // requested transactions the model places in this block, request order
        let want: Vec<H> = requested
            .iter()
            .filter(|t| idx.get(&h32(t)).map(|(bh, _, _)| *bh == b.hash).unwrap_or(false))
            .cloned()
            .collect();
        let (mut g, mut wv) = (got.clone(), want.clone());
        g.sort();
        wv.sort();
        if g != wv {
            vfail!(
                format!("lc:txs:filtered-block-transactions-differ-from-requested:{msg}"),
                "{msg}: filtered block {i} (#{n}) carries {} transactions, the request names {} transactions of that block",
                got.len(),
                want.len()
            );
        }
        let all: Vec<[u8; 32]> = b.block.transactions().iter().map(|t| h32(&t.hash())).collect();
        let wit: Vec<[u8; 32]> = b.block.transactions().iter().map(|t| h32(&t.witness_hash())).collect();
        let wroot = cbmt_root(&wit);
        if fb.witnesses_root().as_slice() != wroot {
            vfail!(format!("lc:txs:witnesses-root-wrong:{msg}"), "{msg}: witnesses root of filtered block #{n} is wrong");
        }
        if dup_request {
            st.label("lc:txs:duplicate-request:merkle-proof-not-judged");
            continue;
        }
        let indices: Vec<u32> = fb.proof().indices().into_iter().map(|x| x.into()).collect();
        let lemmas: Vec<[u8; 32]> = fb.proof().lemmas().into_iter().map(|x| h32(&x)).collect();
        let leaves: Vec<[u8; 32]> = got.iter().map(h32).collect();
        let raw_root = match cbmt_root_from_proof(&indices, &leaves, &lemmas) {
            Ok(r) => r,
            Err(e) => vfail!(
                format!("lc:txs:merkle-proof-does-not-verify:{msg}"),
                "{msg}: merkle proof of filtered block #{n} (indices {indices:?}, {} lemmas, {} of {} txs): {e}",
                lemmas.len(),
                got.len(),
                all.len()
            ),
        };
        let troot = blake(&[&raw_root, &wroot]);
        if troot != h32(&b.block.header().transactions_root()) {
            vfail!(
                format!("lc:txs:merkle-proof-does-not-verify:{msg}"),
                "{msg}: merkle proof of filtered block #{n} (indices {indices:?}, {} of {} txs) gives transactions root {}, the header commits {:#x}",
                got.len(),
                all.len(),
                hex(&troot),
                b.block.header().transactions_root()
            );
        }
        // the indices name the positions of these transactions
        let n_txs = all.len() as u32;
        let mut sorted = leaves.clone();
        sorted.sort();
        for (ti, leaf) in indices.iter().zip(sorted.iter()) {
            let pos = ti + 1 - n_txs.min(*ti + 1);
            if all.get(pos as usize) != Some(leaf) {
                vfail!(format!("lc:txs:merkle-proof-index-wrong:{msg}"), "{msg}: tree index {ti} does not name the transaction it is paired with in block #{n}");
            }
        }
        st.label("lc:oracle:tx-merkle-proof-verified");
    }
    Ok(())
}

/// judge the outcome of one request; returns facts used by the non-trivial rule
fn judge(w: &World, c: &Concrete, out: &Outcome, st: &mut Stats) -> Result<ReqFacts, Violation> {
    let msg = c.name();
    let none = ReqFacts { proved_numbers: vec![], last: None, tip_state: false };
    if let Some((loc, m)) = &out.panic {
        // registry crates: path below the registry directory
        let loc = &match loc.find("/registry/src/") {
            Some(i) => loc[i + 14..].split_once('/').map(|x| x.1.to_string()).unwrap_or(loc.clone()),
            None => loc.clone(),
        };
        let why = match c {
            Concrete::Lsp { last, start, last_n, .. } => {
                let l = w.on_main(last);
                if l == Some(0) { "last=genesis".to_string() }
                else if l.map(|l| *start > l).unwrap_or(false) { "start-after-last".to_string() }
                else if *last_n > (usize::MAX / 2) as u64 { "last_n-overflows".to_string() }
                else { "other".to_string() }
            }
            Concrete::Txs { hashes, .. } if {
                let mut s = BTreeSet::new();
                !hashes.iter().all(|h| s.insert(h32(h)))
            } =>
            {
                "duplicate-tx-hash".to_string()
            }
            Concrete::Blocks { last, .. } | Concrete::Txs { last, .. } => {
                if w.on_main(last) == Some(0) { "last=genesis".to_string() } else { "other".to_string() }
            }
            _ => "other".to_string(),
        };
        vfail!(
            format!("lc:panic:{msg}:{why}@{loc}"),
            "LightClientProtocol::received panicked on a {msg} request ({why}) at {loc}: {m}; request {c:?}"
        );
    }
    if out.replies.len() > 1 {
        vfail!(format!("lc:more-than-one-reply:{msg}"), "{} replies to one {msg}", out.replies.len());
    }
    let expect = match c {
        Concrete::LastState(_) => Expect::State,
        Concrete::Lsp { last, start_hash, start, last_n, boundary, diffs } => expect_lsp(w, last, start_hash, *start, *last_n, boundary, diffs),
        Concrete::Blocks { last, hashes } => expect_blocks(w, last, hashes),
        Concrete::Txs { last, hashes } => expect_txs(w, last, hashes),
        Concrete::Raw(b) => {
            // anything that is not a well-formed request: never a reply
            if !out.replies.is_empty() {
                // a raw byte string may happen to be a well-formed request; judge only soundness
                if packed::LightClientMessageReader::from_slice(b).is_ok() {
                    st.label("lc:raw:happens-to-be-well-formed");
                    return Ok(none);
                }
                vfail!("lc:malformed-message-answered", "a malformed message ({} bytes) got a reply", b.len());
            }
            st.label(if out.bans.is_empty() { "lc:raw:ignored" } else { "lc:raw:banned" });
            return Ok(none);
        }
    };
    let reply = match out.replies.first() {
        Some(d) => Some(decode_reply(d).map_err(|e| Violation::new(format!("lc:reply-undecodable:{msg}"), format!("{msg}: {e}")))?),
        None => None,
    };
    let want_item = match c {
        Concrete::LastState(_) => 1,
        Concrete::Lsp { .. } => 3,
        Concrete::Blocks { .. } => 5,
        _ => 7,
    };
    if let Some(r) = &reply {
        if r.item != want_item {
            vfail!(format!("lc:reply-kind-wrong:{msg}"), "{msg} answered with union item {}", r.item);
        }
    }
    match (&expect, &reply) {
        (Expect::Refused(why), None) => {
            st.label(&format!("lc:refused:{msg}:{why}:{}", if out.bans.is_empty() { "no-ban" } else { "ban" }));
            Ok(none)
        }
        (Expect::Refused(why), Some(r)) => {
            // not owed, but whatever is served must be sound
            st.label(&format!("lc:refusable-request-answered:{msg}:{why}"));
            if r.proved.is_empty() && r.proof.is_empty() && r.last.header().calc_header_hash() == w.tip().hash {
                return Ok(none);
            }
            check_sound(w, r, msg, st)
        }
        (Expect::State, Some(r)) => {
            let tip = w.tip();
            if r.last.header().calc_header_hash() != tip.hash {
                vfail!("lc:last-state-is-not-the-tip", "SendLastState names #{} {:#x}, the tip is #{} {:#x}", r.last.header().raw().number(), r.last.header().calc_header_hash(), tip.number, tip.hash);
            }
            check_vh(w, &r.last, tip, "SendLastState", msg)?;
            st.label("lc:served:SendLastState");
            Ok(none)
        }
        (Expect::TipState(_), Some(r)) => {
            check_tip_state(w, r, msg)?;
            st.label(&format!("lc:served:{msg}:tip-state"));
            Ok(ReqFacts { proved_numbers: vec![], last: None, tip_state: true })
        }
        (Expect::Ahead { .. }, None) => {
            st.label(&format!("lc:ahead-of-last:{msg}:not-answered"));
            Ok(none)
        }
        (Expect::Ahead { last, found, missing }, Some(r)) => {
            st.label(&format!("lc:ahead-of-last:{msg}:answered"));
            let f = check_sound(w, r, msg, st)?;
            // sound = everything at or above last is reported missing
            let below: Vec<(H, u64)> = found.iter().filter(|(_, n)| n < last).cloned().collect();
            let mut miss = missing.clone();
            miss.extend(found.iter().filter(|(_, n)| n >= last).map(|(h, _)| h.clone()));
            let _ = (below, miss);
            Ok(f)
        }
        (_, None) => vfail!(
            format!("lc:valid-request-not-answered:{msg}"),
            "{msg}: a well-formed request got no reply (bans: {:?}); expected {expect:?}; request {c:?}",
            out.bans
        ),
        (Expect::Headers { last, numbers }, Some(r)) => {
            if !out.bans.is_empty() {
                vfail!(format!("lc:valid-request-banned:{msg}"), "{msg}: answered and banned: {:?}", out.bans);
            }
            let f = check_sound(w, r, msg, st)?;
            if f.last != Some(*last) {
                vfail!(format!("lc:last-header-is-not-the-requested-block:{msg}"), "{msg}: requested last #{last}, the reply names #{:?}", f.last);
            }
            if f.proved_numbers != *numbers {
                vfail!(
                    format!("lc:headers-differ-from-documented-sample:{msg}"),
                    "{msg}: the reply proves main-chain blocks {:?}, the documented sampling of the request gives {numbers:?}; request {c:?}",
                    f.proved_numbers
                );
            }
            st.label(&format!("lc:served:{msg}:proof"));
            if numbers.is_empty() {
                st.label(&format!("lc:served:{msg}:proof-of-nothing"));
            }
            Ok(f)
        }
        (Expect::Partition { last, found, missing }, Some(r)) => {
            if !out.bans.is_empty() {
                vfail!(format!("lc:valid-request-banned:{msg}"), "{msg}: answered and banned: {:?}", out.bans);
            }
            let f = check_sound(w, r, msg, st)?;
            if f.last != Some(*last) {
                vfail!(format!("lc:last-header-is-not-the-requested-block:{msg}"), "{msg}: requested last #{last}, the reply names #{:?}", f.last);
            }
            if r.missing != *missing {
                vfail!(
                    format!("lc:missing-items-differ:{msg}"),
                    "{msg}: reported missing {:?}, the requested items that are not on the main chain are {:?}",
                    r.missing.iter().map(|h| format!("{h:#x}")).collect::<Vec<_>>(),
                    missing.iter().map(|h| format!("{h:#x}")).collect::<Vec<_>>()
                );
            }
            match c {
                Concrete::Blocks { .. } => {
                    let want: Vec<u64> = found.iter().map(|(_, n)| *n).collect();
                    if f.proved_numbers != want {
                        vfail!(
                            format!("lc:proved-blocks-differ-from-requested:{msg}"),
                            "{msg}: proved main-chain blocks {:?}, requested main-chain blocks {want:?}",
                            f.proved_numbers
                        );
                    }
                    if !r.v1 {
                        vfail!(format!("lc:reply-lacks-uncles-hash-and-extension:{msg}"), "{msg}: a proof reply without the V1 fields");
                    }
                }
                Concrete::Txs { hashes, .. } => {
                    let mut want: Vec<u64> = found.iter().map(|(_, n)| *n).collect();
                    want.sort();
                    want.dedup();
                    let mut got = f.proved_numbers.clone();
                    got.sort();
                    if got != want {
                        vfail!(
                            format!("lc:filtered-blocks-differ-from-requested:{msg}"),
                            "{msg}: filtered blocks {got:?}, the requested transactions are in main-chain blocks {want:?}"
                        );
                    }
                    let dup = {
                        let mut s = BTreeSet::new();
                        !hashes.iter().all(|h| s.insert(h32(h)))
                    };
                    check_filtered(w, r, hashes, dup, msg, st)?;
                }
                _ => {}
            }
            st.label(&format!("lc:served:{msg}:proof"));
            if found.is_empty() {
                st.label(&format!("lc:served:{msg}:proof-of-nothing"));
            }
            Ok(f)
        }
    }
}

// ------------------------------------------------------------------------------------------------
// property

pub fn prop(case: &Case, st: &mut Stats) -> Verdict {
    let cfg = variant_cfg(case.variant);
    let env = build_env(&cfg);
    let built = Interp::new(&env).run(&case.plan);
    if built.blocks.is_empty() {
        return Ok(());
    }
    let tree = &built.tree;
    install_panic_recorder();
    clear_panics();
    let node = Node::start(&env, NodeCfg::default()).map_err(|e| Violation::new("harness:node-start", e))?;
    let mut drv = Driver::new(&node);
    let mut w = World {
        tree,
        main: vec![],
        roots: vec![],
        main_idx: BTreeMap::new(),
        ever_main: BTreeSet::new(),
        stored: vec![],
        abandoned: None,
        reorgs: 0,
    };
    let mut cur: H = tree.genesis.clone();
    w.set_main(&cur);
    let mut nontrivial = false;
    let mut served = 0u64;
    let mut samples: Vec<serde_json::Value> = vec![];

    for (i, h) in built.blocks.iter().enumerate() {
        let b = tree.get(h);
        let parent_chain_valid = tree.path(&b.parent).iter().all(|x| x.invalid.is_none());
        let r = node.process(&b.block);
        node_panic_violation()?;
        if parent_chain_valid && b.invalid.is_none() {
            if let Err(e) = &r {
                vfail!("commit:model-built-block-rejected", "delivery {i}: block #{} {:#x} was rejected: {e}", b.number, b.hash);
            }
            w.stored.push(h.clone());
        }
        let heavier = b.td > tree.get(&cur).td;
        let new_cur = if heavier && parent_chain_valid && b.invalid.is_none() { h.clone() } else { cur.clone() };
        let tip = node.tip_hash();
        if tip != new_cur {
            vfail!("tip:differs-from-model", "delivery {i} (#{}): node tip {:#x} but the model's tip is {:#x}", b.number, tip, new_cur);
        }
        let mut reorged = false;
        if new_cur != cur {
            if !tree.is_ancestor(&cur, &new_cur) {
                // common ancestor
                let mut a = tree.get(&cur);
                while !tree.is_ancestor(&a.hash, &new_cur) {
                    a = tree.get(&a.parent);
                }
                w.abandoned = Some((cur.clone(), a.number));
                w.reorgs += 1;
                reorged = true;
                st.label("lc:reorg:any");
                if tree.get(&new_cur).number < tree.get(&cur).number {
                    st.label("lc:reorg:to-shorter-chain");
                }
            }
            cur = new_cur;
            w.set_main(&cur);
        }
        let round = &case.rounds[i % case.rounds.len()];
        let extra: &[Req] = if reorged { &case.after_reorg } else { &[] };
        for req in extra.iter().chain(round.iter()) {
            let c = make_concrete(&w, req, st);
            let out = drv.deliver(c.encode());
            node_panic_violation()?;
            let f = judge(&w, &c, &out, st)?;
            if f.last.is_some() || f.tip_state {
                served += 1;
            }
            // the non-trivial rule
            if w.reorgs > 0 {
                let (_, fork) = w.abandoned.clone().unwrap();
                let detached_named = |h: &H| w.ever_main.contains(&h32(h)) && w.on_main(h).is_none();
                let mut why = vec![];
                match &c {
                    Concrete::Lsp { last, .. } | Concrete::Blocks { last, .. } | Concrete::Txs { last, .. } if f.tip_state && detached_named(last) => {
                        why.push("last-hash-on-abandoned-branch");
                    }
                    _ => {}
                }
                if f.last.is_some() {
                    match &c {
                        Concrete::Blocks { hashes, .. } if hashes.iter().any(detached_named) => why.push("requested-block-on-abandoned-branch"),
                        Concrete::Txs { hashes, .. } => {
                            let on_side = |t: &H| {
                                w.detached().iter().any(|d| tree.get(d).block.transactions().iter().any(|x| x.hash() == *t))
                            };
                            if hashes.iter().any(on_side) {
                                why.push("requested-tx-in-abandoned-block");
                            }
                        }
                        _ => {}
                    }
                    let l = f.last.unwrap();
                    if let (Some(lo), true) = (f.proved_numbers.iter().min(), l > fork) {
                        if *lo <= fork {
                            why.push("proved-set-crosses-the-fork-point");
                        }
                    }
                }
                for y in &why {
                    st.label(&format!("lc:nontrivial:{y}"));
                }
                if !why.is_empty() {
                    nontrivial = true;
                    if samples.len() < 2 {
                        samples.push(json!({"after_delivery": i, "request": format!("{c:?}").chars().take(400).collect::<String>(),
                            "why": why, "tip": w.tip().number, "fork_point": fork, "served_last": f.last, "proved": f.proved_numbers, "tip_state": f.tip_state}));
                    }
                }
            }
        }
    }
    node_panic_violation()?;
    node.stop();
    st.label_n("lc:replies-judged", served);
    if nontrivial {
        st.nontrivial(&serde_json::to_string(case).unwrap());
        if st.want_sample() {
            st.sample(|| json!({"sub": "light-client", "variant": case.variant, "blocks": built.blocks.len(), "reorgs": w.reorgs, "requests": samples}));
        }
    }
    Ok(())
}
