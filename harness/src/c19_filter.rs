//! C19 sub-check `filter-protocol`: the code that *serves* block filters to light clients
//! (`ckb_sync::BlockFilter`, sync/src/filter/).
//!
//! A real node goes through the reorg histories of C19 with the BlockFilter *service*
//! (ckb-block-filter) started at a generated point and lagging at generated moments.  Generated
//! requests (GetBlockFilters, GetBlockFilterHashes, GetBlockFilterCheckPoints, the three reply kinds
//! sent as requests, mangled and raw bytes) are delivered to the real protocol handler through
//! `CKBProtocolHandler::received` with a recording protocol context
//!   * after every delivery (the builder may lag: nothing is waited for),
//!   * right after every delivery that detached a block,
//!   * after every burst, once the builder caught up.
//! Every reply is judged against the reference model and the harness's own filter-hash chain:
//!   * it is of the kind that answers the request and names the start number asked for,
//!   * `block_hashes` are the MAIN-chain blocks start, start+1, .. in order (never a detached block),
//!   * every filter is byte-identical to the stored one and matches (own GCS decoding) the hash of every
//!     lock / type script of the model block's outputs and spent inputs,
//!   * filter hashes are blake2b(parent filter hash ‖ blake2b(filter)) chained from the zero hash along
//!     the main chain; `parent_block_filter_hash` is the parent's; check points are the chained hashes
//!     at start, start + 2000, ..,
//!   * the number of items is what was built for the main chain from the start number at the time of
//!     the request (bounded below / above by what was stored before / after it), capped by the
//!     documented batch size,
//!   * a start number above the latest built filter is not answered, a start number at or below the
//!     latest built filter the handler can see is; no input makes the handler panic; malformed input is
//!     never answered.
use crate::checks::c01::variant_cfg;
use crate::checks::c19;
use crate::common::*;
use crate::model::*;
use crate::node::*;
use crate::plan::*;
use crate::vfail;
use ckb_network::{
    Behaviour, CKBProtocolContext, CKBProtocolHandler, Error as NetError, Peer, PeerIndex, ProtocolId, SupportProtocols,
    TargetSession, async_trait, bytes::Bytes as NBytes,
};
use ckb_store::ChainStore;
use ckb_sync::{BlockFilter as FilterProtocol, SyncShared};
use ckb_types::{packed, prelude::*};
use proptest::prelude::*;
use serde::{Deserialize, Serialize};
use serde_json::json;
use std::collections::{BTreeMap, BTreeSet};
use std::future::Future;
use std::pin::Pin;
use std::sync::{Arc, Mutex};
use std::time::Duration;

/// documented constants of sync/src/filter/*_process.rs
pub const FILTERS_BATCH: u64 = 1000;
pub const HASHES_BATCH: u64 = 2000;
pub const CHECK_POINTS_BATCH: u64 = 2000;
pub const CHECK_POINT_INTERVAL: u64 = 2000;

// ------------------------------------------------------------------------------------------------
// case

#[derive(Clone, Copy, Debug, Serialize, Deserialize, PartialEq, Eq)]
pub enum Kind {
    Filters,
    Hashes,
    CheckPoints,
}

impl Kind {
    fn name(self) -> &'static str {
        match self {
            Kind::Filters => "GetBlockFilters",
            Kind::Hashes => "GetBlockFilterHashes",
            Kind::CheckPoints => "GetBlockFilterCheckPoints",
        }
    }
    fn request_item(self) -> u32 {
        match self {
            Kind::Filters => 0,
            Kind::Hashes => 2,
            Kind::CheckPoints => 4,
        }
    }
    fn batch(self) -> u64 {
        match self {
            Kind::Filters => FILTERS_BATCH,
            Kind::Hashes => HASHES_BATCH,
            Kind::CheckPoints => CHECK_POINTS_BATCH,
        }
    }
    fn step(self) -> u64 {
        match self {
            Kind::CheckPoints => CHECK_POINT_INTERVAL,
            _ => 1,
        }
    }
}

#[derive(Clone, Debug, Serialize, Deserialize)]
pub enum Start {
    Zero,
    One,
    /// selector over 0..=tip
    Rel(u16),
    /// tip + d (clamped at 0)
    Tip(i8),
    /// fork point of the latest reorg + d (tip / 2 when there was none)
    Fork(i8),
    /// number of the block whose filter was built last + d
    Built(i8),
    /// tip + 3 + k
    Beyond(u16),
    Far(u64),
    /// u64::MAX - k
    Max(u16),
}

#[derive(Clone, Debug, Serialize, Deserialize)]
pub enum Req {
    Get(Kind, Start),
    Raw(Vec<u8>),
    /// a reply kind sent as a request, with this many items
    Reply(Kind, Start, u8),
    /// a well-formed request damaged: 0 last byte cut, 1 a byte appended, 2 unknown union item,
    /// 3 union header only
    Mangled(Kind, Start, u8),
}

#[derive(Clone, Debug, Serialize, Deserialize)]
pub struct Case {
    pub variant: u8,
    pub plan: TreePlan,
    /// as in C19's history family: when the filter service is started
    pub filter_start: u16,
    /// number of deliveries between two waits for the filter builder (cycled)
    pub filter_waits: Vec<u8>,
    /// requests delivered after delivery i without waiting for the builder: rounds[i % len]
    pub rounds: Vec<Vec<Req>>,
    /// requests delivered additionally right after every delivery that detached a block
    pub after_reorg: Vec<Req>,
    /// requests delivered after every wait for the builder
    pub caught_up: Vec<Req>,
    /// > 0: the plan is replaced by a linear chain of this many empty blocks (reaches the batch
    /// sizes and the check point interval)
    #[serde(default)]
    pub linear: u16,
}

fn kind_strategy() -> impl Strategy<Value = Kind> {
    prop_oneof![4 => Just(Kind::Filters), 4 => Just(Kind::Hashes), 2 => Just(Kind::CheckPoints)]
}

fn start_strategy() -> impl Strategy<Value = Start> {
    prop_oneof![
        3 => Just(Start::Zero),
        2 => Just(Start::One),
        8 => any::<u16>().prop_map(Start::Rel),
        5 => (-2i8..=2).prop_map(Start::Tip),
        6 => (-3i8..=3).prop_map(Start::Fork),
        4 => (-2i8..=2).prop_map(Start::Built),
        1 => (0u16..2000).prop_map(Start::Beyond),
        1 => any::<u64>().prop_map(Start::Far),
        2 => prop_oneof![Just(0u16), Just(1u16), Just(999u16), Just(1000u16), Just(1999u16), Just(2000u16), any::<u16>()].prop_map(Start::Max),
    ]
}

fn req_strategy() -> impl Strategy<Value = Req> {
    prop_oneof![
        24 => (kind_strategy(), start_strategy()).prop_map(|(k, s)| Req::Get(k, s)),
        1 => proptest::collection::vec(any::<u8>(), 0..24).prop_map(Req::Raw),
        // a union header naming an existing item followed by arbitrary bytes
        1 => (0u8..8, proptest::collection::vec(any::<u8>(), 0..16)).prop_map(|(item, mut rest)| {
            let mut v = vec![item, 0, 0, 0];
            v.append(&mut rest);
            Req::Raw(v)
        }),
        1 => (kind_strategy(), start_strategy(), 0u8..4).prop_map(|(k, s, n)| Req::Reply(k, s, n)),
        1 => (kind_strategy(), start_strategy(), 0u8..4).prop_map(|(k, s, m)| Req::Mangled(k, s, m)),
    ]
}

pub fn case_strategy(max_blocks: usize) -> impl Strategy<Value = Case> {
    (
        prop_oneof![1 => c19::case_strategy(max_blocks).boxed(), 1 => c19::directed_strategy().boxed()],
        proptest::collection::vec(proptest::collection::vec(req_strategy(), 0..4), 1..6),
        proptest::collection::vec(req_strategy(), 1..5),
        proptest::collection::vec(req_strategy(), 1..5),
    )
        .prop_map(|(c, rounds, after_reorg, caught_up)| Case {
            variant: c.variant,
            plan: c.plan,
            filter_start: c.filter_start,
            filter_waits: c.filter_waits,
            rounds,
            after_reorg,
            caught_up,
            linear: 0,
        })
}

/// One fixed long case per run (worker 0): a linear chain longer than two check point intervals,
/// the service started four deliveries before the end and waited for after each of them; the requests
/// sit at the batch and interval boundaries.
pub fn long_case(blocks: u16) -> Case {
    let g = |k, s| Req::Get(k, s);
    let n = blocks as u64;
    let far = |x: u64| Start::Far(x);
    Case {
        variant: 2,
        plan: TreePlan { steps: vec![] },
        filter_start: 0xfffe,
        filter_waits: vec![1],
        rounds: vec![vec![]],
        after_reorg: vec![],
        caught_up: vec![
            g(Kind::Filters, Start::Zero),
            g(Kind::Filters, far(1)),
            g(Kind::Filters, far(n.saturating_sub(1001))),
            g(Kind::Filters, far(n.saturating_sub(1000))),
            g(Kind::Filters, far(n.saturating_sub(999))),
            g(Kind::Hashes, Start::Zero),
            g(Kind::Hashes, far(1)),
            g(Kind::Hashes, far(n.saturating_sub(2001))),
            g(Kind::Hashes, far(n.saturating_sub(2000))),
            g(Kind::Hashes, far(n.saturating_sub(1999))),
            g(Kind::CheckPoints, Start::Zero),
            g(Kind::CheckPoints, far(1)),
            g(Kind::CheckPoints, far(n.saturating_sub(4001))),
            g(Kind::CheckPoints, far(n.saturating_sub(4000))),
            g(Kind::CheckPoints, far(n.saturating_sub(3999))),
            g(Kind::CheckPoints, far(n.saturating_sub(2000))),
            g(Kind::CheckPoints, far(n.saturating_sub(1999))),
            g(Kind::CheckPoints, Start::Tip(-1)),
        ],
        linear: blocks,
    }
}

fn linear_plan(blocks: u16) -> TreePlan {
    TreePlan {
        steps: (0..blocks as usize)
            .map(|i| BlockStep {
                parent_mode: 0,
                parent: 0,
                ts: 1,
                uncles: 0,
                uncle_sel: 0,
                new_txs: vec![],
                repropose: 0,
                repropose_sel: 0,
                commit_mask: 0xffff,
                miner: (i % 4) as u8,
                ext_extra: 0,
                invalid: 0,
            })
            .collect(),
    }
}

// ------------------------------------------------------------------------------------------------
// recording protocol context (protocol id of the Filter protocol)

#[derive(Default)]
struct Rec {
    sent: Vec<NBytes>,
    bans: Vec<String>,
}

struct Net {
    log: Mutex<Rec>,
}

type Task = Pin<Box<dyn Future<Output = ()> + 'static + Send>>;

impl Net {
    fn msg(&self, data: NBytes) -> Result<(), NetError> {
        self.log.lock().unwrap().sent.push(data);
        Ok(())
    }
}

#[async_trait]
impl CKBProtocolContext for Net {
    async fn set_notify(&self, _interval: Duration, _token: u64) -> Result<(), NetError> {
        Ok(())
    }
    async fn remove_notify(&self, _token: u64) -> Result<(), NetError> {
        Ok(())
    }
    async fn async_quick_send_message(&self, _p: ProtocolId, _peer: PeerIndex, data: NBytes) -> Result<(), NetError> {
        self.msg(data)
    }
    async fn async_quick_send_message_to(&self, _peer: PeerIndex, data: NBytes) -> Result<(), NetError> {
        self.msg(data)
    }
    async fn async_quick_filter_broadcast(&self, _t: TargetSession, data: NBytes) -> Result<(), NetError> {
        self.msg(data)
    }
    async fn async_future_task(&self, _task: Task, _blocking: bool) -> Result<(), NetError> {
        Ok(())
    }
    async fn async_send_message(&self, _p: ProtocolId, _peer: PeerIndex, data: NBytes) -> Result<(), NetError> {
        self.msg(data)
    }
    async fn async_send_message_to(&self, _peer: PeerIndex, data: NBytes) -> Result<(), NetError> {
        self.msg(data)
    }
    async fn async_filter_broadcast(&self, _t: TargetSession, data: NBytes) -> Result<(), NetError> {
        self.msg(data)
    }
    async fn async_filter_broadcast_with_proto(&self, _p: ProtocolId, _t: TargetSession, data: NBytes) -> Result<(), NetError> {
        self.msg(data)
    }
    async fn async_quick_filter_broadcast_with_proto(&self, _p: ProtocolId, _t: TargetSession, data: NBytes) -> Result<(), NetError> {
        self.msg(data)
    }
    async fn async_disconnect(&self, _peer: PeerIndex, _message: &str) -> Result<(), NetError> {
        Ok(())
    }
    fn quick_send_message(&self, _p: ProtocolId, _peer: PeerIndex, data: NBytes) -> Result<(), NetError> {
        self.msg(data)
    }
    fn quick_send_message_to(&self, _peer: PeerIndex, data: NBytes) -> Result<(), NetError> {
        self.msg(data)
    }
    fn quick_filter_broadcast(&self, _t: TargetSession, data: NBytes) -> Result<(), NetError> {
        self.msg(data)
    }
    fn quick_filter_broadcast_with_proto(&self, _p: ProtocolId, _t: TargetSession, data: NBytes) -> Result<(), NetError> {
        self.msg(data)
    }
    fn future_task(&self, _task: Task, _blocking: bool) -> Result<(), NetError> {
        Ok(())
    }
    fn send_message(&self, _p: ProtocolId, _peer: PeerIndex, data: NBytes) -> Result<(), NetError> {
        self.msg(data)
    }
    fn send_message_to(&self, _peer: PeerIndex, data: NBytes) -> Result<(), NetError> {
        self.msg(data)
    }
    fn filter_broadcast(&self, _t: TargetSession, data: NBytes) -> Result<(), NetError> {
        self.msg(data)
    }
    fn disconnect(&self, _peer: PeerIndex, _message: &str) -> Result<(), NetError> {
        Ok(())
    }
    fn get_peer(&self, _peer: PeerIndex) -> Option<Peer> {
        None
    }
    fn with_peer_mut(&self, _peer: PeerIndex, _f: Box<dyn FnOnce(&mut Peer)>) {}
    fn connected_peers(&self) -> Vec<PeerIndex> {
        vec![]
    }
    fn full_relay_connected_peers(&self) -> Vec<PeerIndex> {
        vec![]
    }
    fn report_peer(&self, _peer: PeerIndex, _behaviour: Behaviour) {}
    fn ban_peer(&self, _peer: PeerIndex, _duration: Duration, reason: String) {
        self.log.lock().unwrap().bans.push(reason);
    }
    fn protocol_id(&self) -> ProtocolId {
        SupportProtocols::Filter.protocol_id()
    }
}

struct Outcome {
    replies: Vec<NBytes>,
    bans: Vec<String>,
    panic: Option<(String, String)>,
}

struct Driver {
    protocol: FilterProtocol,
    net: Arc<Net>,
    rt: tokio::runtime::Runtime,
}

impl Driver {
    fn new(node: &Node) -> Driver {
        // the relay-transaction channel of SyncShared is not used by the filter protocol
        let (_tx, rx) = ckb_channel::bounded(1);
        let sync_shared = Arc::new(SyncShared::new(node.shared.clone(), Default::default(), rx));
        Driver {
            protocol: FilterProtocol::new(sync_shared),
            net: Arc::new(Net { log: Mutex::new(Rec::default()) }),
            rt: tokio::runtime::Builder::new_current_thread().enable_time().build().expect("runtime"),
        }
    }
    fn deliver(&mut self, data: NBytes) -> Outcome {
        *self.net.log.lock().unwrap() = Rec::default();
        let before = all_panics().len();
        let nc: Arc<dyn CKBProtocolContext + Sync> = self.net.clone();
        let protocol = &mut self.protocol;
        let rt = &self.rt;
        let r = std::panic::catch_unwind(std::panic::AssertUnwindSafe(|| {
            rt.block_on(protocol.received(nc, PeerIndex::new(7), data));
        }));
        let panic = match r {
            Ok(()) => None,
            Err(_) => {
                let ps = all_panics();
                Some(ps.get(before).map(|p| (p.location.clone(), p.message.clone())).unwrap_or_default())
            }
        };
        let mut g = match self.net.log.lock() {
            Ok(g) => g,
            Err(p) => p.into_inner(),
        };
        Outcome {
            replies: std::mem::take(&mut g.sent),
            bans: std::mem::take(&mut g.bans),
            panic,
        }
    }
}

// ------------------------------------------------------------------------------------------------
// world = what the model knows about the node at the moment of a request

struct World<'a> {
    tree: &'a Tree,
    main: Vec<&'a MBlock>,
    main_idx: BTreeMap<[u8; 32], u64>,
    ever_main: BTreeSet<[u8; 32]>,
    /// tip of the branch abandoned by the latest reorg, number of the common ancestor
    abandoned: Option<(H, u64)>,
    reorgs: u64,
    /// blocks whose stored filter passed the element oracle (a filter is keyed by block hash and
    /// never rewritten) / blocks detached while the service ran before that: see c19::filter_oracle
    confirmed: BTreeSet<[u8; 32]>,
    detached_unconfirmed: BTreeSet<[u8; 32]>,
}

impl<'a> World<'a> {
    fn set_main(&mut self, tip: &H) {
        self.main = self.tree.path(tip);
        self.main_idx = self.main.iter().map(|b| (h32(&b.hash), b.number)).collect();
        for b in &self.main {
            self.ever_main.insert(h32(&b.hash));
        }
    }
    fn tip_n(&self) -> u64 {
        self.main.len() as u64 - 1
    }
    fn on_main(&self, h: &H) -> Option<u64> {
        self.main_idx.get(&h32(h)).copied()
    }
    /// number of a block the node names by hash (None when the model does not know it)
    fn number_of(&self, h: &H) -> Option<u64> {
        self.tree.blocks.get(h).map(|b| b.number)
    }
}

#[derive(Clone, Debug)]
enum Concrete {
    Get(Kind, u64),
    /// (bytes, what)
    Other(Vec<u8>, &'static str),
}

fn encode_get(kind: Kind, start: u64) -> Vec<u8> {
    let u: packed::BlockFilterMessageUnion = match kind {
        Kind::Filters => packed::GetBlockFilters::new_builder().start_number(start).build().into(),
        Kind::Hashes => packed::GetBlockFilterHashes::new_builder().start_number(start).build().into(),
        Kind::CheckPoints => packed::GetBlockFilterCheckPoints::new_builder().start_number(start).build().into(),
    };
    packed::BlockFilterMessage::new_builder().set(u).build().as_bytes().to_vec()
}

impl Concrete {
    fn encode(&self) -> NBytes {
        match self {
            Concrete::Get(k, s) => NBytes::from(encode_get(*k, *s)),
            Concrete::Other(b, _) => NBytes::from(b.clone()),
        }
    }
}

fn add_i(base: u64, d: i8) -> u64 {
    if d >= 0 { base.saturating_add(d as u64) } else { base.saturating_sub((-(d as i64)) as u64) }
}

fn resolve_start(w: &World, s: &Start, built: Option<u64>) -> u64 {
    let tip = w.tip_n();
    match s {
        Start::Zero => 0,
        Start::One => 1,
        Start::Rel(x) => pick_idx(*x as u32, tip as usize + 1) as u64,
        Start::Tip(d) => add_i(tip, *d),
        Start::Fork(d) => add_i(w.abandoned.as_ref().map(|a| a.1).unwrap_or(tip / 2), *d),
        Start::Built(d) => add_i(built.unwrap_or(0), *d),
        Start::Beyond(k) => tip + 3 + *k as u64,
        Start::Far(x) => *x,
        Start::Max(k) => u64::MAX - *k as u64,
    }
}

fn start_class(w: &World, start: u64) -> &'static str {
    let tip = w.tip_n();
    if start == 0 {
        "0"
    } else if start == 1 {
        "1"
    } else if start < tip {
        "inside"
    } else if start == tip {
        "tip"
    } else if start == tip + 1 {
        "tip+1"
    } else if start < u64::MAX - 70000 {
        "beyond"
    } else {
        "near-u64-max"
    }
}

fn make_concrete(w: &World, req: &Req, built: Option<u64>) -> Concrete {
    match req {
        Req::Get(k, s) => Concrete::Get(*k, resolve_start(w, s, built)),
        Req::Raw(b) => classify_raw(b.clone(), "raw"),
        Req::Reply(k, s, n) => {
            let start = resolve_start(w, s, built);
            let hs: Vec<packed::Byte32> = (0..*n as u64)
                .map(|i| w.main[(start.min(w.tip_n()).saturating_add(i)).min(w.tip_n()) as usize].hash.clone())
                .collect();
            let u: packed::BlockFilterMessageUnion = match k {
                Kind::Filters => packed::BlockFilters::new_builder()
                    .start_number(start)
                    .block_hashes(hs.clone())
                    .filters(packed::BytesVec::new_builder().set(hs.iter().map(|h| h.as_bytes().pack()).collect::<Vec<packed::Bytes>>()).build())
                    .build()
                    .into(),
                Kind::Hashes => packed::BlockFilterHashes::new_builder().start_number(start).block_filter_hashes(hs).build().into(),
                Kind::CheckPoints => packed::BlockFilterCheckPoints::new_builder().start_number(start).block_filter_hashes(hs).build().into(),
            };
            Concrete::Other(packed::BlockFilterMessage::new_builder().set(u).build().as_bytes().to_vec(), "reply-kind")
        }
        Req::Mangled(k, s, m) => {
            let mut b = encode_get(*k, resolve_start(w, s, built));
            match m % 4 {
                0 => {
                    b.pop();
                }
                1 => b.push(0),
                2 => b[0] = 6 + (m / 4),
                _ => b.truncate(4),
            }
            classify_raw(b, "mangled")
        }
    }
}

/// bytes that happen to be a well-formed request are judged as that request
fn classify_raw(b: Vec<u8>, what: &'static str) -> Concrete {
    if b.len() == 12 {
        let item = u32::from_le_bytes([b[0], b[1], b[2], b[3]]);
        let start = u64::from_le_bytes([b[4], b[5], b[6], b[7], b[8], b[9], b[10], b[11]]);
        match item {
            0 => return Concrete::Get(Kind::Filters, start),
            2 => return Concrete::Get(Kind::Hashes, start),
            4 => return Concrete::Get(Kind::CheckPoints, start),
            _ => {}
        }
    }
    Concrete::Other(b, what)
}

// ------------------------------------------------------------------------------------------------
// oracle

/// the harness's filter-hash chain: fh[n] for the main-chain blocks 0..k whose filter data is stored
/// (stops at the first block without one)
fn chain_filter_hashes(node: &Node, w: &World) -> Vec<[u8; 32]> {
    let store = node.shared.store();
    let mut out = Vec::with_capacity(w.main.len());
    let mut parent = [0u8; 32];
    for b in &w.main {
        match store.get_block_filter(&b.hash) {
            Some(d) => {
                let fh = c19::b256(&[&parent, &c19::b256(&[&d.raw_data()])]);
                out.push(fh);
                parent = fh;
            }
            None => break,
        }
    }
    out
}

/// how many of the main-chain blocks start, start+step, .. (at most `cap`) have a stored filter
/// (`hashes`: a stored filter hash)
fn available(node: &Node, w: &World, start: u64, step: u64, cap: u64, hashes: bool) -> u64 {
    let store = node.shared.store();
    let mut n = 0u64;
    let mut at = start;
    while n < cap {
        let b = match w.main.get(at as usize) {
            Some(b) if at <= w.tip_n() => b,
            _ => break,
        };
        let has = if hashes { store.get_block_filter_hash(&b.hash).is_some() } else { store.get_block_filter(&b.hash).is_some() };
        if !has {
            break;
        }
        n += 1;
        at = match at.checked_add(step) {
            Some(x) => x,
            None => break,
        };
    }
    n
}

/// what the node's stores say about the builder before a request is delivered
struct Before {
    /// number of the latest built block as the handler can see it (the snapshot of the chain state)
    visible: Option<u64>,
    /// the same through the live store
    live: Option<u64>,
    /// `visible` when that block is on the main chain
    visible_on_main: Option<u64>,
    available: u64,
    parent_has_hash: bool,
}

fn latest_number(w: &World, h: Option<packed::Byte32>) -> Result<Option<u64>, Violation> {
    match h {
        None => Ok(None),
        Some(h) => match w.number_of(&h) {
            Some(n) => Ok(Some(n)),
            None => Err(Violation::new(
                "fp:latest-built-filter-block-unknown-to-the-model",
                format!("the store names {h:#x} as the block whose filter was built last; no block of the history has that hash"),
            )),
        },
    }
}

struct Served {
    /// numbers of the main-chain blocks the reply speaks about
    numbers: Vec<u64>,
}

fn item_of(data: &[u8]) -> Option<u32> {
    if data.len() < 4 { None } else { Some(u32::from_le_bytes([data[0], data[1], data[2], data[3]])) }
}

fn wrong_hash_sig(w: &World, h: &H) -> &'static str {
    if w.on_main(h).is_some() {
        "another-main-chain-block"
    } else if w.ever_main.contains(&h32(h)) {
        "a-detached-block"
    } else if w.tree.blocks.contains_key(h) {
        "a-side-block"
    } else {
        "an-unknown-hash"
    }
}

#[allow(clippy::too_many_arguments)]
fn judge_reply(node: &Node, w: &mut World, kind: Kind, start: u64, data: &[u8], before: &Before, st: &mut Stats) -> Result<Served, Violation> {
    let msg = kind.name();
    let store = node.shared.store();
    let want_item = kind.request_item() + 1;
    let item = item_of(data);
    if item != Some(want_item) {
        vfail!(format!("fp:reply-kind-wrong:{msg}"), "{msg} answered with union item {item:?} ({} bytes)", data.len());
    }
    let body = &data[4..];
    let tip = w.tip_n();
    // what is stored now: an upper bound of what the handler saw
    let after_avail = available(node, w, start, kind.step(), kind.batch(), kind != Kind::Filters);
    let fhs = chain_filter_hashes(node, w);
    let (got_start, n_items, numbers): (u64, u64, Vec<u64>) = match kind {
        Kind::Filters => {
            let m = packed::BlockFilters::from_slice(body).map_err(|e| Violation::new(format!("fp:reply-undecodable:{msg}"), format!("{e}")))?;
            let hashes: Vec<H> = m.block_hashes().into_iter().collect();
            let filters: Vec<packed::Bytes> = m.filters().into_iter().collect();
            if hashes.len() != filters.len() {
                vfail!("fp:filters:hashes-and-filters-differ-in-number", "{msg}({start}): {} block hashes, {} filters", hashes.len(), filters.len());
            }
            let mut numbers = vec![];
            for (i, (h, f)) in hashes.iter().zip(filters.iter()).enumerate() {
                let n = start.checked_add(i as u64).filter(|n| *n <= tip);
                let b = match n.and_then(|n| w.main.get(n as usize)) {
                    Some(b) => *b,
                    None => vfail!(
                        format!("fp:filters:block-above-the-tip:{}", wrong_hash_sig(w, h)),
                        "{msg}({start}): item {i} stands for block #{:?}, the tip is #{tip}; the hash is {h:#x}",
                        start.checked_add(i as u64)
                    ),
                };
                if b.hash != *h {
                    vfail!(
                        format!("fp:filters:block-hash-is-not-the-main-chain-block:{}", wrong_hash_sig(w, h)),
                        "{msg}({start}): item {i} names {h:#x} ({}), the main chain's block #{} is {:#x} (tip #{tip})",
                        wrong_hash_sig(w, h),
                        b.number,
                        b.hash
                    );
                }
                match store.get_block_filter(h) {
                    Some(d) if d.as_slice() == f.as_slice() => {}
                    Some(d) => vfail!(
                        "fp:filters:filter-differs-from-the-stored-filter",
                        "{msg}({start}): filter of block #{} is {} bytes, the stored one {} bytes, and they differ",
                        b.number,
                        f.raw_data().len(),
                        d.raw_data().len()
                    ),
                    None => vfail!("fp:filters:filter-served-for-a-block-without-stored-filter", "{msg}({start}): block #{} has no stored filter", b.number),
                }
                if !w.confirmed.contains(&h32(h)) {
                    let raw = f.raw_data();
                    let want = c19::expected_filter_elements(w.tree, b).map_err(|e| Violation::new("harness:model-resolution", e))?;
                    for (what, e) in &want {
                        if !c19::gcs_matches(&raw, e) {
                            let k1 = if what.contains("spent input") { "spent-input" } else { "output" };
                            let k2 = if what.ends_with("type") { "type" } else { "lock" };
                            let trigger = if w.detached_unconfirmed.contains(&h32(h)) {
                                "block-was-detached-before-its-filter-was-seen"
                            } else {
                                "block-on-main-chain-since-the-service-saw-it"
                            };
                            // the same signature as the history families (one defect, one entry)
                            vfail!(
                                format!("filter:{k1}-{k2}-script-not-matched:{trigger}"),
                                "{msg}({start}): served filter of main-chain block #{} {:#x} ({} bytes; {trigger}) does not match the script hash {} of {what}",
                                b.number,
                                b.hash,
                                raw.len(),
                                hex(e)
                            );
                        }
                    }
                    st.label_n("fp:oracle:filter-elements-matched", want.len() as u64);
                    w.confirmed.insert(h32(h));
                }
                numbers.push(b.number);
            }
            (m.start_number().into(), hashes.len() as u64, numbers)
        }
        Kind::Hashes | Kind::CheckPoints => {
            let (got_start, parent, hashes): (u64, Option<H>, Vec<H>) = if kind == Kind::Hashes {
                let m = packed::BlockFilterHashes::from_slice(body).map_err(|e| Violation::new(format!("fp:reply-undecodable:{msg}"), format!("{e}")))?;
                (m.start_number().into(), Some(m.parent_block_filter_hash()), m.block_filter_hashes().into_iter().collect())
            } else {
                let m = packed::BlockFilterCheckPoints::from_slice(body).map_err(|e| Violation::new(format!("fp:reply-undecodable:{msg}"), format!("{e}")))?;
                (m.start_number().into(), None, m.block_filter_hashes().into_iter().collect())
            };
            let tag = if kind == Kind::Hashes { "hashes" } else { "check-points" };
            if let Some(p) = parent {
                let want = if start == 0 {
                    Some([0u8; 32])
                } else {
                    fhs.get(start as usize - 1).copied()
                };
                match want {
                    Some(x) if x == h32(&p) => {}
                    other => vfail!(
                        format!("fp:hashes:parent-block-filter-hash-wrong:{}", if start == 0 { "start=0" } else { "start>0" }),
                        "{msg}({start}): parent_block_filter_hash {p:#x}, the chained filter hash of main-chain block #{} is {:?}",
                        start.wrapping_sub(1),
                        other.map(|x| hex(&x))
                    ),
                }
            }
            let mut numbers = vec![];
            for (j, h) in hashes.iter().enumerate() {
                let n = (j as u64).checked_mul(kind.step()).and_then(|d| start.checked_add(d));
                let want = n.and_then(|n| fhs.get(n as usize));
                match want {
                    Some(x) if *x == h32(h) => numbers.push(n.unwrap()),
                    Some(x) => {
                        // which block's hash is it, if any?
                        let whose = fhs.iter().position(|y| *y == h32(h));
                        let stored_there = w.main.get(n.unwrap() as usize).and_then(|b| store.get_block_filter_hash(&b.hash));
                        vfail!(
                            format!(
                                "fp:{tag}:filter-hash-is-not-the-chained-hash-of-the-main-chain-block:{}",
                                match whose {
                                    Some(_) => "it-is-another-main-chain-block's",
                                    None if stored_there.as_ref().map(|s| s == h).unwrap_or(false) => "it-is-what-the-node-stores",
                                    None => "it-is-nothing-known",
                                }
                            ),
                            "{msg}({start}): item {j} stands for main-chain block #{}: served {h:#x}, blake2b(parent filter hash ‖ blake2b(filter)) chained from the zero hash gives {} (the served value is the chained hash of main-chain block {whose:?})",
                            n.unwrap(),
                            hex(x)
                        )
                    }
                    None => vfail!(
                        format!("fp:{tag}:filter-hash-for-a-block-without-built-filter"),
                        "{msg}({start}): item {j} stands for block #{n:?}; the main chain (tip #{tip}) has built filters for blocks 0..{}",
                        fhs.len()
                    ),
                }
            }
            st.label_n("fp:oracle:filter-hashes-compared-with-own-chain", hashes.len() as u64);
            (got_start, hashes.len() as u64, numbers)
        }
    };
    if got_start != start {
        vfail!(format!("fp:reply-names-another-start-number:{msg}"), "{msg}({start}) answered with start_number {got_start}");
    }
    if n_items > kind.batch() {
        vfail!(format!("fp:batch-larger-than-documented:{msg}"), "{msg}({start}): {n_items} items, the batch size is {}", kind.batch());
    }
    // completeness: everything that was built before the request, nothing that is not built now
    if n_items < before.available || n_items > after_avail {
        vfail!(
            format!("fp:batch-is-not-what-was-built:{msg}:{}", if n_items < before.available { "shorter" } else { "longer" }),
            "{msg}({start}): {n_items} items; from #{start} in steps of {} the main chain (tip #{tip}) had {} built blocks before the request and {} after it (batch size {})",
            kind.step(),
            before.available,
            after_avail,
            kind.batch()
        );
    }
    Ok(Served { numbers })
}

struct ReqFacts {
    served: Option<Served>,
    start: u64,
}

fn judge(node: &Node, w: &mut World, c: &Concrete, drv: &mut Driver, st: &mut Stats) -> Result<ReqFacts, Violation> {
    let store = node.shared.store();
    match c {
        Concrete::Other(b, what) => {
            let out = drv.deliver(c.encode());
            if let Some((loc, m)) = &out.panic {
                vfail!(format!("fp:panic:{what}@{loc}"), "BlockFilter::received panicked on {what} bytes {} at {loc}: {m}", hex(b));
            }
            if !out.replies.is_empty() {
                vfail!(format!("fp:not-a-request-answered:{what}"), "{what} bytes {} got {} replies", hex(b), out.replies.len());
            }
            let well_formed = packed::BlockFilterMessageReader::from_compatible_slice(b).is_ok();
            if !well_formed && out.bans.is_empty() {
                vfail!(format!("fp:malformed-message-not-banned:{what}"), "malformed bytes {} were neither answered nor banned", hex(b));
            }
            st.label(&format!("fp:{what}:{}", if out.bans.is_empty() { "ignored" } else { "banned" }));
            Ok(ReqFacts { served: None, start: 0 })
        }
        Concrete::Get(kind, start) => {
            let (kind, start) = (*kind, *start);
            let msg = kind.name();
            let cls = start_class(w, start);
            st.label(&format!("fp:req:{msg}:start={cls}"));
            let vis_hash = node.shared.snapshot().get_latest_built_filter_data_block_hash();
            let before = Before {
                visible_on_main: vis_hash.as_ref().and_then(|h| w.on_main(h)),
                visible: latest_number(w, vis_hash)?,
                live: latest_number(w, store.get_latest_built_filter_data_block_hash())?,
                available: available(node, w, start, kind.step(), kind.batch(), kind != Kind::Filters),
                parent_has_hash: start == 0
                    || w.main.get((start - 1) as usize).filter(|_| start - 1 <= w.tip_n()).map(|b| store.get_block_filter_hash(&b.hash).is_some()).unwrap_or(false),
            };
            let out = drv.deliver(c.encode());
            if let Some((loc, m)) = &out.panic {
                vfail!(format!("fp:panic:{msg}:start={cls}@{loc}"), "BlockFilter::received panicked on {msg}({start}) at {loc}: {m}");
            }
            if out.replies.len() > 1 {
                vfail!(format!("fp:more-than-one-reply:{msg}"), "{} replies to one {msg}", out.replies.len());
            }
            if !out.bans.is_empty() {
                vfail!(format!("fp:well-formed-request-banned:{msg}"), "{msg}({start}): banned: {:?}", out.bans);
            }
            let live_after = latest_number(w, store.get_latest_built_filter_data_block_hash())?;
            // "nothing built yet" counts as block 0 (get_latest_built_filter_block_number)
            let hi = before.visible.unwrap_or(0).max(before.live.unwrap_or(0)).max(live_after.unwrap_or(0));
            match out.replies.first() {
                None => {
                    // a reply is owed when the start number is at or below the latest built filter as the
                    // handler can see it; while that marker names a block that has been detached since
                    // (`get_block_number` knows main-chain blocks only: the handler then takes 0) only
                    // start 0 is owed
                    let owed = start <= before.visible_on_main.unwrap_or(0) && (kind != Kind::Hashes || before.parent_has_hash);
                    if !owed && start <= before.visible.unwrap_or(0) && (kind != Kind::Hashes || before.parent_has_hash) {
                        st.label(&format!("fp:not-answered-while-the-latest-built-marker-names-a-detached-block:{msg}"));
                    }
                    if owed {
                        vfail!(
                            format!("fp:request-at-or-below-the-latest-built-filter-not-answered:{msg}"),
                            "{msg}({start}) got no reply; the latest built filter the handler sees is block #{:?} (live store: #{:?}), tip #{}",
                            before.visible,
                            before.live,
                            w.tip_n()
                        );
                    }
                    // observation (liveness, not this property's subject): the filter is built, but the
                    // marker the handler reads is the snapshot's (as old as the latest tip change)
                    if start <= before.live.unwrap_or(0) && start <= w.tip_n() && before.available > 0 {
                        st.label(&format!("fp:not-answered-although-built-in-the-live-store:{msg}:start={cls}"));
                    }
                    st.label(&format!("fp:not-answered:{msg}:start={cls}"));
                    Ok(ReqFacts { served: None, start })
                }
                Some(data) => {
                    if start > hi {
                        vfail!(
                            format!("fp:start-above-the-latest-built-filter-answered:{msg}"),
                            "{msg}({start}) was answered ({} bytes); the latest built filter is block #{:?} (handler's view #{:?}), tip #{}",
                            data.len(),
                            live_after,
                            before.visible,
                            w.tip_n()
                        );
                    }
                    let s = judge_reply(node, w, kind, start, data, &before, st)?;
                    st.label(&format!("fp:served:{msg}:{}", if s.numbers.is_empty() { "empty" } else { "items" }));
                    st.label_n(&format!("fp:served-items:{msg}"), s.numbers.len() as u64);
                    if s.numbers.len() as u64 == kind.batch() {
                        st.label(&format!("fp:served:{msg}:full-batch"));
                    }
                    if kind == Kind::CheckPoints && s.numbers.len() > 1 {
                        st.label("fp:served:check-points-beyond-the-first");
                    }
                    Ok(ReqFacts { served: Some(s), start })
                }
            }
        }
    }
}

// ------------------------------------------------------------------------------------------------
// property

pub fn prop(case: &Case, st: &mut Stats) -> Verdict {
    let cfg = variant_cfg(case.variant);
    let env = build_env(&cfg);
    let lin;
    let plan = if case.linear > 0 {
        lin = linear_plan(case.linear);
        st.label("fp:long-linear-chain");
        &lin
    } else {
        &case.plan
    };
    let built = Interp::new(&env).run(plan);
    if built.blocks.is_empty() {
        return Ok(());
    }
    let tree = &built.tree;
    install_panic_recorder();
    clear_panics();
    let node = Node::start(&env, NodeCfg::default()).map_err(|e| Violation::new("harness:node-start", e))?;
    c19::wait_started(&node)?;
    let mut drv = Driver::new(&node);
    let nblocks = built.blocks.len();
    let reorg_deliveries: Vec<usize> = {
        let mut cur = tree.genesis.clone();
        let mut v = vec![];
        for (i, h) in built.blocks.iter().enumerate() {
            let b = tree.get(h);
            if b.td > tree.get(&cur).td && tree.path(h).iter().all(|x| x.invalid.is_none()) {
                if !tree.is_ancestor(&cur, h) {
                    v.push(i);
                }
                cur = h.clone();
            }
        }
        v
    };
    let start_idx = match case.filter_start {
        0 => 0,
        1 | 2 => match reorg_deliveries.get(case.filter_start as usize - 1) {
            Some(i) => {
                st.label("fp:service-started-right-before-a-reorg");
                *i
            }
            None => pick_idx(case.filter_start as u32 * 20000, nblocks + 1),
        },
        u16::MAX => nblocks,
        // the long chain: a few deliveries before the end, so that the chain snapshot the handler reads
        // the latest-built marker from is refreshed after the builder's first pass
        0xfffe => nblocks.saturating_sub(4),
        s => pick_idx(s as u32, nblocks + 1),
    };
    let mut w = World {
        tree,
        main: vec![],
        main_idx: BTreeMap::new(),
        ever_main: BTreeSet::new(),
        abandoned: None,
        reorgs: 0,
        confirmed: BTreeSet::new(),
        detached_unconfirmed: BTreeSet::new(),
    };
    let mut cur: H = tree.genesis.clone();
    w.set_main(&cur);
    let mut filter_on = false;
    let mut since_wait = 0u8;
    let mut wait_i = 0usize;
    let mut nontrivial = false;
    let mut samples: Vec<serde_json::Value> = vec![];
    let mut judged = 0u64;

    // one round of requests; `phase` names the moment
    let mut round = |reqs: &[Req], phase: &str, i: usize, w: &mut World, drv: &mut Driver, st: &mut Stats, filter_on: bool| -> Verdict {
        for req in reqs {
            let live = node.shared.store().get_latest_built_filter_data_block_hash();
            let built_n = live.as_ref().and_then(|h| w.number_of(h));
            let lagging = filter_on && live.as_ref().map(|h| *h != w.main[w.main.len() - 1].hash).unwrap_or(true);
            let c = make_concrete(w, req, built_n);
            st.label(&format!("fp:phase:{phase}:{}", if !filter_on { "service-not-started" } else if lagging { "builder-behind-the-tip" } else { "builder-at-the-tip" }));
            let f = judge(&node, w, &c, drv, st)?;
            node_panic_violation()?;
            judged += 1;
            if let (Some(s), Some((old_tip, fork))) = (&f.served, &w.abandoned) {
                let old_n = tree.get(old_tip).number;
                // a detached block at or above the requested start, and the reply speaks about a
                // height at which the abandoned branch had a block of its own
                if f.start <= old_n && s.numbers.iter().any(|n| *n > *fork && *n <= old_n) {
                    nontrivial = true;
                    st.label("fp:nontrivial:served-after-a-reorg-detached-a-block-at-or-above-start");
                    if s.numbers.iter().any(|n| *n > *fork) && f.start <= *fork {
                        st.label("fp:nontrivial:served-range-crosses-the-fork-point");
                    }
                    if samples.len() < 2 {
                        samples.push(json!({"after_delivery": i, "phase": phase, "request": format!("{c:?}"), "tip": w.tip_n(), "fork_point": fork,
                            "abandoned_tip": old_n, "served_blocks": s.numbers.iter().take(12).collect::<Vec<_>>(), "served_items": s.numbers.len()}));
                    }
                }
            }
        }
        Ok(())
    };

    for (i, h) in built.blocks.iter().enumerate() {
        let b = tree.get(h);
        if i == start_idx && !filter_on {
            ckb_block_filter::filter::BlockFilter::new(node.shared.clone()).start();
            filter_on = true;
            st.label("fp:service-started-mid-history");
        }
        let parent_chain_valid = tree.path(&b.parent).iter().all(|x| x.invalid.is_none());
        let r = node.process(&b.block);
        node_panic_violation()?;
        if parent_chain_valid && b.invalid.is_none() {
            if let Err(e) = &r {
                vfail!("commit:model-built-block-rejected", "delivery {i}: block #{} {:#x} was rejected: {e}", b.number, b.hash);
            }
        }
        let heavier = b.td > tree.get(&cur).td;
        let new_cur = if heavier && parent_chain_valid && b.invalid.is_none() { h.clone() } else { cur.clone() };
        let tip = node.tip_hash();
        if tip != new_cur {
            vfail!("tip:differs-from-model", "delivery {i} (#{}): node tip {:#x} but the model's tip is {:#x}", b.number, tip, new_cur);
        }
        let mut reorged = false;
        if new_cur != cur {
            let ro = c19::classify(tree, &cur, &new_cur);
            if ro.detached > 0 {
                let fork = tree.get(&cur).number - ro.detached;
                if filter_on {
                    for x in tree.path(&cur).iter().rev().take(ro.detached as usize) {
                        if !w.confirmed.contains(&h32(&x.hash)) {
                            w.detached_unconfirmed.insert(h32(&x.hash));
                        }
                    }
                }
                w.abandoned = Some((cur.clone(), fork));
                w.reorgs += 1;
                reorged = true;
                st.label("fp:reorg:any");
                if tree.get(&new_cur).number < tree.get(&cur).number {
                    st.label("fp:reorg:to-shorter-chain");
                }
            }
            cur = new_cur;
            w.set_main(&cur);
        }
        if case.linear == 0 {
            if reorged {
                round(&case.after_reorg, "right-after-reorg", i, &mut w, &mut drv, st, filter_on)?;
            }
            round(&case.rounds[i % case.rounds.len()], "after-delivery", i, &mut w, &mut drv, st, filter_on)?;
        }
        if filter_on {
            since_wait = since_wait.saturating_add(1);
            let wv = case.filter_waits[wait_i % case.filter_waits.len()];
            if since_wait >= wv {
                since_wait = 0;
                wait_i += 1;
                c19::wait_filters(&node, tree, &cur, st)?;
                c19::filter_oracle(&node, tree, &cur, &format!("after delivery {i}"), &mut w.confirmed, &w.detached_unconfirmed, st)?;
                round(&case.caught_up, "after-catch-up", i, &mut w, &mut drv, st, filter_on)?;
            }
        }
    }
    if !filter_on {
        round(&case.caught_up, "before-service-start", nblocks, &mut w, &mut drv, st, false)?;
        ckb_block_filter::filter::BlockFilter::new(node.shared.clone()).start();
        filter_on = true;
        st.label("fp:service-started-after-history");
    }
    c19::wait_filters(&node, tree, &cur, st)?;
    c19::filter_oracle(&node, tree, &cur, "final", &mut w.confirmed, &w.detached_unconfirmed, st)?;
    round(&case.caught_up, "final", nblocks, &mut w, &mut drv, st, filter_on)?;
    if case.linear == 0 {
        round(&case.after_reorg, "final", nblocks, &mut w, &mut drv, st, filter_on)?;
    }
    node_panic_violation()?;
    drop(round);
    node.stop();
    st.label_n("fp:requests-judged", judged);
    if nontrivial {
        st.nontrivial(&serde_json::to_string(case).unwrap());
        if st.want_sample() {
            st.sample(|| json!({"sub": "filter-protocol", "variant": case.variant, "blocks": nblocks, "reorgs": w.reorgs, "requests": samples}));
        }
    }
    Ok(())
}
