//! C04 helper: an admissibility model for transactions (independent of `resolve_transaction`, the
//! transaction verifiers and the tx-pool) and the plain-data candidate generator.
//!
//! Rules are taken from the property statement and the documents it names:
//! * liveness / double spend: statement ("distinct cell that is live at that point ... created
//!   earlier in the same block or by a pooled ancestor ... not already spent there");
//! * cell deps / dep groups: doc comments of `resolve_transaction_dep` / `parse_dep_group_data`
//!   (data = non-empty molecule `OutPointVec`, every member live, at most 2048 expanded deps);
//! * header deps: "resolves on the main chain" (`HeaderChecker` doc: "Check if header in main chain");
//! * capacity: `CapacityVerifier` docs (inputs sum >= outputs sum, every output covers its occupied size);
//! * since: RFC 0017 bit layout (bit 63 relative, bits 62-61 metric, bits 60-56 must be zero, 56 bit
//!   value), RFC 0028 (relative timestamp counts from the timestamp of the block that committed the
//!   cell), RFC 0030 (epoch value is well formed iff index < length or both are zero; length 0 reads as
//!   a whole epoch number), median time = median of the `median_time_block_count` blocks ending at the
//!   parent of the commit block;
//! * cellbase maturity: `Consensus::cellbase_maturity` doc + `MaturityVerifier` doc ("If input or dep
//!   prev is cellbase, check that it's matured"): commit epoch >= cellbase epoch + maturity (as
//!   rationals), genesis exempt;
//! * scripts: the prepared set only — a script whose code cell (matched by data hash among the
//!   resolved cell deps) is `always_success` succeeds, `always_failure` fails, no code cell fails;
//! * structural rules of `NonContextualTransactionVerifier` (version, empty inputs/outputs,
//!   duplicate deps, outputs/outputs_data length).
use crate::common::pick_idx;
use crate::model::*;
use crate::node::Env;
use crate::plan::lock_variant;
use ckb_types::{
    bytes::Bytes,
    core::{Capacity, DepType, TransactionBuilder, TransactionView},
    packed::{Byte32, CellDep, CellInput, CellOutput, OutPoint, OutPointVec, Script},
    prelude::*,
};
use proptest::prelude::*;
use serde::{Deserialize, Serialize};
use std::cmp::Ordering;
use std::collections::{BTreeMap, BTreeSet};

// ---------------------------------------------------------------------------------------------
// exact epoch arithmetic
// ---------------------------------------------------------------------------------------------

/// epoch number with fraction (number + index/length)
#[derive(Clone, Copy, Debug, PartialEq, Eq, Serialize, Deserialize)]
pub struct Ep {
    pub n: u64,
    pub i: u64,
    pub l: u64,
}

impl Ep {
    pub fn from_full(v: u64) -> Ep {
        Ep {
            n: v & 0xff_ffff,
            i: (v >> 24) & 0xffff,
            l: (v >> 40) & 0xffff,
        }
    }
    pub fn full(&self) -> u64 {
        (self.l << 40) | (self.i << 24) | self.n
    }
    /// (numerator, denominator); a zero length reads as the whole number (genesis: 0)
    pub fn rat(&self) -> (u128, u128) {
        if self.l == 0 {
            (self.n as u128, 1)
        } else {
            (self.n as u128 * self.l as u128 + self.i as u128, self.l as u128)
        }
    }
}

pub fn rat_add(a: (u128, u128), b: (u128, u128)) -> (u128, u128) {
    (a.0 * b.1 + b.0 * a.1, a.1 * b.1)
}

pub fn rat_cmp(a: (u128, u128), b: (u128, u128)) -> Ordering {
    (a.0 * b.1).cmp(&(b.0 * a.1))
}

fn gcd(a: u128, b: u128) -> u128 {
    if b == 0 { a } else { gcd(b, a % b) }
}

// ---------------------------------------------------------------------------------------------
// the view a transaction is judged against
// ---------------------------------------------------------------------------------------------

/// where a cell was committed (None for a cell created by a pooled, not yet committed ancestor)
#[derive(Clone, Copy, Debug)]
pub struct CellInfo {
    pub number: u64,
    pub epoch: Ep,
    pub ts: u64,
    pub cellbase: bool,
    /// hash of the committing block (None: the block under construction)
    pub hash: Option<[u8; 32]>,
}

#[derive(Clone, Debug)]
pub struct VCell {
    pub output: CellOutput,
    pub data: Bytes,
    pub info: Option<CellInfo>,
}

pub enum Look {
    Live(VCell),
    Dead,
    Unknown,
}

/// chain state at `tip` plus an overlay (earlier transactions of the same block, or the pool)
pub struct View<'a> {
    pub tree: &'a Tree,
    pub tip: H,
    pub created: BTreeMap<CellKey, VCell>,
    pub spent: BTreeSet<CellKey>,
}

impl<'a> View<'a> {
    pub fn new(tree: &'a Tree, tip: &H) -> View<'a> {
        View {
            tree,
            tip: tip.clone(),
            created: BTreeMap::new(),
            spent: BTreeSet::new(),
        }
    }

    pub fn lookup(&self, k: &CellKey) -> Look {
        if self.spent.contains(k) {
            return Look::Dead;
        }
        if let Some(c) = self.created.get(k) {
            return Look::Live(c.clone());
        }
        match self.tree.get(&self.tip).state.live.get(k) {
            Some(c) => Look::Live(VCell {
                output: c.output.clone(),
                data: c.data.clone(),
                info: Some(CellInfo {
                    number: c.block_number,
                    epoch: Ep::from_full(c.block_epoch),
                    ts: self.tree.get(&c.block_hash).block.timestamp(),
                    cellbase: c.cellbase,
                    hash: Some(h32(&c.block_hash)),
                }),
            }),
            None => Look::Unknown,
        }
    }

    /// overlay the effect of an accepted transaction
    pub fn apply(&mut self, tx: &TransactionView, info: Option<CellInfo>) {
        for op in tx.input_pts_iter() {
            self.spent.insert(cell_key(&op));
        }
        for (j, (o, d)) in tx.outputs_with_data_iter().enumerate() {
            self.created.insert((h32(&tx.hash()), j as u32), VCell { output: o, data: d, info });
        }
    }

    pub fn on_main_chain(&self, h: &Byte32) -> bool {
        self.tree.blocks.contains_key(h) && self.tree.is_ancestor(h, &self.tip)
    }
}

/// the position a transaction is judged for
#[derive(Clone, Copy, Debug)]
pub struct PosEnv {
    /// block number used for block-number since
    pub number: u64,
    pub epoch: Ep,
    /// median time seen by the commit block (median of the blocks ending at its parent)
    pub median: u64,
}

#[derive(Clone)]
pub struct Params {
    pub maturity: Ep,
    pub as_hash: Byte32,
    pub af_hash: Byte32,
    /// pool side: relative since on a cell without commit position cannot be decided
    pub pool: bool,
    /// `Consensus::dao_type_hash`: a cell whose type script has hash_type `type` and this code hash
    /// is a NervosDAO cell for the verifiers (whatever its args)
    pub dao_type_hash: Byte32,
    /// `starting_block_limiting_dao_withdrawing_lock`
    pub dao_lock_start: u64,
}

#[derive(Clone, Debug, Default)]
pub struct Eval {
    /// violated rules (empty = every rule holds)
    pub failed: Vec<String>,
    /// pool side: reasons why the statement does not decide the verdict
    pub undetermined: Vec<String>,
    pub fee: i128,
    /// boundary features met by this (tx, position)
    pub feats: Vec<String>,
    /// NervosDAO interest paid out by this transaction (sum over the withdrawing inputs whose
    /// maximum withdraw is defined): what the block's DAO field `S` loses
    pub interest: u128,
}

impl Eval {
    pub fn valid(&self) -> bool {
        self.failed.is_empty()
    }
    pub fn time_only(&self) -> bool {
        !self.failed.is_empty()
            && self
                .failed
                .iter()
                .all(|f| (f.starts_with("since:") && f.ends_with("immature")) || f.starts_with("maturity:"))
    }
}

/// molecule fixvec of 36-byte out points: u32 LE count, then count items, nothing else
pub fn parse_out_point_vec(data: &[u8]) -> Option<Vec<CellKey>> {
    if data.len() < 4 {
        return None;
    }
    let count = u32::from_le_bytes(data[0..4].try_into().unwrap()) as usize;
    if count.checked_mul(36).and_then(|x| x.checked_add(4)) != Some(data.len()) {
        return None;
    }
    let mut v = Vec::with_capacity(count);
    for i in 0..count {
        let b = &data[4 + 36 * i..4 + 36 * (i + 1)];
        let mut h = [0u8; 32];
        h.copy_from_slice(&b[0..32]);
        v.push((h, u32::from_le_bytes(b[32..36].try_into().unwrap())));
    }
    Some(v)
}

pub const MAX_DEP_EXPANSION: usize = 2048;

struct SinceOut {
    fail: Option<&'static str>,
    feat: Option<&'static str>,
    undetermined: bool,
}

/// RFC 0017 / 0028 / 0030
fn eval_since(since: u64, env: &PosEnv, info: Option<&CellInfo>, pool: bool) -> SinceOut {
    let mut o = SinceOut { fail: None, feat: None, undetermined: false };
    if since == 0 {
        return o;
    }
    let flags = since >> 56;
    let relative = flags & 0x80 != 0;
    let metric = (flags >> 5) & 3;
    if flags & 0x1f != 0 {
        o.fail = Some("since:reserved-bits-set");
        return o;
    }
    if metric == 3 {
        o.fail = Some("since:metric-11");
        return o;
    }
    let value = since & 0x00ff_ffff_ffff_ffff;
    if relative && info.is_none() {
        // the cell has no commit position yet (pooled ancestor)
        if pool {
            o.undetermined = true;
        } else {
            o.fail = Some("since:relative-without-position");
        }
        if metric == 1 {
            let e = Ep::from_full(value);
            if !(e.i < e.l || (e.i == 0 && e.l == 0)) {
                o.undetermined = false;
                o.fail = Some("since:malformed-epoch-fraction");
            }
        }
        return o;
    }
    match metric {
        0 => {
            let required = if relative { info.unwrap().number as u128 + value as u128 } else { value as u128 };
            let have = env.number as u128;
            if have < required {
                o.fail = Some(if relative { "since:rel-number-immature" } else { "since:abs-number-immature" });
                if required - have == 1 {
                    o.feat = Some("since-number-one-short");
                }
            } else if have == required {
                o.feat = Some("since-number-exact");
            }
        }
        1 => {
            let e = Ep::from_full(value);
            if !(e.i < e.l || (e.i == 0 && e.l == 0)) {
                o.fail = Some("since:malformed-epoch-fraction");
                return o;
            }
            let mut required = e.rat();
            if relative {
                required = rat_add(required, info.unwrap().epoch.rat());
            }
            match rat_cmp(env.epoch.rat(), required) {
                Ordering::Less => {
                    o.fail = Some(if relative { "since:rel-epoch-immature" } else { "since:abs-epoch-immature" });
                }
                Ordering::Equal => {
                    o.feat = Some(if relative && info.unwrap().epoch.n != env.epoch.n {
                        "since-epoch-exact-across-epochs"
                    } else {
                        "since-epoch-exact"
                    });
                }
                Ordering::Greater => {}
            }
        }
        _ => {
            let mut required = value as u128 * 1000;
            if relative {
                required += info.unwrap().ts as u128;
            }
            let have = env.median as u128;
            if have < required {
                o.fail = Some(if relative { "since:rel-time-immature" } else { "since:abs-time-immature" });
                if required - have <= 1000 {
                    o.feat = Some("since-time-one-short");
                }
            } else if have == required {
                o.feat = Some("since-time-exact");
            }
        }
    }
    if o.feat.is_none() && metric != 1 && value >= 1u64 << 55 {
        o.feat = Some(if metric == 2 { "since-time-extreme-value" } else { "since-number-extreme-value" });
    }
    o
}

/// Evaluate every rule of the statement for `tx` at `env` against `view`.
pub fn eval(view: &View, tx: &TransactionView, env: &PosEnv, p: &Params) -> Eval {
    let mut ev = Eval::default();
    let fail = |ev: &mut Eval, s: &str| {
        if !ev.failed.iter().any(|x| x == s) {
            ev.failed.push(s.to_string());
        }
    };
    let feat = |ev: &mut Eval, s: &str| {
        if !ev.feats.iter().any(|x| x == s) {
            ev.feats.push(s.to_string());
        }
    };
    // --- structural
    if tx.version() != 0 {
        fail(&mut ev, "structure:version");
    }
    if tx.inputs().is_empty() {
        fail(&mut ev, "structure:no-inputs");
    }
    if tx.outputs().is_empty() {
        fail(&mut ev, "structure:no-outputs");
    }
    if tx.outputs().len() != tx.outputs_data().len() {
        fail(&mut ev, "structure:outputs-data-length");
    }
    {
        let mut seen = BTreeSet::new();
        for d in tx.cell_deps_iter() {
            if !seen.insert(d.as_slice().to_vec()) {
                fail(&mut ev, "structure:duplicate-cell-dep");
            }
        }
        let mut seen = BTreeSet::new();
        for h in tx.header_deps_iter() {
            if !seen.insert(h32(&h)) {
                fail(&mut ev, "structure:duplicate-header-dep");
            }
        }
    }
    // --- inputs
    let mut own_inputs: BTreeSet<CellKey> = BTreeSet::new();
    let mut resolved_inputs: Vec<Option<VCell>> = vec![];
    for op in tx.input_pts_iter() {
        let k = cell_key(&op);
        if !own_inputs.insert(k) {
            fail(&mut ev, "input:duplicate-in-tx");
            resolved_inputs.push(None);
            continue;
        }
        match view.lookup(&k) {
            Look::Live(c) => resolved_inputs.push(Some(c)),
            Look::Dead => {
                fail(&mut ev, "input:spent-in-overlay");
                resolved_inputs.push(None);
            }
            Look::Unknown => {
                fail(&mut ev, "input:not-live-on-chain");
                resolved_inputs.push(None);
            }
        }
    }
    // --- cell deps
    let mut resolved_deps: Vec<(CellKey, VCell)> = vec![];
    let mut slots = MAX_DEP_EXPANSION as i64;
    for d in tx.cell_deps_iter() {
        let k = cell_key(&d.out_point());
        let is_group = d.dep_type() == DepType::DepGroup.into();
        let cell = match view.lookup(&k) {
            Look::Live(c) => c,
            Look::Dead => {
                fail(&mut ev, "dep:spent-in-overlay");
                continue;
            }
            Look::Unknown => {
                fail(&mut ev, "dep:not-live-on-chain");
                continue;
            }
        };
        if own_inputs.contains(&k) {
            feat(&mut ev, "dep-is-own-input");
        }
        if !is_group {
            slots -= 1;
            resolved_deps.push((k, cell));
            continue;
        }
        let members = match parse_out_point_vec(&cell.data) {
            Some(m) if !m.is_empty() => m,
            Some(_) => {
                fail(&mut ev, "dep-group:empty");
                continue;
            }
            None => {
                fail(&mut ev, if cell.data.is_empty() { "dep-group:no-data" } else { "dep-group:malformed-data" });
                continue;
            }
        };
        slots -= members.len() as i64;
        if slots < 0 {
            // the limit is checked before the members are resolved
            continue;
        }
        let mut cache: BTreeMap<CellKey, Option<VCell>> = BTreeMap::new();
        for m in members {
            if own_inputs.contains(&m) {
                feat(&mut ev, "dep-group-hides-own-input");
            }
            if view.spent.contains(&m) {
                feat(&mut ev, "dep-group-hides-spent-in-overlay");
            }
            let r = cache.entry(m).or_insert_with(|| match view.lookup(&m) {
                Look::Live(c) => Some(c),
                _ => None,
            });
            match r {
                Some(c) => resolved_deps.push((m, c.clone())),
                None => {
                    fail(
                        &mut ev,
                        if view.spent.contains(&m) { "dep-group:member-spent-in-overlay" } else { "dep-group:member-not-live" },
                    );
                }
            }
        }
    }
    if slots < 0 {
        fail(&mut ev, "dep:expansion-over-2048");
    } else if slots == 0 {
        feat(&mut ev, "dep-expansion-exactly-2048");
    }
    // --- header deps
    for h in tx.header_deps_iter() {
        if !view.on_main_chain(&h) {
            fail(&mut ev, if view.tree.blocks.contains_key(&h) { "header-dep:side-chain" } else { "header-dep:unknown" });
        }
    }
    // --- NervosDAO, as far as the verifiers (not the DAO script) enforce RFC 0023:
    // a withdrawing input (DAO-typed, 8 bytes of data holding a non-zero number) is worth its
    // maximum withdraw = counted * AR(withdrawing block) / AR(deposit block) + occupied, where the
    // withdrawing block is the block that committed the cell (its hash must be a header dep) and the
    // deposit block is the header dep whose index the input's witness names (WitnessArgs.input_type,
    // 8 bytes LE) and must be lower than the withdrawing block; every other input is worth its capacity
    let is_dao = |o: &CellOutput| -> bool {
        o.type_()
            .to_opt()
            .map(|t| {
                let ht: u8 = t.hash_type().into();
                ht == 1 && t.code_hash() == p.dao_type_hash
            })
            .unwrap_or(false)
    };
    let header_deps: Vec<[u8; 32]> = tx.header_deps_iter().map(|h| h32(&h)).collect();
    let mut max_sum: u128 = 0;
    let mut any_dao_input = false;
    let mut any_withdrawing = false;
    let mut withdraw_defined = true;
    for (idx, c) in resolved_inputs.iter().enumerate() {
        let c = match c {
            Some(c) => c,
            None => continue,
        };
        let capv = cap(&c.output) as u128;
        let dao = is_dao(&c.output);
        if dao {
            any_dao_input = true;
        }
        let withdrawing = dao && c.data.len() == 8 && u64::from_le_bytes(c.data[..8].try_into().unwrap()) > 0;
        if !withdrawing {
            if dao {
                feat(&mut ev, "dao-input-not-withdrawing");
            }
            max_sum += capv;
            continue;
        }
        any_withdrawing = true;
        feat(&mut ev, "dao-withdrawing-input");
        let w_hash = match c.info.as_ref().and_then(|i| i.hash) {
            Some(h) if header_deps.contains(&h) => h,
            Some(_) => {
                fail(&mut ev, "dao:withdrawing-block-not-in-header-deps");
                withdraw_defined = false;
                continue;
            }
            None => {
                fail(&mut ev, "dao:withdrawing-cell-has-no-committed-block");
                withdraw_defined = false;
                continue;
            }
        };
        let index = match tx.witnesses().get(idx) {
            None => {
                fail(&mut ev, "dao:witness-missing");
                withdraw_defined = false;
                continue;
            }
            Some(w) => match ckb_types::packed::WitnessArgs::from_slice(&w.raw_data()) {
                Err(_) => {
                    fail(&mut ev, "dao:witness-malformed");
                    withdraw_defined = false;
                    continue;
                }
                Ok(wa) => match wa.input_type().to_opt().map(|b| b.raw_data()) {
                    Some(b) if b.len() == 8 => u64::from_le_bytes(b[..8].try_into().unwrap()),
                    _ => {
                        fail(&mut ev, "dao:witness-without-8-byte-header-index");
                        withdraw_defined = false;
                        continue;
                    }
                },
            },
        };
        let d_hash = match header_deps.get(index as usize) {
            Some(h) if (index as usize as u64) == index => *h,
            _ => {
                fail(&mut ev, "dao:deposit-header-index-out-of-range");
                withdraw_defined = false;
                continue;
            }
        };
        let key = |h: &[u8; 32]| Byte32::from_slice(h).unwrap();
        let (wb, db) = match (view.tree.blocks.get(&key(&w_hash)), view.tree.blocks.get(&key(&d_hash))) {
            (Some(w), Some(d)) => (w, d),
            _ => {
                // an unknown header dep: the header-dep rule has failed already
                withdraw_defined = false;
                continue;
            }
        };
        if db.number >= wb.number {
            fail(&mut ev, "dao:deposit-block-not-before-withdrawing-block");
            withdraw_defined = false;
            continue;
        }
        let recorded = u64::from_le_bytes(c.data[..8].try_into().unwrap());
        if recorded != db.number {
            // the DAO script would refuse this; the verifiers take the witness's word
            feat(&mut ev, "dao-named-deposit-header-differs-from-recorded-number");
        }
        let occupied = occupied_shannons(&c.output, c.data.len());
        if capv < occupied {
            fail(&mut ev, "dao:withdrawing-cell-below-occupied");
            withdraw_defined = false;
            continue;
        }
        let counted = capv - occupied;
        let maxw = counted * wb.dao.ar as u128 / db.dao.ar as u128 + occupied;
        if maxw > capv {
            feat(&mut ev, "dao-interest-nonzero");
        }
        ev.interest += maxw.saturating_sub(capv);
        max_sum += maxw;
    }
    // --- capacity
    let all_inputs_resolved = resolved_inputs.iter().all(|c| c.is_some()) && !resolved_inputs.is_empty();
    let in_sum: u128 = resolved_inputs.iter().flatten().map(|c| cap(&c.output) as u128).sum();
    let out_sum: u128 = tx.outputs().into_iter().map(|o| cap(&o) as u128).sum();
    ev.fee = max_sum as i128 - out_sum as i128;
    if all_inputs_resolved && withdraw_defined {
        if max_sum < out_sum {
            fail(&mut ev, if any_withdrawing { "dao:outputs-exceed-maximum-withdraw" } else { "capacity:outputs-exceed-inputs" });
            if out_sum - max_sum == 1 {
                feat(&mut ev, if any_withdrawing { "dao-withdraw-one-over-maximum" } else { "capacity-sum-one-over" });
            }
        } else if max_sum == out_sum {
            feat(&mut ev, if any_withdrawing { "dao-withdraw-exactly-maximum" } else { "capacity-sum-exact" });
        } else if any_withdrawing && max_sum - out_sum == 1 {
            feat(&mut ev, "dao-withdraw-one-below-maximum");
        }
        if any_dao_input && out_sum > in_sum && out_sum <= max_sum {
            // the case the capacity exemption exists for
            feat(&mut ev, "dao-outputs-above-input-capacities-within-maximum");
        }
    }
    // --- NervosDAO lock-size rule (`DaoScriptSizeVerifier`): input i and output i both DAO-typed,
    // input data all zero (a deposit cell), cell committed at or after the configured block number:
    // the two lock scripts have the same size
    for (c, o) in resolved_inputs.iter().zip(tx.outputs().into_iter()) {
        let c = match c {
            Some(c) => c,
            None => continue,
        };
        if !(is_dao(&c.output) && is_dao(&o)) || c.data.iter().any(|b| *b != 0) {
            continue;
        }
        let before = c.info.as_ref().map(|i| i.number < p.dao_lock_start).unwrap_or(false);
        let same = c.output.lock().args().raw_data().len() == o.lock().args().raw_data().len();
        match (before, same) {
            (true, true) => feat(&mut ev, "dao-lock-size-equal-before-activation"),
            (true, false) => feat(&mut ev, "dao-lock-size-differs-before-activation"),
            (false, true) => feat(&mut ev, "dao-lock-size-equal-after-activation"),
            (false, false) => {
                feat(&mut ev, "dao-lock-size-differs-after-activation");
                fail(&mut ev, "dao:lock-size-mismatch");
            }
        }
        if let Some(i) = c.info.as_ref() {
            if i.number == p.dao_lock_start {
                feat(&mut ev, "dao-lock-rule-deposit-exactly-at-activation");
            } else if i.number + 1 == p.dao_lock_start {
                feat(&mut ev, "dao-lock-rule-deposit-one-block-before-activation");
            }
        }
    }
    let dao_next_to_boundary = any_dao_input;
    for (o, d) in tx.outputs_with_data_iter() {
        let occ = occupied_shannons(&o, d.len());
        let c = cap(&o) as u128;
        if c < occ {
            fail(&mut ev, "capacity:output-below-occupied");
            if occ - c == 1 {
                feat(&mut ev, "capacity-occupied-one-short");
                if dao_next_to_boundary {
                    feat(&mut ev, "dao-input-next-to-output-one-below-occupied");
                }
            }
        } else if c == occ {
            feat(&mut ev, "capacity-occupied-exact");
            if dao_next_to_boundary {
                feat(&mut ev, "dao-input-next-to-output-exactly-occupied");
            }
        }
    }
    // --- maturity (inputs and expanded cell deps)
    let maturity = |ev: &mut Eval, c: &VCell, what: &str| {
        if let Some(i) = &c.info {
            if i.cellbase && i.number > 0 {
                let need = rat_add(i.epoch.rat(), p.maturity.rat());
                match rat_cmp(env.epoch.rat(), need) {
                    Ordering::Less => {
                        fail(ev, &format!("maturity:{what}-cellbase-immature"));
                        // one block short: the next position of the same epoch would do
                        if env.epoch.l > 0 {
                            let next = Ep { n: env.epoch.n, i: env.epoch.i + 1, l: env.epoch.l };
                            if rat_cmp(next.rat(), need) != Ordering::Less {
                                feat(ev, "maturity-one-block-short");
                            }
                        }
                    }
                    Ordering::Equal => feat(ev, "maturity-exact"),
                    Ordering::Greater => {}
                }
            }
        }
    };
    for c in resolved_inputs.iter().flatten() {
        maturity(&mut ev, c, "input");
    }
    for (_, c) in &resolved_deps {
        maturity(&mut ev, c, "dep");
    }
    // --- since
    for (idx, inp) in tx.inputs().into_iter().enumerate() {
        let since: u64 = inp.since().into();
        let cell = resolved_inputs.get(idx).and_then(|c| c.as_ref());
        if since == 0 {
            continue;
        }
        let info = match cell {
            Some(c) => c.info.as_ref(),
            None => {
                // flags are judged even when the cell is unknown; the rest needs the cell
                let flags = since >> 56;
                if flags & 0x1f != 0 || (flags >> 5) & 3 == 3 {
                    fail(&mut ev, "since:reserved-bits-set-or-metric-11");
                }
                continue;
            }
        };
        let o = eval_since(since, env, info, p.pool && info.is_none());
        if let Some(f) = o.fail {
            fail(&mut ev, f);
        }
        if o.undetermined {
            ev.undetermined.push("relative-since-on-pooled-parent".into());
        }
        if let Some(f) = o.feat {
            feat(&mut ev, f);
        }
    }
    // --- scripts (prepared set)
    let mut dep_hashes: BTreeMap<CellKey, [u8; 32]> = BTreeMap::new();
    for (k, c) in &resolved_deps {
        dep_hashes.entry(*k).or_insert_with(|| h32(&CellOutput::calc_data_hash(&c.data)));
    }
    let mut scripts: Vec<(Script, &str)> = vec![];
    for c in resolved_inputs.iter().flatten() {
        scripts.push((c.output.lock(), "lock"));
        if let Some(t) = c.output.type_().to_opt() {
            scripts.push((t, "input-type"));
        }
    }
    for o in tx.outputs().into_iter() {
        if let Some(t) = o.type_().to_opt() {
            scripts.push((t, "output-type"));
        }
    }
    for (s, what) in scripts {
        let ht: u8 = s.hash_type().into();
        if ht == 1 {
            // code located by the type-script hash of a dep cell
            let want = s.code_hash();
            let mut datas: Vec<[u8; 32]> = resolved_deps
                .iter()
                .filter(|(_, c)| c.output.type_().to_opt().map(|t| t.calc_script_hash() == want).unwrap_or(false))
                .map(|(k, _)| dep_hashes[k])
                .collect();
            datas.sort();
            datas.dedup();
            if datas.is_empty() {
                fail(&mut ev, &format!("script:{what}-code-not-in-deps"));
            } else if datas.len() > 1 {
                fail(&mut ev, &format!("script:{what}-ambiguous-code"));
            } else if datas[0] == h32(&p.af_hash) {
                fail(&mut ev, &format!("script:{what}-always-failure"));
            } else if datas[0] != h32(&p.as_hash) {
                ev.undetermined.push("script-outside-prepared-set".into());
            }
            continue;
        }
        let code = h32(&s.code_hash());
        if !dep_hashes.values().any(|h| *h == code) {
            fail(&mut ev, &format!("script:{what}-code-not-in-deps"));
        } else if code == h32(&p.af_hash) {
            fail(&mut ev, &format!("script:{what}-always-failure"));
        } else if code != h32(&p.as_hash) {
            ev.undetermined.push("script-outside-prepared-set".into());
        }
    }
    ev
}

// ---------------------------------------------------------------------------------------------
// candidate specs (plain data) and their strategies
// ---------------------------------------------------------------------------------------------

#[derive(Clone, Debug, Serialize, Deserialize)]
pub struct SinceSpec {
    /// 0 none, 1 abs number, 2 rel number, 3 abs epoch, 4 rel epoch, 5 abs time, 6 rel time,
    /// 7 raw flag byte (reserved bits / metric 11) over a number-like value
    pub kind: u8,
    /// distance from the threshold of the targeted position (in the metric's smallest step)
    pub delta: i8,
    /// representation variant (epoch fractions: scaled / length 0 / malformed ...)
    pub form: u8,
    pub raw: u8,
}

#[derive(Clone, Debug, Serialize, Deserialize)]
pub struct InSpec {
    /// 0 reserved plain cell, 1 any live cell, 2 cellbase near the maturity boundary, 3 spent cell,
    /// 4 cell live only on a side branch, 5 unknown out point, 6 same out point as the previous
    /// input, 7 first input of the previous candidate of the group, 8 output 0 of the previous
    /// candidate of the group, 9 always_failure-locked cell
    pub kind: u8,
    pub sel: u16,
    pub since: SinceSpec,
}

#[derive(Clone, Debug, Serialize, Deserialize)]
pub struct DepSpec {
    pub kind: u8,
    pub sel: u16,
}

#[derive(Clone, Debug, Serialize, Deserialize)]
pub struct HdrSpec {
    /// 1 main-chain block, 2 creation tip, 3 side-chain block, 4 unknown, 5 same as previous, 6 genesis
    pub kind: u8,
    pub sel: u16,
}

#[derive(Clone, Debug, Serialize, Deserialize)]
pub struct OutSpec {
    pub n: u8,
    /// output 0: 0 plain, 1 exactly occupied, 2 occupied-1, 3 occupied+1
    pub cap_mode: u8,
    /// 0 ordinary fee, 1 outputs == inputs, 2 outputs = inputs + 1, 3 outputs = inputs - 1, 4 tiny fee,
    /// 5 triple fee (can replace an ordinary pooled transaction)
    pub sum_mode: u8,
    pub data_len: u8,
    /// 0..=2 always_success variants, 3 always_failure
    pub lock: u8,
    /// 0 none, 1 always_success type, 2 always_failure type
    pub typ: u8,
}

#[derive(Clone, Debug, Serialize, Deserialize)]
pub struct CandSpec {
    pub batch: u8,
    pub offset: u16,
    pub retries: u8,
    /// thresholds are computed for: 0 the block position, 1 the pool environment of a fresh tx at
    /// creation, 2 the pool environment of a proposed tx right before the block position
    pub target: u8,
    pub inputs: Vec<InSpec>,
    pub deps: Vec<DepSpec>,
    pub hdeps: Vec<HdrSpec>,
    pub out: OutSpec,
    /// 0 none, 1 version 1, 2 no outputs, 3 one output data too many
    pub structural: u8,
    /// 0 never, 1 submit_local_tx at creation, 2 submit_local_tx once proposed
    pub pool_submit: u8,
    /// NervosDAO shape (family `dao`); None = ordinary candidate
    #[serde(default)]
    pub dao: Option<DaoCand>,
}

#[derive(Clone, Debug, Serialize, Deserialize)]
pub struct DaoCand {
    /// 1 deposit (plain input -> DAO-typed output holding 8 zero bytes), 2 withdraw phase 1 (deposit
    /// cell -> withdrawing cell holding the deposit block number), 3 withdraw phase 2 (withdrawing
    /// cell -> plain outputs, header deps + witness index)
    pub kind: u8,
    pub sel: u16,
    /// phase 1 / deposit: lock args length of the DAO-typed output relative to the input's:
    /// 0 same, 1..=3 that many bytes more (mod 4 of the total)
    pub out_lock: u8,
    /// outputs total: 0 maximum - ordinary fee, 1 exactly the maximum, 2 maximum + 1, 3 maximum - 1,
    /// 4 exactly the input capacities, 5 input capacities + 1, 6 tiny fee
    pub amount: u8,
    /// phase 2 header deps / witness: 0 [D, W] index 0, 1 [W, D] index 1, 2 W left out, 3 index past
    /// the header deps, 4 no witness, 5 witness is not a WitnessArgs, 6 input_type of 4 bytes, 7 names W
    /// itself, 8 names another main-chain block below W, 9 names a block above W, 10 lock (not
    /// input_type) carries the index
    pub hdr: u8,
    /// an ordinary input next to the DAO one
    pub extra_plain_input: bool,
    /// the ordinary input comes first (DAO input and DAO output are then not at the same index)
    pub plain_first: bool,
    /// extra output at its occupied capacity: 0 none, 1 exactly, 2 one below, 3 one above
    pub occ: u8,
    /// non-empty args on the DAO type script of the output (still DAO-typed for the verifiers)
    pub type_args: bool,
    /// leave out the DAO code cell dep
    pub no_dao_dep: bool,
}

pub fn since_strategy() -> impl Strategy<Value = SinceSpec> {
    (
        prop_oneof![
            16 => Just(0u8),
            2 => Just(1u8),
            3 => Just(2u8),
            3 => Just(3u8),
            5 => Just(4u8),
            3 => Just(5u8),
            3 => Just(6u8),
            1 => Just(7u8),
        ],
        prop_oneof![4 => Just(0i8), 3 => Just(-1i8), 2 => Just(1i8), 1 => -6i8..=6],
        prop_oneof![6 => 0u8..5, 3 => 5u8..12],
        any::<u8>(),
    )
        .prop_map(|(kind, delta, form, raw)| SinceSpec { kind, delta, form, raw })
}

pub fn in_strategy() -> impl Strategy<Value = InSpec> {
    (
        prop_oneof![
            26 => Just(0u8),
            4 => Just(1u8),
            10 => Just(2u8),
            1 => Just(3u8),
            1 => Just(4u8),
            1 => Just(5u8),
            1 => Just(6u8),
            2 => Just(7u8),
            6 => Just(8u8),
            1 => Just(9u8),
        ],
        any::<u16>(),
        since_strategy(),
    )
        .prop_map(|(kind, sel, since)| InSpec { kind, sel, since })
}

/// dep kinds that keep a transaction admissible are drawn twice as often as the others
pub fn dep_strategy() -> impl Strategy<Value = DepSpec> {
    (
        prop_oneof![
            2 => Just(1u8),
            1 => Just(2u8),
            1 => Just(3u8),
            2 => Just(4u8),
            3 => Just(5u8),
            3 => Just(6u8),
            3 => Just(7u8),
            2 => Just(8u8),
            1 => Just(9u8),
            1 => Just(10u8),
            1 => Just(11u8),
            1 => Just(12u8),
            1 => Just(13u8),
            1 => Just(14u8),
            1 => Just(15u8),
            1 => Just(16u8),
            1 => Just(17u8),
            1 => Just(18u8),
            3 => Just(19u8),
            3 => Just(20u8),
        ],
        any::<u16>(),
    )
        .prop_map(|(kind, sel)| DepSpec { kind, sel })
}

pub fn hdr_strategy() -> impl Strategy<Value = HdrSpec> {
    (
        prop_oneof![3 => Just(1u8), 2 => Just(2u8), 1 => Just(3u8), 1 => Just(4u8), 1 => Just(5u8), 1 => Just(6u8)],
        any::<u16>(),
    )
        .prop_map(|(kind, sel)| HdrSpec { kind, sel })
}

pub const DEP_KINDS: u8 = 21;

pub fn dao_cand_strategy() -> impl Strategy<Value = DaoCand> {
    (
        (
            prop_oneof![2 => Just(1u8), 5 => Just(2u8), 7 => Just(3u8)],
            any::<u16>(),
            prop_oneof![3 => Just(0u8), 2 => 1u8..=3],
            prop_oneof![4 => Just(0u8), 3 => Just(1u8), 3 => Just(2u8), 2 => Just(3u8), 1 => Just(4u8), 2 => Just(5u8), 1 => Just(6u8)],
            prop_oneof![12 => Just(0u8), 6 => Just(1u8), 1 => Just(2u8), 1 => Just(3u8), 1 => Just(4u8), 1 => Just(5u8), 1 => Just(6u8), 1 => Just(7u8), 2 => Just(8u8), 1 => Just(9u8), 1 => Just(10u8)],
        ),
        (
            prop_oneof![3 => Just(false), 1 => Just(true)],
            prop_oneof![2 => Just(false), 1 => Just(true)],
            prop_oneof![6 => Just(0u8), 2 => Just(1u8), 2 => Just(2u8), 1 => Just(3u8)],
            prop_oneof![7 => Just(false), 1 => Just(true)],
            prop_oneof![19 => Just(false), 1 => Just(true)],
        ),
    )
        .prop_map(|((kind, sel, out_lock, amount, hdr), (extra_plain_input, plain_first, occ, type_args, no_dao_dep))| DaoCand {
            kind,
            sel,
            out_lock,
            amount,
            hdr,
            extra_plain_input,
            plain_first,
            occ,
            type_args,
            no_dao_dep,
        })
}

/// candidates of the `dao` family: about two thirds carry a NervosDAO shape
pub fn dao_family_cand_strategy() -> impl Strategy<Value = CandSpec> {
    (cand_strategy(), prop_oneof![1 => Just(None), 2 => dao_cand_strategy().prop_map(Some)]).prop_map(|(mut c, d)| {
        c.dao = d;
        c
    })
}

pub fn cand_strategy() -> impl Strategy<Value = CandSpec> {
    (
        (0u8..3, any::<u16>(), prop_oneof![3 => Just(0u8), 2 => Just(1u8), 1 => Just(2u8)], prop_oneof![4 => Just(0u8), 1 => Just(1u8), 1 => Just(2u8)]),
        prop_oneof![
            6 => proptest::collection::vec(in_strategy(), 1..=1),
            3 => proptest::collection::vec(in_strategy(), 2..=2),
            1 => proptest::collection::vec(in_strategy(), 3..=3),
        ],
        prop_oneof![
            10 => Just(vec![]),
            5 => proptest::collection::vec(dep_strategy(), 1..=1),
            1 => proptest::collection::vec(dep_strategy(), 2..=2),
        ],
        prop_oneof![
            8 => Just(vec![]),
            3 => proptest::collection::vec(hdr_strategy(), 1..=2),
        ],
        (
            1u8..=3,
            prop_oneof![12 => Just(0u8), 2 => Just(1u8), 1 => Just(2u8), 1 => Just(3u8)],
            prop_oneof![14 => Just(0u8), 2 => Just(1u8), 1 => Just(2u8), 1 => Just(3u8), 1 => Just(4u8), 3 => Just(5u8)],
            prop_oneof![4 => Just(0u8), 2 => 1u8..40],
            prop_oneof![6 => 0u8..3, 1 => Just(3u8)],
            prop_oneof![14 => Just(0u8), 2 => Just(1u8), 1 => Just(2u8)],
        )
            .prop_map(|(n, cap_mode, sum_mode, data_len, lock, typ)| OutSpec { n, cap_mode, sum_mode, data_len, lock, typ }),
        prop_oneof![60 => Just(0u8), 1 => Just(1u8), 1 => Just(2u8), 1 => Just(3u8)],
        prop_oneof![5 => Just(0u8), 2 => Just(1u8), 2 => Just(2u8)],
    )
        .prop_map(|((batch, offset, retries, target), inputs, deps, hdeps, out, structural, pool_submit)| CandSpec {
            batch,
            offset,
            retries,
            target,
            inputs,
            deps,
            hdeps,
            out,
            structural,
            pool_submit,
            dao: None,
        })
}

// ---------------------------------------------------------------------------------------------
// the runway schedule and the prepared cells
// ---------------------------------------------------------------------------------------------

/// position `r` of the runway (0 = the history tip): what a block at that position looks like
#[derive(Clone, Debug)]
pub struct Slot {
    pub number: u64,
    pub epoch: Ep,
    pub ts: u64,
    /// median time seen by this block (window ending at its parent); 0 for slot 0
    pub median: u64,
}

/// cells made by the preparation transaction(s)
#[derive(Clone, Debug, Default)]
pub struct Prep {
    pub txs: Vec<TransactionView>,
    pub plain: Vec<CellKey>,
    pub af_locked: Vec<CellKey>,
    /// dep-group cells: name -> out point
    pub groups: BTreeMap<&'static str, CellKey>,
    /// the input spent by the preparation transaction (dead afterwards)
    pub dead: Vec<CellKey>,
    /// family `dao`: NervosDAO deposit cells (8 zero bytes) and withdrawing cells (8 bytes naming a
    /// main-chain block of the history) created by the third preparation transaction
    pub dao_deposits: Vec<CellKey>,
    pub dao_withdrawing: Vec<CellKey>,
}

fn group_data(members: &[CellKey]) -> Bytes {
    let v: Vec<OutPoint> = members.iter().map(out_point_of).collect();
    OutPointVec::new_builder().set(v).build().as_bytes()
}

pub fn is_as_family(env: &Env, s: &Script) -> bool {
    s.code_hash() == env.always_success_lock.code_hash() && s.hash_type() == env.always_success_lock.hash_type()
}

/// spendable (always_success family lock, no type), non-cellbase live cells, largest first
pub fn funding_cells(env: &Env, st: &ChainState) -> Vec<(CellKey, u64)> {
    let mut v: Vec<(CellKey, u64)> = st
        .live
        .iter()
        .filter(|(_, c)| is_as_family(env, &c.output.lock()) && c.output.type_().to_opt().is_none() && !(c.cellbase && c.block_number > 0) && c.data.is_empty())
        .map(|(k, c)| (*k, cap(&c.output)))
        .collect();
    v.sort_by(|a, b| b.1.cmp(&a.1).then(a.0.cmp(&b.0)));
    v
}

pub const N_PLAIN: usize = 44;
pub const PLAIN_CAP: u64 = 1_000 * 100_000_000;

/// Build the preparation transactions on the state of `tip`.
pub fn build_prep(env: &Env, tree: &Tree, tip: &H, big_groups: bool, dao: bool) -> Prep {
    let st = &tree.get(tip).state;
    let funding = funding_cells(env, st);
    let mut prep = Prep::default();
    if funding.is_empty() {
        return prep;
    }
    let dao_tx = if dao { build_dao_prep(env, tree, tip, &funding, &mut prep) } else { None };
    let prep_ret = |mut prep: Prep, dao_tx: &Option<TransactionView>| {
        if let Some(t) = dao_tx {
            prep.txs.push(t.clone());
        }
        prep
    };
    let as_key = cell_key(&env.always_success_dep.out_point());
    let af_key = cell_key(&env.always_failure_dep.out_point());
    let (src, src_cap) = funding[0];
    let mut outs: Vec<(CellOutput, Bytes)> = vec![];
    let mk = |lock: Script, capv: u64| CellOutput::new_builder().capacity(Capacity::shannons(capv)).lock(lock).build();
    let mut budget = src_cap.saturating_sub(1_000_000);
    // plain cells; the out points of the first two are hidden in dep groups below, so the
    // transaction hash must not depend on the groups: groups live in a second transaction
    let n_plain = N_PLAIN.min((budget / 3 / PLAIN_CAP) as usize);
    for i in 0..n_plain {
        outs.push((mk(lock_variant(env, (i % 3) as u8), PLAIN_CAP), Bytes::new()));
        budget -= PLAIN_CAP;
    }
    let n_af = if budget > 10 * PLAIN_CAP { 3 } else { 0 };
    for _ in 0..n_af {
        outs.push((mk(env.always_failure_lock.clone(), PLAIN_CAP), Bytes::new()));
        budget -= PLAIN_CAP;
    }
    // change cell funds the second transaction
    let change = budget;
    outs.push((mk(env.always_success_lock.clone(), change), Bytes::new()));
    let mut tb = TransactionBuilder::default()
        .cell_dep(env.always_success_dep.clone())
        .input(CellInput::new(out_point_of(&src), 0));
    for (o, d) in &outs {
        tb = tb.output(o.clone()).output_data(d.pack());
    }
    let tx1 = tb.build();
    let h1 = h32(&tx1.hash());
    for i in 0..n_plain {
        prep.plain.push((h1, i as u32));
    }
    for i in 0..n_af {
        prep.af_locked.push((h1, (n_plain + i) as u32));
    }
    prep.dead.push(src);
    let change_key = (h1, (n_plain + n_af) as u32);
    // second transaction: dep-group cells
    let mut gouts: Vec<(&'static str, Bytes)> = vec![];
    gouts.push(("as", group_data(&[as_key])));
    gouts.push(("as+af", group_data(&[as_key, af_key])));
    if prep.plain.len() >= 4 {
        // groups hiding cells that candidates will spend: the last plain cells (handed out last)
        let a = prep.plain[prep.plain.len() - 1];
        let b = prep.plain[prep.plain.len() - 2];
        gouts.push(("as+hidden0", group_data(&[as_key, a])));
        gouts.push(("as+hidden1", group_data(&[as_key, b])));
        gouts.push(("hidden0-only", group_data(&[a])));
    }
    gouts.push(("empty", Bytes::from(vec![0u8, 0, 0, 0])));
    gouts.push(("malformed-short", Bytes::from(vec![1u8, 0, 0, 0, 7, 7, 7])));
    gouts.push(("malformed-count", {
        let mut d = group_data(&[as_key]).to_vec();
        d[0] = 2;
        Bytes::from(d)
    }));
    gouts.push(("no-data", Bytes::new()));
    gouts.push(("dead-member", group_data(&[as_key, src])));
    gouts.push(("unknown-member", group_data(&[as_key, ([0xabu8; 32], 0)])));
    let mut need: u64 = 0;
    let mut gcells: Vec<(CellOutput, Bytes)> = vec![];
    for (_, d) in &gouts {
        let probe = mk(env.always_success_lock.clone(), 0);
        let c = occupied_shannons(&probe, d.len()) as u64 + 100_000_000;
        need += c;
        gcells.push((mk(env.always_success_lock.clone(), c), d.clone()));
    }
    if change < need + 200 * 100_000_000 {
        prep.txs.push(tx1);
        return prep_ret(prep, &dao_tx);
    }
    let mut rest = change - need - 1_000_000;
    let mut tb = TransactionBuilder::default()
        .cell_dep(env.always_success_dep.clone())
        .input(CellInput::new(out_point_of(&change_key), 0));
    for (o, d) in &gcells {
        tb = tb.output(o.clone()).output_data(d.pack());
    }
    let mut names: Vec<&'static str> = gouts.iter().map(|g| g.0).collect();
    // big groups: 2048 and 2049 copies of the always_success cell, funded by a second large cell
    let mut big_in: Option<CellKey> = None;
    if big_groups {
        let d48 = group_data(&vec![as_key; 2048]);
        let d49 = group_data(&vec![as_key; 2049]);
        let probe = mk(env.always_success_lock.clone(), 0);
        let c48 = occupied_shannons(&probe, d48.len()) as u64;
        let c49 = occupied_shannons(&probe, d49.len()) as u64;
        if let Some((k2, c2)) = funding.get(1).copied() {
            if c2 > c48 + c49 + 1000 * 100_000_000 {
                big_in = Some(k2);
                tb = tb.input(CellInput::new(out_point_of(&k2), 0));
                tb = tb.output(mk(env.always_success_lock.clone(), c48)).output_data(d48.pack());
                tb = tb.output(mk(env.always_success_lock.clone(), c49)).output_data(d49.pack());
                names.push("x2048");
                names.push("x2049");
                rest += c2 - c48 - c49;
            }
        }
    }
    tb = tb.output(mk(env.always_success_lock.clone(), rest)).output_data(Bytes::new().pack());
    let tx2 = tb.build();
    let h2 = h32(&tx2.hash());
    for (i, n) in names.iter().enumerate() {
        prep.groups.insert(*n, (h2, i as u32));
    }
    if let Some(k) = big_in {
        prep.dead.push(k);
    }
    prep.txs.push(tx1);
    prep.txs.push(tx2);
    prep_ret(prep, &dao_tx)
}

pub const N_DAO_DEPOSITS: usize = 10;
pub const N_DAO_WITHDRAWING: usize = 14;

pub fn dao_type_script(env: &Env, args_len: usize) -> Script {
    env.dao_type.clone().as_builder().args(Bytes::from(vec![0xda; args_len]).pack()).build()
}

/// third preparation transaction (family `dao`): deposit cells and withdrawing cells with lock args
/// of 0 / 1 / 2 bytes, funded by the third largest funding cell
fn build_dao_prep(env: &Env, tree: &Tree, tip: &H, funding: &[(CellKey, u64)], prep: &mut Prep) -> Option<TransactionView> {
    let (src, src_cap) = *funding.get(2)?;
    let dep_cap = 2_000 * 100_000_000u64;
    let wd_cap = 3_000 * 100_000_000u64;
    let need = N_DAO_DEPOSITS as u64 * dep_cap + N_DAO_WITHDRAWING as u64 * (wd_cap + 14 * 7) + 200 * 100_000_000;
    if src_cap < need {
        return None;
    }
    let tipn = tree.get(tip).number;
    if tipn < 2 {
        return None;
    }
    let mut tb = TransactionBuilder::default()
        .cell_dep(env.always_success_dep.clone())
        .cell_dep(env.dao_dep.clone())
        .input(CellInput::new(out_point_of(&src), 0));
    let mut used = 0u64;
    let mk = |capv: u64, lock: Script| {
        CellOutput::new_builder().capacity(Capacity::shannons(capv)).lock(lock).type_(Some(env.dao_type.clone()).pack()).build()
    };
    for i in 0..N_DAO_DEPOSITS {
        tb = tb.output(mk(dep_cap, lock_variant(env, (i % 3) as u8))).output_data(Bytes::from(vec![0u8; 8]).pack());
        used += dep_cap;
    }
    for i in 0..N_DAO_WITHDRAWING {
        // the recorded deposit block: spread over the main chain of the history
        let d = 1 + (i as u64 * 5 + 1) % tipn;
        let c = wd_cap + i as u64 * 7;
        tb = tb.output(mk(c, lock_variant(env, (i % 3) as u8))).output_data(Bytes::from(d.to_le_bytes().to_vec()).pack());
        used += c;
    }
    let change = CellOutput::new_builder().capacity(Capacity::shannons(src_cap - used - 1_000_000)).lock(env.always_success_lock.clone()).build();
    let tx = tb.output(change).output_data(Bytes::new().pack()).build();
    let h = h32(&tx.hash());
    for i in 0..N_DAO_DEPOSITS {
        prep.dao_deposits.push((h, i as u32));
    }
    for i in 0..N_DAO_WITHDRAWING {
        prep.dao_withdrawing.push((h, (N_DAO_DEPOSITS + i) as u32));
    }
    prep.dead.push(src);
    Some(tx)
}

// ---------------------------------------------------------------------------------------------
// building one candidate transaction from its spec
// ---------------------------------------------------------------------------------------------

pub struct GenCtx<'a> {
    pub env: &'a Env,
    pub tree: &'a Tree,
    /// creation tip = runway block `step`
    pub tip: H,
    pub step: usize,
    pub sched: &'a [Slot],
    pub window: (u64, u64),
    pub maturity: Ep,
    pub prep: &'a Prep,
    /// history blocks that are not on the main chain
    pub side_blocks: &'a [H],
    /// next unreserved plain cell
    pub next_plain: usize,
    /// next unreserved prepared DAO deposit / withdrawing cell
    pub next_dao: (usize, usize),
    pub dao_lock_start: u64,
}

#[derive(Clone, Debug)]
pub struct Built {
    pub tx: TransactionView,
    /// first position (runway step) at which the block side is probed
    pub probe: usize,
    pub intents: Vec<&'static str>,
}

fn target_env(g: &GenCtx, target: u8, probe: usize) -> PosEnv {
    let close = g.window.0;
    let s = |r: usize| &g.sched[r.min(g.sched.len() - 1)];
    match target {
        1 => PosEnv {
            number: s(g.step).number + 1 + close,
            epoch: s(g.step).epoch,
            median: s(g.step + 1).median,
        },
        2 => PosEnv {
            number: (s(probe - 1).number + close).saturating_sub(1),
            epoch: s(probe - 1).epoch,
            median: s(probe).median,
        },
        _ => PosEnv {
            number: s(probe).number,
            epoch: s(probe).epoch,
            median: s(probe).median,
        },
    }
}

/// since value aimed at the threshold of `env` for a cell committed at `info`
pub fn make_since(sp: &SinceSpec, env: &PosEnv, info: Option<&CellInfo>) -> u64 {
    const REL: u64 = 1 << 63;
    let base = info.copied().unwrap_or(CellInfo { number: env.number, epoch: env.epoch, ts: env.median, cellbase: false, hash: None });
    let d = sp.delta as i128;
    let clamp56 = |v: i128| -> u64 { v.clamp(0, (1i128 << 56) - 1) as u64 };
    // extreme values of the 56-bit field for the number / time metrics (forms 10 and 11, which mean
    // nothing else for these kinds): the largest value, the smallest second count whose
    // millisecond value no longer fits 64 bits, the largest that still fits, 2^55
    if matches!(sp.kind, 1 | 2 | 5 | 6) && sp.form % 12 >= 10 {
        let v: u64 = match sp.raw % 4 {
            0 => (1u64 << 56) - 1,
            1 => u64::MAX / 1000 + 1,
            2 => u64::MAX / 1000,
            _ => 1u64 << 55,
        };
        let flag = match sp.kind {
            1 => 0,
            2 => REL,
            5 => 2u64 << 61,
            _ => REL | (2u64 << 61),
        };
        return flag | v;
    }
    match sp.kind {
        0 => 0,
        1 => clamp56(env.number as i128 + d),
        2 => REL | clamp56(env.number as i128 - base.number as i128 + d),
        3 | 4 => {
            // threshold t = env.epoch (- base.epoch), as N + p/q
            let (mut tn, mut td) = env.epoch.rat();
            if sp.kind == 4 {
                let b = base.epoch.rat();
                // t = env - base (clamped at 0)
                let lhs = tn * b.1;
                let rhs = b.0 * td;
                if lhs <= rhs {
                    tn = 0;
                    td = 1;
                } else {
                    tn = lhs - rhs;
                    td *= b.1;
                }
            }
            let g = gcd(tn, td).max(1);
            tn /= g;
            td /= g;
            let whole = (tn / td) as u64;
            let p = (tn % td) as u64;
            let q = td as u64;
            let flag = (if sp.kind == 4 { REL } else { 0 }) | (1u64 << 61);
            let ep = match sp.form % 12 {
                // scaled representation with the delta applied on the finer grid
                0..=4 => {
                    let k = [1u64, 2, 3, 5, 7][(sp.form % 12) as usize];
                    let mut num = (whole as i128 * (q * k) as i128) + (p * k) as i128 + d;
                    if num < 0 {
                        num = 0;
                    }
                    let den = (q * k) as i128;
                    if den >= 65536 {
                        Ep { n: whole, i: 0, l: 1 }
                    } else {
                        Ep { n: (num / den) as u64 & 0xff_ffff, i: (num % den) as u64, l: den as u64 }
                    }
                }
                // whole epochs with length 0 (reads as number + 0/1)
                5 => Ep { n: (whole as i128 + d.signum()).max(0) as u64, i: 0, l: 0 },
                6 => Ep { n: whole + if p > 0 { 1 } else { 0 }, i: 0, l: 0 },
                // malformed: index == length, index > length, index > 0 with length 0
                7 => Ep { n: whole, i: q, l: q },
                8 => Ep { n: whole.saturating_sub(1), i: q + p + 1, l: q },
                9 => Ep { n: whole, i: 1 + (sp.raw as u64 % 7), l: 0 },
                // whole number just below / at the threshold with length 1
                10 => Ep { n: whole, i: 0, l: 1 },
                _ => Ep { n: whole + 1, i: 0, l: 1 },
            };
            flag | ep.full()
        }
        5 => (2u64 << 61) | clamp56(env.median as i128 / 1000 + d),
        6 => REL | (2u64 << 61) | clamp56((env.median as i128 - base.ts as i128).max(0) / 1000 + d),
        _ => {
            // raw flag byte: force an invalid flag combination in 3 of 4 cases
            let mut f = sp.raw as u64;
            match sp.form % 4 {
                0 => f |= 0x60,                  // metric 11
                1 => f = (f & 0xe0) | (1 << (sp.form as u64 % 5)), // one reserved bit
                2 => f |= 0x1f,
                _ => {}
            }
            (f << 56) | clamp56(env.number as i128 / 2 + d)
        }
    }
}

fn unknown_key(sel: u16, tree: &Tree, tip: &H) -> CellKey {
    if sel % 2 == 0 {
        let mut h = [0u8; 32];
        h[0] = 0xc0;
        h[1] = 0x04;
        h[2..4].copy_from_slice(&sel.to_le_bytes());
        (h, (sel % 3) as u32)
    } else {
        // a committed transaction, index past its outputs
        let st = &tree.get(tip).state;
        let n = st.tx_index.len();
        let (h, _) = st.tx_index.iter().nth(pick_idx(sel as u32, n)).unwrap();
        (*h, 1000 + (sel % 7) as u32)
    }
}

/// out points of committed transactions on the branch of `tip` that are no longer live
pub fn spent_cells(tree: &Tree, tip: &H) -> Vec<CellKey> {
    let st = &tree.get(tip).state;
    let mut v = vec![];
    for (h, (bh, _, idx)) in st.tx_index.iter() {
        let b = tree.get(bh);
        if let Some(tx) = b.block.transactions().get(*idx as usize) {
            for j in 0..tx.outputs().len() {
                let k = (*h, j as u32);
                if !st.live.contains_key(&k) {
                    v.push(k);
                }
            }
        }
    }
    v
}

/// cells live at some side block but not on the main chain
pub fn side_only_cells(tree: &Tree, tip: &H, side_blocks: &[H]) -> Vec<CellKey> {
    let st = &tree.get(tip).state;
    let mut set = BTreeSet::new();
    for s in side_blocks {
        for k in tree.get(s).state.live.keys() {
            if !st.live.contains_key(k) {
                set.insert(*k);
            }
        }
    }
    set.into_iter().collect()
}

/// Build the transaction of `spec`.  `prev` = the previous candidate of the same group (same
/// batch and position), used by the relation kinds.
pub fn build_candidate(
    g: &mut GenCtx,
    spec: &CandSpec,
    probe: usize,
    prev: Option<&TransactionView>,
    prev2: Option<&TransactionView>,
) -> Option<Built> {
    if let Some(d) = &spec.dao {
        if let Some(b) = build_dao_candidate(g, spec, d, probe) {
            return Some(b);
        }
    }
    let env = g.env;
    let view = View::new(g.tree, &g.tip);
    let tenv = target_env(g, spec.target, probe);
    let mut intents: Vec<&'static str> = vec![];
    let st = &g.tree.get(&g.tip).state;
    let live_any: Vec<CellKey> = st
        .live
        .iter()
        .filter(|(_, c)| is_as_family(env, &c.output.lock()) && c.output.type_().to_opt().is_none())
        .map(|(k, _)| *k)
        .collect();
    // --- inputs
    let mut inputs: Vec<(CellKey, Option<VCell>, u64)> = vec![];
    // pays enough to replace an ordinary pooled transaction
    let mut rich = false;
    for (idx, isp) in spec.inputs.iter().enumerate() {
        let plain = |g: &mut GenCtx| -> Option<CellKey> {
            while g.next_plain < g.prep.plain.len() {
                let k = g.prep.plain[g.next_plain];
                g.next_plain += 1;
                if g.tree.get(&g.tip).state.live.contains_key(&k) {
                    return Some(k);
                }
            }
            None
        };
        let mut prev_cell: Option<VCell> = None;
        let key: CellKey = match isp.kind {
            1 if !live_any.is_empty() => live_any[pick_idx(isp.sel as u32, live_any.len())],
            2 => {
                // cellbase cells ordered by distance from the maturity boundary at the target
                let mut cbs: Vec<(u128, CellKey)> = st
                    .live
                    .iter()
                    .filter(|(_, c)| c.cellbase && c.block_number > 0 && is_as_family(env, &c.output.lock()))
                    .map(|(k, c)| {
                        let need = rat_add(Ep::from_full(c.block_epoch).rat(), g.maturity.rat());
                        let have = tenv.epoch.rat();
                        // |have - need| scaled to a common denominator
                        let a = have.0 * need.1;
                        let b = need.0 * have.1;
                        (a.abs_diff(b) * 1_000_000 / (have.1 * need.1), *k)
                    })
                    .collect();
                cbs.sort();
                if cbs.is_empty() {
                    match plain(g) {
                        Some(k) => k,
                        None => return None,
                    }
                } else {
                    intents.push("cellbase-input");
                    cbs[pick_idx(isp.sel as u32, cbs.len().min(4))].1
                }
            }
            3 => {
                let v = spent_cells(g.tree, &g.tip);
                if v.is_empty() { unknown_key(isp.sel, g.tree, &g.tip) } else { v[pick_idx(isp.sel as u32, v.len())] }
            }
            4 => {
                let v = side_only_cells(g.tree, &g.tip, g.side_blocks);
                if v.is_empty() { unknown_key(isp.sel, g.tree, &g.tip) } else { v[pick_idx(isp.sel as u32, v.len())] }
            }
            5 => unknown_key(isp.sel, g.tree, &g.tip),
            6 if idx > 0 => inputs[idx - 1].0,
            7 if prev.is_some() => {
                intents.push("shares-input-with-previous");
                if isp.sel % 2 == 0 {
                    rich = true;
                }
                cell_key(&prev.unwrap().input_pts_iter().next().unwrap())
            }
            8 if prev.map(|p| !p.outputs().is_empty()).unwrap_or(false) => {
                let p = prev.unwrap();
                intents.push("child-of-previous");
                let (o, d) = p.outputs_with_data_iter().next().unwrap();
                prev_cell = Some(VCell {
                    output: o,
                    data: d,
                    // same-block parent: committed at the probe position itself
                    info: Some(CellInfo {
                        number: g.sched[probe.min(g.sched.len() - 1)].number,
                        epoch: g.sched[probe.min(g.sched.len() - 1)].epoch,
                        ts: g.sched[probe.min(g.sched.len() - 1)].ts,
                        cellbase: false,
                        hash: None,
                    }),
                });
                (h32(&p.hash()), 0)
            }
            9 if !g.prep.af_locked.is_empty() => g.prep.af_locked[pick_idx(isp.sel as u32, g.prep.af_locked.len())],
            _ => match plain(g) {
                Some(k) => k,
                None if !live_any.is_empty() => live_any[pick_idx(isp.sel as u32, live_any.len())],
                None => return None,
            },
        };
        let cell = prev_cell.or_else(|| match view.lookup(&key) {
            Look::Live(c) => Some(c),
            _ => None,
        });
        let since = make_since(&isp.since, &tenv, cell.as_ref().and_then(|c| c.info.as_ref()));
        inputs.push((key, cell, since));
    }
    // --- cell deps
    let as_dep = env.always_success_dep.clone();
    let af_dep = env.always_failure_dep.clone();
    let code = |k: &CellKey| CellDep::new_builder().out_point(out_point_of(k)).dep_type(DepType::Code).build();
    let group = |k: &CellKey| CellDep::new_builder().out_point(out_point_of(k)).dep_type(DepType::DepGroup).build();
    let mut deps: Vec<CellDep> = vec![as_dep.clone()];
    let needs_af = spec.out.typ == 2 || inputs.iter().any(|(_, c, _)| c.as_ref().map(|c| c.output.lock().code_hash() == env.always_failure_lock.code_hash()).unwrap_or(false));
    if needs_af {
        deps.push(af_dep.clone());
    }
    let grp = |g: &GenCtx, name: &str| g.prep.groups.get(name).copied();
    for dsp in &spec.deps {
        match dsp.kind {
            1 if !live_any.is_empty() => deps.push(code(&live_any[pick_idx(dsp.sel as u32, live_any.len())])),
            2 => {
                let v = spent_cells(g.tree, &g.tip);
                if !v.is_empty() {
                    deps.push(code(&v[pick_idx(dsp.sel as u32, v.len())]));
                }
            }
            3 => deps.push(code(&unknown_key(dsp.sel, g.tree, &g.tip))),
            4 => deps.push(code(&inputs[0].0)),
            5 => {
                if let Some(p) = prev {
                    intents.push("dep-on-previous-candidates-input");
                    deps.push(code(&cell_key(&p.input_pts_iter().next().unwrap())));
                }
            }
            20 => {
                // a cell spent by the candidate before the previous one (in the pool: a transaction
                // that survives when this one replaces the previous one)
                match (prev, prev2) {
                    (Some(p1), Some(p2)) => {
                        // full scenario: spend the previous candidate's first input (replace it)
                        // and depend on a cell the one before spends
                        let k1 = cell_key(&p1.input_pts_iter().next().unwrap());
                        let k2 = cell_key(&p2.input_pts_iter().next().unwrap());
                        if k1 != k2 {
                            if let Look::Live(c) = view.lookup(&k1) {
                                inputs[0] = (k1, Some(c), 0);
                            }
                            deps.push(code(&k2));
                            intents.push("replacement-scenario");
                            if dsp.sel % 2 == 0 {
                                rich = true;
                            }
                        }
                    }
                    (Some(p), None) => {
                        intents.push("dep-on-previous-candidates-input");
                        deps.push(code(&cell_key(&p.input_pts_iter().next().unwrap())));
                    }
                    _ => {}
                }
            }
            6 => {
                // the group is the only provider of the code
                if let Some(k) = grp(g, "as") {
                    deps.retain(|d| *d != as_dep);
                    deps.push(group(&k));
                }
            }
            7 => {
                // a group hiding one of this transaction's own inputs: spend the hidden cell
                let name = if dsp.sel % 3 == 0 { "hidden0-only" } else if dsp.sel % 3 == 1 { "as+hidden0" } else { "as+hidden1" };
                if let Some(k) = grp(g, name) {
                    let hidden = if name == "as+hidden1" { g.prep.plain[g.prep.plain.len() - 2] } else { g.prep.plain[g.prep.plain.len() - 1] };
                    if let Look::Live(c) = view.lookup(&hidden) {
                        if !inputs.iter().any(|i| i.0 == hidden) {
                            let since = inputs[0].2;
                            inputs[0] = (hidden, Some(c), since);
                        }
                        intents.push("dep-group-hides-own-input");
                    }
                    deps.push(group(&k));
                }
            }
            8 => {
                // a group hiding a cell somebody else (an earlier candidate) may spend
                let name = if dsp.sel % 2 == 0 { "as+hidden0" } else { "as+hidden1" };
                if let Some(k) = grp(g, name) {
                    intents.push("dep-group-hides-foreign-cell");
                    deps.push(group(&k));
                }
            }
            9 => {
                if let Some(k) = grp(g, "empty") {
                    deps.push(group(&k));
                }
            }
            10 => {
                if let Some(k) = grp(g, if dsp.sel % 2 == 0 { "malformed-short" } else { "malformed-count" }) {
                    deps.push(group(&k));
                }
            }
            11 => {
                if let Some(k) = grp(g, "no-data") {
                    deps.push(group(&k));
                }
            }
            12 => {
                if let Some(k) = grp(g, "dead-member") {
                    deps.push(group(&k));
                }
            }
            13 => {
                if let Some(k) = grp(g, "unknown-member") {
                    deps.push(group(&k));
                }
            }
            14 => {
                if !deps.is_empty() {
                    let d = deps[pick_idx(dsp.sel as u32, deps.len())].clone();
                    deps.push(d);
                }
            }
            15 => deps.retain(|d| *d != as_dep),
            16 => {
                // youngest cellbase cell as a code dep
                let cb = st.live.iter().filter(|(_, c)| c.cellbase && c.block_number > 0).max_by_key(|(_, c)| c.block_number).map(|(k, _)| *k);
                if let Some(k) = cb {
                    intents.push("cellbase-dep");
                    deps.push(code(&k));
                }
            }
            17 => {
                if !deps.contains(&af_dep) {
                    deps.push(af_dep.clone());
                }
            }
            18 => {
                // the always_success cell read as a dep group (its data is a program)
                deps.push(group(&cell_key(&as_dep.out_point())));
            }
            19 => {
                // expansion limit: 2048 members (+ the code dep = 2049) or the group alone
                match (grp(g, "x2048"), grp(g, "x2049"), dsp.sel % 4) {
                    (Some(k), _, 0) => {
                        deps.retain(|d| *d != as_dep);
                        deps.push(group(&k));
                        intents.push("expansion-2048");
                    }
                    (Some(k), _, 1) => {
                        deps.push(group(&k));
                        intents.push("expansion-2049");
                    }
                    (_, Some(k), 2) => {
                        deps.retain(|d| *d != as_dep);
                        deps.push(group(&k));
                        intents.push("expansion-2049");
                    }
                    (Some(k), _, _) => {
                        // 2048 members plus one of this transaction's inputs hidden behind it
                        deps.retain(|d| *d != as_dep);
                        deps.push(group(&k));
                    }
                    _ => {}
                }
            }
            _ => {}
        }
    }
    // --- header deps
    let mut hdeps: Vec<Byte32> = vec![];
    let main_path: Vec<H> = g.tree.path(&g.tip).iter().map(|b| b.hash.clone()).collect();
    for hsp in &spec.hdeps {
        match hsp.kind {
            1 => hdeps.push(main_path[pick_idx(hsp.sel as u32, main_path.len())].clone()),
            2 => hdeps.push(g.tip.clone()),
            3 => {
                if !g.side_blocks.is_empty() {
                    hdeps.push(g.side_blocks[pick_idx(hsp.sel as u32, g.side_blocks.len())].clone());
                }
            }
            4 => {
                let mut h = [0x5au8; 32];
                h[0..2].copy_from_slice(&hsp.sel.to_le_bytes());
                hdeps.push(Byte32::from_slice(&h).unwrap());
            }
            5 => {
                if let Some(h) = hdeps.last().cloned() {
                    hdeps.push(h);
                }
            }
            _ => hdeps.push(g.tree.genesis.clone()),
        }
    }
    // --- outputs
    let in_sum: u64 = inputs.iter().filter_map(|(_, c, _)| c.as_ref()).map(|c| cap(&c.output)).sum();
    let lock = if spec.out.lock >= 3 { env.always_failure_lock.clone() } else { lock_variant(env, spec.out.lock) };
    let typ: Option<Script> = match spec.out.typ {
        1 => Some(env.always_success_lock.clone()),
        2 => Some(env.always_failure_lock.clone()),
        _ => None,
    };
    let data = Bytes::from(vec![spec.out.data_len; spec.out.data_len as usize]);
    let shape = |capv: u64, with_type: bool, with_data: bool| {
        let mut b = CellOutput::new_builder().capacity(Capacity::shannons(capv)).lock(lock.clone());
        if with_type {
            b = b.type_(typ.clone().pack());
        }
        (b.build(), if with_data { data.clone() } else { Bytes::new() })
    };
    let fee: i128 = match spec.out.sum_mode {
        1 => 0,
        2 => -1,
        3 => 1,
        4 => 150,
        5 => 30_000_000,
        _ if rich => 30_000_000,
        _ => 10_000_000,
    };
    let mut n = spec.out.n.max(1) as usize;
    if spec.out.cap_mode != 0 {
        n = n.max(2);
    }
    let total: i128 = in_sum as i128 - fee;
    let mut outs: Vec<(CellOutput, Bytes)> = vec![];
    // output 0 carries type/data and the capacity boundary
    let (o0, d0) = shape(0, true, true);
    let occ0 = occupied_shannons(&o0, d0.len()) as i128;
    let plain_occ = occupied_shannons(&shape(0, false, false).0, 0) as i128;
    let c0: i128 = match spec.out.cap_mode {
        1 => occ0,
        2 => occ0 - 1,
        3 => occ0 + 1,
        _ => {
            if n == 1 { total } else { (total / n as i128).max(occ0) }
        }
    };
    if n > 1 {
        // shrink the number of outputs until the rest covers the plain ones
        while n > 2 && total - c0 < plain_occ * (n as i128 - 1) {
            n -= 1;
        }
    }
    let c0u = c0.clamp(0, u64::MAX as i128) as u64;
    outs.push((shape(c0u, true, true).0, d0));
    if n > 1 {
        let rest = total - c0;
        let each = rest / (n as i128 - 1);
        for i in 1..n {
            let c = if i == n - 1 { rest - each * (n as i128 - 2) } else { each };
            outs.push(shape(c.clamp(0, u64::MAX as i128) as u64, false, false));
        }
    }
    let mut tb = TransactionBuilder::default();
    if spec.structural == 1 {
        tb = tb.version(1u32);
    }
    for d in &deps {
        tb = tb.cell_dep(d.clone());
    }
    for h in &hdeps {
        tb = tb.header_dep(h.clone());
    }
    for (k, _, since) in &inputs {
        tb = tb.input(CellInput::new(out_point_of(k), *since));
    }
    if spec.structural != 2 {
        for (o, d) in &outs {
            tb = tb.output(o.clone()).output_data(d.pack());
        }
    }
    if spec.structural == 3 {
        tb = tb.output_data(Bytes::new().pack());
    }
    Some(Built { tx: tb.build(), probe, intents })
}


// ---------------------------------------------------------------------------------------------
// family `dao`: NervosDAO-shaped candidates
// ---------------------------------------------------------------------------------------------

pub fn is_dao_typed(env: &Env, o: &CellOutput) -> bool {
    o.type_()
        .to_opt()
        .map(|t| {
            let ht: u8 = t.hash_type().into();
            ht == 1 && t.code_hash() == env.consensus.dao_type_hash()
        })
        .unwrap_or(false)
}

fn lock_with_args_len(env: &Env, len: usize) -> Script {
    env.always_success_lock.clone().as_builder().args(Bytes::from(vec![len as u8; len]).pack()).build()
}

/// Build a NervosDAO-shaped transaction; None when the cells it needs do not exist at the tip.
fn build_dao_candidate(g: &mut GenCtx, spec: &CandSpec, d: &DaoCand, probe: usize) -> Option<Built> {
    let env = g.env;
    let view = View::new(g.tree, &g.tip);
    let tenv = target_env(g, spec.target, probe);
    let st = &g.tree.get(&g.tip).state;
    let mut intents: Vec<&'static str> = vec![];
    let live = |k: &CellKey| st.live.contains_key(k);
    let next_plain = |g: &mut GenCtx| -> Option<CellKey> {
        while g.next_plain < g.prep.plain.len() {
            let k = g.prep.plain[g.next_plain];
            g.next_plain += 1;
            if g.tree.get(&g.tip).state.live.contains_key(&k) {
                return Some(k);
            }
        }
        None
    };
    // DAO cells of the history (spendable lock), by phase
    let hist: Vec<(CellKey, bool)> = st
        .live
        .iter()
        .filter(|(k, c)| is_dao_typed(env, &c.output) && is_as_family(env, &c.output.lock()) && !g.prep.dao_deposits.contains(k) && !g.prep.dao_withdrawing.contains(k))
        .map(|(k, c)| (*k, c.data.len() == 8 && c.data.iter().any(|b| *b != 0)))
        .collect();
    let dao_key: CellKey = match d.kind {
        1 => next_plain(g)?,
        2 => {
            let h: Vec<CellKey> = hist.iter().filter(|x| !x.1).map(|x| x.0).collect();
            if d.sel % 3 == 0 && !h.is_empty() {
                intents.push("dao-cell-from-history");
                h[pick_idx(d.sel as u32, h.len())]
            } else {
                let mut k = None;
                while g.next_dao.0 < g.prep.dao_deposits.len() {
                    let c = g.prep.dao_deposits[g.next_dao.0];
                    g.next_dao.0 += 1;
                    if live(&c) {
                        k = Some(c);
                        break;
                    }
                }
                match k {
                    Some(k) => k,
                    None if !h.is_empty() => h[pick_idx(d.sel as u32, h.len())],
                    None => return None,
                }
            }
        }
        _ => {
            let h: Vec<CellKey> = hist.iter().filter(|x| x.1).map(|x| x.0).collect();
            if d.sel % 3 == 0 && !h.is_empty() {
                intents.push("dao-cell-from-history");
                h[pick_idx(d.sel as u32, h.len())]
            } else {
                let mut k = None;
                while g.next_dao.1 < g.prep.dao_withdrawing.len() {
                    let c = g.prep.dao_withdrawing[g.next_dao.1];
                    g.next_dao.1 += 1;
                    if live(&c) {
                        k = Some(c);
                        break;
                    }
                }
                match k {
                    Some(k) => k,
                    None if !h.is_empty() => h[pick_idx(d.sel as u32, h.len())],
                    None => return None,
                }
            }
        }
    };
    let dao_cell = match view.lookup(&dao_key) {
        Look::Live(c) => c,
        _ => return None,
    };
    let info = dao_cell.info;
    let since = make_since(&spec.inputs[0].since, &tenv, info.as_ref());
    let mut inputs: Vec<(CellKey, VCell, u64)> = vec![(dao_key, dao_cell.clone(), since)];
    if d.extra_plain_input {
        if let Some(k) = next_plain(g) {
            if let Look::Live(c) = view.lookup(&k) {
                if d.plain_first {
                    inputs.insert(0, (k, c, 0));
                } else {
                    inputs.push((k, c, 0));
                }
            }
        }
    }
    let dao_idx = inputs.iter().position(|i| i.0 == dao_key).unwrap();
    // --- header deps, witnesses, maximum withdraw
    let mut hdeps: Vec<Byte32> = vec![];
    let mut witnesses: Vec<Bytes> = vec![];
    let in_caps: u128 = inputs.iter().map(|i| cap(&i.1.output) as u128).sum();
    let mut max_sum: u128 = in_caps;
    let key32 = |h: &[u8; 32]| Byte32::from_slice(h).unwrap();
    match d.kind {
        1 => intents.push("dao-deposit"),
        2 => {
            intents.push("dao-phase1");
            if d.sel % 2 == 0 {
                if let Some(h) = info.as_ref().and_then(|i| i.hash) {
                    hdeps.push(key32(&h));
                }
            }
        }
        _ => {
            intents.push("dao-phase2");
            let w_hash = info.as_ref().and_then(|i| i.hash)?;
            let w = g.tree.get(&key32(&w_hash));
            let recorded = u64::from_le_bytes(dao_cell.data[..8].try_into().ok()?);
            let main = |n: u64| g.tree.ancestor(&g.tip, n).map(|b| b.hash.clone());
            let d_block = match d.hdr {
                7 => Some(key32(&w_hash)),
                8 => main(1 + d.sel as u64 % w.number.saturating_sub(1).max(1)),
                9 => main((w.number + 1).min(g.tree.get(&g.tip).number)),
                _ => main(recorded),
            }?;
            let (deps, index): (Vec<Byte32>, u64) = match d.hdr {
                1 => (vec![key32(&w_hash), d_block.clone()], 1),
                2 => (vec![d_block.clone()], 0),
                3 => (vec![d_block.clone(), key32(&w_hash)], 2 + d.sel as u64 % 3),
                // W named as its own deposit block: listed once (a repeated header dep is refused as such)
                7 => (vec![key32(&w_hash)], 0),
                _ => (vec![d_block.clone(), key32(&w_hash)], 0),
            };
            hdeps = deps;
            let idx_bytes = |n: usize| Bytes::from(index.to_le_bytes()[..n].to_vec());
            let wa = |input_type: Option<Bytes>, lock: Option<Bytes>| {
                ckb_types::packed::WitnessArgs::new_builder().input_type(input_type.pack()).lock(lock.pack()).build().as_bytes()
            };
            let w_bytes: Option<Bytes> = match d.hdr {
                4 => None,
                5 => Some(Bytes::from(vec![0x5a; 11])),
                6 => Some(wa(Some(idx_bytes(4)), None)),
                10 => Some(wa(None, Some(idx_bytes(8)))),
                _ => Some(wa(Some(idx_bytes(8)), None)),
            };
            if let Some(wb) = w_bytes {
                for i in 0..inputs.len() {
                    witnesses.push(if i == dao_idx { wb.clone() } else { Bytes::new() });
                }
            }
            if d.hdr != 0 && d.hdr != 1 {
                intents.push("dao-phase2-odd-header-shape");
            }
            // what the generator expects the maximum to be (the oracle recomputes it)
            let db = g.tree.get(&d_block);
            if db.number < w.number {
                let occ = occupied_shannons(&dao_cell.output, dao_cell.data.len());
                let c = cap(&dao_cell.output) as u128;
                let maxw = (c - occ) * w.dao.ar as u128 / db.dao.ar as u128 + occ;
                max_sum = in_caps - c + maxw;
            }
        }
    }
    // --- outputs
    let mut outs: Vec<(CellOutput, Bytes)> = vec![];
    let total: i128 = match d.amount {
        1 => max_sum as i128,
        2 => max_sum as i128 + 1,
        3 => max_sum as i128 - 1,
        4 => in_caps as i128,
        5 => in_caps as i128 + 1,
        6 => max_sum as i128 - 150,
        _ => max_sum as i128 - 10_000_000,
    };
    let in_lock_len = dao_cell.output.lock().args().raw_data().len();
    let out_lock_len = if d.out_lock == 0 { in_lock_len } else { (in_lock_len + d.out_lock as usize) % 4 };
    let dao_type = dao_type_script(env, if d.type_args { 3 } else { 0 });
    let plain = |capv: i128, lock_len: usize| {
        CellOutput::new_builder().capacity(Capacity::shannons(capv.clamp(0, u64::MAX as i128) as u64)).lock(lock_with_args_len(env, lock_len)).build()
    };
    // optional output at the occupied-capacity boundary
    let mut rest = total;
    let mut boundary: Option<(CellOutput, Bytes)> = None;
    if d.occ != 0 {
        let data = Bytes::from(vec![7u8; (d.sel % 5) as usize]);
        let probe_out = plain(0, 1);
        let occ = occupied_shannons(&probe_out, data.len()) as i128;
        let c = match d.occ {
            1 => occ,
            2 => occ - 1,
            _ => occ + 1,
        };
        boundary = Some((plain(c, 1), data));
        rest -= c;
        intents.push("dao-with-output-at-occupied-boundary");
    }
    match d.kind {
        1 | 2 => {
            let data = if d.kind == 1 { Bytes::from(vec![0u8; 8]) } else { Bytes::from(info.map(|i| i.number).unwrap_or(1).to_le_bytes().to_vec()) };
            let o = plain(rest, out_lock_len).as_builder().type_(Some(dao_type).pack()).build();
            outs.push((o, data));
            if d.kind == 2 {
                intents.push(if out_lock_len == in_lock_len { "dao-phase1-same-lock-size" } else { "dao-phase1-other-lock-size" });
            }
        }
        _ => outs.push((plain(rest, out_lock_len), Bytes::new())),
    }
    if let Some(b) = boundary {
        outs.push(b);
    }
    let mut tb = TransactionBuilder::default().cell_dep(env.always_success_dep.clone());
    if !d.no_dao_dep {
        tb = tb.cell_dep(env.dao_dep.clone());
    }
    for h in &hdeps {
        tb = tb.header_dep(h.clone());
    }
    for (k, _, since) in &inputs {
        tb = tb.input(CellInput::new(out_point_of(k), *since));
    }
    for (o, data) in &outs {
        tb = tb.output(o.clone()).output_data(data.pack());
    }
    for w in &witnesses {
        tb = tb.witness(w.pack());
    }
    let _ = g.dao_lock_start;
    Some(Built { tx: tb.build(), probe, intents })
}
